NOTES = (
    "Static analysis only (python ast; no import or execution of geometer, no solver). Every check re-parses /repo/geometer on "
    "each run. Exit 0 = structural clause holds (UNDECIDED constructs are listed, never alarms); 1 = VIOLATION line; 2 = "
    "ANALYSIS-ERROR (public anchor gone, role floor missed, control missed, checker crash). See DESIGN.md."
)

ENGINES = [
    {"name": "M0 program model", "path": "geolint/model.py", "serves_properties": [], "kind_free_text": "AST index: modules, imports, classes, C3 MRO, functions, name resolution"},
    {"name": "E2/E3/E4.V1 operator consistency", "path": "geolint/dunder.py", "serves_properties": ["C19"], "kind_free_text": "syntax-tree rules over super() sites, dunder returns, dispatch-table literals, constructor index-set discipline"},
    {"name": "E6 kind closure", "path": "geolint/kinds.py", "serves_properties": ["C04", "C14", "C06"], "kind_free_text": "class-table rules: element-class registry, __getitem__ re-wrap by MRO, type(self)(...) reconstruction vs subclass constructors, __apply__ result kind and derived caches, np.empty buffer coverage"},
    {"name": "E10 intersection plumbing", "path": "geolint/intersect.py", "serves_properties": ["C18"], "kind_free_text": "context-sensitive AST rules over the intersect implementations: filter conjuncts per narrowed operand kind, exception-handler mask plumbing, distinct wrapping, is_zero compensation"},
    {"name": "E7 error discipline", "path": "geolint/errors.py", "serves_properties": ["C02", "C05", "C11"], "kind_free_text": "role-based: raise sites of a documented error class, call-graph reachability from entry points, handler interception, validate-before-use ordering, payload agreement"},
    {"name": "call graph", "path": "geolint/callgraph.py", "serves_properties": ["C02", "C05", "C11", "C12"], "kind_free_text": "callee resolution by names, annotation-derived receiver types with dynamic dispatch over subclasses, super(), properties, operators; CHA fallback"},
    {"name": "E4.V2/V3 + E8 variance and conjugation", "path": "geolint/variance.py", "serves_properties": ["C07", "C08"], "kind_free_text": "constant propagation of covariant=/tensor_rank= through super().__init__ chains along the MRO; diagram-edge discipline in __apply__; translation-conjugation idiom"},
    {"name": "E1 effect/alias engine", "path": "geolint/aliaseng.py", "serves_properties": ["C12", "C05"], "kind_free_text": "interprocedural abstract interpretation (geolint/av.py values: object identity, shallow-copy attribute sharing, ndarray memory with DEF/SOME/UNK certainty; geolint/npmodel.py numpy aliasing table; context per copy= flag; summaries to a fixpoint) with a public-boundary layer geolint/purity.py"},
    {"name": "E5 homogeneity typing", "path": "geolint/homog.py", "serves_properties": ["C03", "C17", "C09", "C11"], "kind_free_text": "dimensional-analysis type system: abstract interpretation with path enumeration, degree maps per argument symbol (geolint/hv.py), sinks = order/sign decisions, equalities, numeric returns, point constructions, affine weights"},
    {"name": "mutation self-test", "path": "geolint/selftest.py", "serves_properties": [], "kind_free_text": "in-memory textual variants of the current tree: breaking variants must be reported with the named rule, twins must be silent"},
    {"name": "E11 sign-domain membership", "path": "geolint/signdom.py", "serves_properties": ["C16"], "kind_free_text": "abstract interpretation of Triangle.contains over the finite domain of sign vectors of its barycentric determinants (exhaustive, both orientations, scalar and vectorised path) against the closed-triangle specification; closedness rules for the bound comparisons of the segment test and the boundary/coplanarity conjuncts of the polygon test"},
    {"name": "E12 closed-form kernels", "path": "geolint/polyform.py", "serves_properties": ["C20", "C13"], "kind_free_text": "normal form of entry-wise expressions as polynomials over matrix-entry atoms compared with the Leibniz expansion; evaluation of literal fancy-index tables and constant slice patterns as index sets compared with the cofactor and Levi-Civita definitions"},
    {"name": "E13 index kinds", "path": "geolint/indexing.py", "serves_properties": ["C19"], "kind_free_text": "abstract interpreter for straight Python (geolint/absint.py: ordinary values for structure, Arr(ndim, kind) for arrays, a table of numpy transfer functions) applied to Tensor._get_index_mapping for every index tuple of an enumerated domain of index kinds; oracle geolint/indexspec.py (numpy's basic/advanced indexing rules at the level of kinds, validated against numpy by tools/validate_indexspec.py)"},
    {"name": "E9 kind dispatch", "path": "geolint/dispatch.py", "serves_properties": ["C09"], "kind_free_text": "decision-list evaluation of isinstance dispatch over all ordered pairs of concrete kinds with static class hierarchy; reduction graph, cycles, documented pairs, kind-blind equality short-cut"},
]

NA_COMMON = "value-level statement about floating-point results for all inputs; no shape-of-code clause that is a necessary condition and not a frozen fragment (DESIGN.md section 5)"
NOT_APPLICABLE = [
    {"property_id": "C01", "reason": "join/meet exactness and round trips are numeric identities (signs and index order inside einsum); " + NA_COMMON},
    {"property_id": "C10", "reason": "perpendicular/parallel/projection/mirror are metric identities on coordinates; the only structural fact (complete initialisation of the np.empty buffer) is checked under C04"},
    {"property_id": "C15", "reason": "square-root sign choices and root selection in the decomposition are value-level"},
]

CHECKS = [
    {
        "id": "C19", "engine": "E2/E3/E4.V1 operator consistency", "design_ref": "4 (E2, E3, E4 V1), 5 C19",
        "technique": "AST rules: super()-delegation agreement, reflected-operator operand order, operator presence by MRO, literal dispatch tables vs data-model oracle, constructor index-set abstract transfer; abstract interpretation of the index-mapping code over a finite domain of index kinds against a table of numpy's indexing rules",
        "text": "Structural clauses of C19 only: every arithmetic dunder falls through to the same operator of its base class, reflected dunders swap operands, every operator C19 names exists for every concrete tensor class, the ufunc->dunder tables and the dispatcher's operand/name choice agree with the Python data model, arithmetic results are constructed with index sets the constructor interprets correctly for collections, raw array arithmetic (<x>.array OP p) never receives a Tensor operand - numpy would hand it to the Tensor's reflected operator and the result would carry the other operand's index types -, and transpose derives the result's index sets as the preimage (not the image) of the source sets under the permutation. Exhaustive over all super() sites, dunders, table entries and construction sites of the package. Index bookkeeping (E13): the axis mapping of t[index] computed by Tensor._get_index_mapping - obtained by abstract interpretation of its source over index KINDS (integer, slice, None, Ellipsis, integer arrays and boolean masks of one and two dimensions, lists) - equals numpy's indexing rules for every index tuple of up to three (thorough: four) elements on tensors of rank 2 to 4 (1792 / 10153 tuples): surviving axes keep their index type, inserted and fancy-indexed axes become collection axes, in numpy's order. The numbers returned, longer index tuples and index arrays of more than two dimensions are NOT decided.",
        "note": "trusts: Python data model operator table, numpy ufunc names, recognised form of Tensor.__init__ (else UNDECIDED)",
    },
    {
        "id": "C04", "engine": "E6 kind closure", "design_ref": "4 (E6 K1, K2, K5), 5 C04",
        "technique": "class-table and AST rules: _element_class registry, MRO-resolved __getitem__ re-wrap and carried constructor attributes, np.empty buffer write coverage",
        "text": "Structural part of C04's second sentence (indexing or iterating a collection yields the element class with its attributes intact): every concrete collection class registers an element class of its own family, its MRO-resolved __getitem__ re-wraps into that family and passes on constructor-parameter attributes (is_dual), __iter__ goes through self[i]; integer indexing can reach the element class at all (constructor validation is not skipped for Tensor arguments; from_tensor/from_array fall back), __iter__ goes through self[i]; plus complete initialisation of np.empty buffers in vectorised branches and all()-quantified whole-array fast paths (a fast path guarded by any() leaves part of a collection unprocessed). Exhaustive over the 7 collection classes, all np.empty buffers and all return-the-parameter fast paths. Equality of vectorised and scalar branches and einsum alignment are NOT decided.",
        "note": "trusts the class table built from the source; helper re-wraps are followed two calls deep, otherwise UNDECIDED",
    },
    {
        "id": "C06", "engine": "E6 kind closure", "design_ref": "4 (E6 K3, K4), 5 C06",
        "technique": "AST rules over every __apply__ implementation resolved by MRO for every concrete class; derived-cache attributes found by role (annotated tensor attribute assigned in __init__)",
        "text": "Kind and cache clauses of C06 only: the result of every __apply__ is derived from self.copy()/super().__apply__ or a constructor of the receiver's family, every derived value cached on the instance (supporting line/plane of polytopes, cached_property or hand-made memo attributes) is re-assigned on the transformed object for every concrete class - self.copy() shares the instance __dict__, so a memo that is not reset answers for the ORIGINAL object -, every method that changes the coordinates of the receiver or of a shallow copy of it (__setitem__, expand_dims) resets every such memo, and the type(self)(...) reconstructions in inverse/__pow__ are accepted by every transformation class. Associativity, inverse, powers and identity are numeric and NOT decided; a wrong matrix order is invisible to this check.",
        "note": "thin claim by design; trusts annotations `_line: LineTensor`, `_plane: PlaneTensor` to find the derived caches",
    },
    {
        "id": "C09", "engine": "E9 kind dispatch", "design_ref": "4 (E9), 5 C09",
        "technique": "abstract evaluation of the isinstance decision list of dist over all ordered pairs of concrete kinds; recursion followed through annotation-derived argument types; cycle detection; homogeneity-degree typing of the distance/angle formulas",
        "text": "Homogeneity clause: the bracket formula behind dist and the value returned by angle have degree 0 in every argument's raw coordinates (E5). Dispatch clauses of C09: over all ordered pairs of concrete kinds (361 today) the reduction of dist terminates, every kind pair C09 documents reaches a base formula in both argument orders (no TypeError branch, no cycle), and the == short-cut cannot fire for objects of different kinds while __eq__ is kind-blind. Exhaustive over the finite kind lattice. The values of the distance/angle formulas, branch cuts and invariance under isometries are NOT decided.",
        "note": "trusts return annotations of project/base_point/vertices/edges/faces to type the arguments of recursive calls; unresolvable arguments give UNDECIDED",
    },
    {
        "id": "C14", "engine": "E6 kind closure", "design_ref": "4 (E6 K3), 5 C14",
        "technique": "constructor-signature compatibility of type(self)(...) / class-valued-local reconstruction sites against the __init__ of every inheriting concrete subclass",
        "text": "One clause of C14: 'dual ... works for every quadric class' - the object construction inside QuadricTensor.dual (and therefore is_tangent) is accepted by the constructor that is actually selected for every concrete quadric subclass (Circle, Ellipse, Sphere, Cone, Cylinder, Conic, Quadric, QuadricCollection); and the error discipline behind intersect's degenerate/irreducible split: NotReducible is raised, reachable, not intercepted and raised as soon as ONE member of a collection is irreducible (all(), not any()). All numeric clauses (intersection points, tangency, pole/polar reciprocity, involution) are NOT decided.",
        "note": "parameter annotations of the subclass constructors are the oracle for 'accepts an ndarray'",
    },
    {
        "id": "C02", "engine": "E7 error discipline", "design_ref": "4 (E7), 5 C02",
        "technique": "raise-site role search, call-graph reachability from the documented entry points, handler interception search, validate-before-use ordering of the zero test, payload/guard agreement",
        "text": "Structural half of C02: LinearDependenceError and NotCoplanar are raised somewhere reachable from join, meet, Point.join, Subspace.meet/join, Line(p,q), Plane(...); the zero test reads the contraction before it is normalised, changed or returned; in the collection case the mask passed is the array whose np.any() is the guard; no try/except inside the entry points' own call tree intercepts the error. Exhaustive over today's raise sites and handlers. 'Exactly when' (the tolerance arithmetic of is_zero, the double-epsilon coplanarity test) is NOT decided.",
        "note": "call graph over-approximates dynamic dispatch; handlers that both call and are called from an entry point are UNDECIDED",
    },
    {
        "id": "C07", "engine": "E4.V2/V3 + E8 variance and conjugation", "design_ref": "4 (E4 V2, V3), 5 C07",
        "technique": "constant propagation through constructor chains along the C3 MRO; AST rule on diagram edges of __apply__",
        "text": "Variance clauses of C07 only: for every concrete projective class the constructor chain assigns the index types C07's mechanism sentence names (points covariant, hyperplanes/lines/quadrics contravariant, dual quadrics covariant, transformations (1,1)); the generic action contracts covariant indices with the matrix and contravariant indices with an inverse, tensor_shape[0] resp. [1] times; derived values cached on the instance (duals, supporting planes, a memoised inverse) move with the object and are reset by every method that changes the coordinates. Commutation with join/meet, the basis-point transform and cross-ratio invariance are numeric and NOT decided.",
        "note": "thin claim by design; unresolvable constructor chains are UNDECIDED",
    },
    {
        "id": "C08", "engine": "E4.V2/V3 + E8 variance and conjugation", "design_ref": "4 (E8), 5 C08",
        "technique": "AST idiom rule on product chains translation(e1) * M * translation(e2), names resolved through single assignments; def-use dtype rule for assembled matrices; interprocedural alias/effect analysis (E1) restricted to the eight constructors and process-wide targets",
        "text": "ONE clause of C08: wherever a map is conjugated by a translation (reflection about a mirror off the origin, Cone, RegularPolygon) the outer factors are a translation and its inverse - the suite only mirrors through the origin where the sign is invisible. Two necessary conditions in addition: the dtype of every matrix assembled by item assignment depends on all operands stored into it (no silent truncation of a fractional offset), and no constructor writes into process-wide state (module constants, class caches, objects returned by lru_cache/cache-decorated functions), so a later constructor call cannot change what an earlier result maps points to. All numeric content (affine embedding, Rodrigues formula, frame maps, conic map) is NOT decided.",
        "note": "thin claim, labelled so; zero instances or an unrecognised idiom give UNDECIDED, never an alarm; the effect rule trusts the numpy aliasing table of E1",
    },
    {
        "id": "C11", "engine": "E7 error discipline", "design_ref": "4 (E7, E5), 5 C11",
        "technique": "raise-site/reachability/interception rules for NotCollinear and NotConcurrent, guard predicate over all four arguments; homogeneity-degree typing of the returned quotient",
        "text": "Error clause of C11 (NotCollinear/NotConcurrent raised, reachable from crossratio, guarded by a predicate over all four arguments, not intercepted) and the balance clause (the returned quotient has homogeneity degree 0 in each argument on the decided paths - necessary for a projective invariant). Which permutation is computed, the 0/0 positions and harmonic_set are NOT decided.",
        "note": "the plane path of crossratio is UNDECIDED for the balance clause (goes through basis_matrix)",
    },
    {
        "id": "C18", "engine": "E10 intersection plumbing", "design_ref": "4 (E10), 5 C18",
        "technique": "context-sensitive AST rules (enclosing isinstance arms and exception handlers) over the three intersect implementations",
        "text": "Plumbing of C18 on all paths including both exception handlers never executed by the suite: every bounded operand's membership test is a conjunct of the filter applied to the meet result, the dependent_values mask is applied to every collection operand and only under a guard that really separates collections from single objects, facet results pass through distinct, suppressed dependence checks are compensated by ~is_zero(). Geometric correctness of meet and contains is NOT decided.",
        "note": "filters hidden in helper calls are UNDECIDED",
    },
    {
        "id": "C05", "engine": "E7 error discipline", "design_ref": "4 (E7, E1), 5 C05",
        "technique": "E7 raise-site/ordering rules on add_edge; E1 whole-program effect analysis restricted to cache memory; def-use of the cached value against the cache key",
        "text": "Two clauses of C05 (thin, labelled so): both TensorComputationError guards of add_edge exist, are reachable and come before the indices they test are consumed or recorded; the epsilon/delta caches are filled only by the owning constructor with a fresh array that depends on the cache key alone is looked up and stored under one consistent key, and no array aliasing a cache is written anywhere in the package. That calculate() builds the right einsum subscripts and that the epsilon/delta entries equal their definitions - the heart of C05 - is NOT decided; a mutant there is invisible to this check.",
        "note": "shares the E1 engine run with C12",
    },
    {
        "id": "C12", "engine": "E1 effect/alias engine", "design_ref": "4 (E1), 5 C12",
        "technique": "whole-program interprocedural alias and effect analysis (abstract interpretation over the AST, summaries to a fixpoint over the call graph, context-sensitive in the copy= flag)",
        "text": "C12 is an effect property and is decided as such: for every function of the package every in-place write construct (item/augmented assignment, out=, in-place ndarray methods, container mutators, attribute rebinding, global/class-attribute stores) is traced to the memory or object it may hit; it is a violation when at a public entry point the target is still an argument, self, a cached attribute (_plane/_line), a module constant (I, J, infty, ...), a shared default-argument object or a class-level cache, for every input (DEF) or for an ordinary input (SOME, e.g. np.asarray(x) aliases an ndarray x). Sound up to UNDECIDED sites (listed in evidence; 0 today) and the numpy aliasing table.",
        "note": "trusts the numpy 1.26 aliasing table (validated with np.shares_memory) and the sanctioned-mutator table; path-insensitive between alias condition and write condition",
    },
    {
        "id": "C03", "engine": "E5 homogeneity typing", "design_ref": "4 (E5), 5 C03",
        "technique": "homogeneity-degree type system (abstract interpretation over the AST with path enumeration and interprocedural re-analysis); AST rule on the resolved __eq__ of every projective class",
        "text": "For real non-zero scale factors and finite polytope vertices: every order/sign decision, equality/isclose, numeric return of a metric or measure function and point construction in the package is typed with the degree by which it scales when an argument's homogeneous coordinates are rescaled; a sink is PROVEN when both sides scale by the same positive factor (or it is a zero test), a VIOLATION when the degrees are definite and differ or carry a sign - including a projective object built directly from an array whose entries or summands have definite different degrees/signs (raw coordinates stored into an identity matrix, s*A + B) -, UNDECIDED when the expression leaves the vocabulary (inhomogeneous sums, basis_matrix/null_space of raw data). == of every concrete projective class resolves to the scalar-multiple test. Quantifies over all representatives symbolically, which no test input built with Point(x, y) can. Magnitude effects of absolute tolerances, is_multiple itself and complex scale factors are NOT decided.",
        "note": "assumes package primitives (join, meet, project, base_point, ...) return some representative of a representative-independent object; numpy operator degrees as tabulated in geolint/homog.py",
    },
    {
        "id": "C13", "engine": "E12 closed-form kernels", "design_ref": "4 (E12), 5 C13",
        "technique": "term normalisation of the returned expression into a monomial in pi, the radius and the dimension (rational coefficient, exponents linear in n, gamma terms as atoms, class helpers inlined), compared with the textbook formula",
        "text": "ONE clause of C13's last sentence ('area and volume return the textbook measures'): Circle.area = pi r^2, Sphere.volume = pi^(n/2)/Gamma(n/2+1) r^n and Sphere.area = n pi^(n/2)/Gamma(n/2+1) r^(n-1) as monomials. Plus a necessary condition for 'center, radius ... return the parameters': every number returned by a quadric class has homogeneity degree 0 in the matrix and in every argument (E5; a sum of terms of definite different degree that reaches the return through scaling or roots only is a violation). A formula with the same gamma terms but another coefficient, factor or exponent is a violation; a formula written with other building blocks (Gamma(n/2), factorials) is UNDECIDED. NOT decided: all constructors (from_points, from_tangent, from_foci, from_crossratio; the loci of Circle/Ellipse/Sphere/Cone/Cylinder), center, radius, foci - numeric identities between a constructor's matrix and an accessor.",
        "note": "thinnest claim of the set, labelled so; it exists because the clause is decidable and was violated on the pinned tree (Circle.area, fixed)",
    },
    {
        "id": "C16", "engine": "E11 sign-domain membership", "design_ref": "4 (E11), 5 C16",
        "technique": "abstract interpretation over a finite sign domain (values touched only through comparisons with 0) with exhaustive enumeration of sign vectors; AST rules on bound comparisons and on the conjuncts/disjuncts of the returned membership",
        "text": "The part of C16 that lives in comparisons rather than in numbers: Triangle.contains, interpreted over every sign vector of its three barycentric determinants and both orientations (scalar and vectorised path), is True exactly on the closed triangle - vertices and edges included, nothing on the extension of an edge, independent of the direction of the vertex cycle; the two bounds of the segment test are closed (non-strict or widened by the tolerance on the permissive side) and conjoined with membership in the supporting line; the crossing-number parity of the polygon test is joined with edge membership of the query point and the 3D branch requires coplanarity. NOT decided: the crossing-number special cases (ray through a vertex, collinear edges), the projection of embedded polygons, the values of the determinants (their representative independence is C03), rays with an end point at infinity.",
        "note": "trusts that det(stack([p,b,c])), det(stack([a,p,c])), det(stack([a,b,p])) are the barycentric coordinates up to a common positive factor (recognised by row replacement; a wrong vertex replaced is a documented blind spot); constructs outside the sign interpreter's vocabulary give UNDECIDED",
    },
    {
        "id": "C20", "engine": "E12 closed-form kernels", "design_ref": "4 (E12), 5 C20",
        "technique": "term normalisation of closed-form return expressions into polynomials over matrix-entry atoms (no execution, no solver) and constant evaluation of literal index tables / slice patterns, each compared with the textbook definition",
        "text": "ONLY the closed-form branches that the size thresholds of det/adjugate/inv/hat_matrix select, as algebra and index tables: every `n == k` closed form of det is the Leibniz polynomial of the k x k determinant (all k! signed monomials); the 2x2 index table of adjugate with its sign flips is [[A11,-A01],[-A10,A00]]; the minor path transposes the matrix of minors once, negates exactly the positions with odd i+j for every n, and pairs the minor stored at (i,j) with row i and column j; the closed form of inv is adjugate(A)/det(A) with the determinant broadcast over both matrix axes after a singularity test; the 3D index table of hat_matrix is H[r,s] = eps(r,s,t) x[t]. NOT decided: which inputs reach which branch, the numpy fall-backs, the epsilon-diagram branch of adjugate, null_space, orth, roots (a lost triple root is a known, unclaimed defect), is_multiple, matmul/matvec/outer.",
        "note": "a closed form written outside the vocabulary (+ - * of entries and locals; literal tables; constant slices) is UNDECIDED; this decides formulas, not floating-point results",
    },
    {
        "id": "C17", "engine": "E5 homogeneity typing", "design_ref": "4 (E5 affine facet), 5 C17",
        "technique": "homogeneity-degree typing of the measure-returning members of the polytope classes plus affine-weight tracking of dehomogenised vertex coordinates",
        "text": "Two necessary conditions of C17's invariance clauses: every measure returned by a polytope class is computed from dehomogenised (degree-0) coordinates, and every point built from vertex coordinates (center, centroid) is an affine combination of total weight 1 (or a vector of weight 0), otherwise it is not equivariant under translations - which the suite cannot see because its shapes sit at the origin. The closed-form values themselves, the roll/flip logic of __eq__ and constructive results (midpoint, circumcenter) are NOT decided.",
        "note": "measures that reach raw data only through sums over different vertices end in TOP and are UNDECIDED (documented blind spot, see self-test)",
    },
]
