NOTES = (
    "Static analysis only (python ast; no import or execution of geometer, no solver). Every check re-parses /repo/geometer on "
    "each run. Exit 0 = structural clause holds (UNDECIDED constructs are listed, never alarms); 1 = VIOLATION line; 2 = "
    "ANALYSIS-ERROR (public anchor gone, role floor missed, control missed, checker crash). See DESIGN.md."
)

ENGINES = [
    {"name": "M0 program model", "path": "geolint/model.py", "serves_properties": [], "kind_free_text": "AST index: modules, imports, classes, C3 MRO, functions, name resolution"},
    {"name": "E2/E3/E4.V1 operator consistency", "path": "geolint/dunder.py", "serves_properties": ["C19"], "kind_free_text": "syntax-tree rules over super() sites, dunder returns, dispatch-table literals, constructor index-set discipline"},
]

NA_COMMON = "value-level statement about floating-point results for all inputs; no shape-of-code clause that is a necessary condition and not a frozen fragment (DESIGN.md section 5)"
NOT_APPLICABLE = [
    {"property_id": "C01", "reason": "join/meet exactness and round trips are numeric identities (signs and index order inside einsum); " + NA_COMMON},
    {"property_id": "C10", "reason": "perpendicular/parallel/projection/mirror are metric identities on coordinates; the only structural fact (complete initialisation of the np.empty buffer) is checked under C04"},
    {"property_id": "C13", "reason": "containment of defining points, foci, radii and areas are numeric (Circle.area = 2*pi*r^2 was seen while reading but no shape rule separates 2*pi from pi)"},
    {"property_id": "C15", "reason": "square-root sign choices and root selection in the decomposition are value-level"},
    {"property_id": "C16", "reason": "closedness and the measure-zero special cases are decided by values of determinants; the representative dependence of the same code is reported under C03"},
    {"property_id": "C20", "reason": "agreement of det/adjugate/inv/roots with exact linear algebra on both sides of size thresholds is value-level; purity of adjugate's in-place sign flips is covered by C12"},
]

CHECKS = [
    {
        "id": "C19", "engine": "E2/E3/E4.V1 operator consistency", "design_ref": "4 (E2, E3, E4 V1), 5 C19",
        "technique": "AST rules: super()-delegation agreement, reflected-operator operand order, operator presence by MRO, literal dispatch tables vs data-model oracle, constructor index-set abstract transfer",
        "text": "Structural clauses of C19 only: every arithmetic dunder falls through to the same operator of its base class, reflected dunders swap operands, every operator C19 names exists for every concrete tensor class, the ufunc->dunder tables and the dispatcher's operand/name choice agree with the Python data model, and arithmetic results are constructed with index sets the constructor interprets correctly for collections. Exhaustive over all super() sites, dunders, table entries and construction sites of the package. The numbers returned and the index mapping of __getitem__ for arbitrary numpy indices are NOT decided.",
        "note": "trusts: Python data model operator table, numpy ufunc names, recognised form of Tensor.__init__ (else UNDECIDED)",
    },
]
