#!/usr/bin/env python3
"""tools/seed_eval.py <dir with patch.diff, demo.py, meta.json> [--keep-as ID]
Confirms a seeded change in a fresh scratch worktree of /repo (patch applies, suite passes with it, demo fails with it and
passes without it), runs every registered quick check against that worktree, removes the worktree, and (with --keep-as) stores
the seed under /verif/seeded/ID/ with a meta.json that records what was run."""
import json, os, re, shutil, subprocess, sys, tempfile

VERIF = os.path.dirname(os.path.dirname(os.path.abspath(__file__)))
seed = os.path.abspath(sys.argv[1])
keep = sys.argv[sys.argv.index("--keep-as") + 1] if "--keep-as" in sys.argv else None


def sh(cmd, cwd=None, timeout=900):
    p = subprocess.run(cmd, shell=True, cwd=cwd, capture_output=True, text=True, timeout=timeout)
    return p.returncode, (p.stdout + p.stderr)


wt = tempfile.mkdtemp(prefix="seedeval_", dir="/tmp")
os.rmdir(wt)
rc, out = sh(f"git -C /repo worktree add -q --detach {wt} HEAD")
assert rc == 0, out
res = {"seed": seed}
try:
    demo = open(os.path.join(seed, "demo.py")).read()
    demo = re.sub(r"/tmp/w(?:[t23456789]|10|11|12|13)_[A-Za-z0-9_]+", wt, demo)
    demo = re.sub(r'(sys\.path\.insert\(0, *)"/repo"', r'\1"' + wt + '"', demo)
    open(os.path.join(wt, "_demo.py"), "w").write(demo)
    res["demo_clean_exit"], o1 = sh("/venv/bin/python _demo.py", cwd=wt)
    rc, out = sh(f"git -C {wt} apply {seed}/patch.diff")
    res["patch_applies"] = rc == 0
    if rc != 0:
        res["apply_error"] = out[-300:]
    else:
        res["demo_changed_exit"], o2 = sh("/venv/bin/python _demo.py", cwd=wt)
        res["demo_changed_tail"] = o2.strip().splitlines()[-2:]
        rc, out = sh("/venv/bin/python -m pytest -q -p no:cacheprovider", cwd=wt)
        res["tests"] = out.strip().splitlines()[-1] if out.strip() else ""
        os.remove(os.path.join(wt, "_demo.py"))
        man = json.load(open(os.path.join(VERIF, "MANIFEST.json")))
        detected = {}
        for c in man["checks"]:
            pid = c["property_id"]
            rc, out = sh(f"./check {pid} --repo {wt} --no-evidence", cwd=VERIF)
            if rc != 0:
                lines = [l for l in out.splitlines() if l.startswith("geometer/") or "ANALYSIS-ERROR" in l]
                entry = {"exit": rc, "report": [l.replace(wt + "/", "")[:300] for l in lines[:4]]}
                # only a VIOLATION line (exit 1) is a detection; exit 2 means the checker could not analyse the changed tree
                if rc == 1 and "VIOLATION property=" in out:
                    detected[pid] = entry
                else:
                    res.setdefault("analysis_errors", {})[pid] = entry
        res["detected_by"] = detected
finally:
    sh(f"git -C /repo worktree remove --force {wt}")
if "--quiet" in sys.argv:
    det = res.get("detected_by", {})
    print(keep or os.path.basename(seed), "applies", res.get("patch_applies"), "demo clean/changed", res.get("demo_clean_exit"), res.get("demo_changed_exit"),
          "|", (res.get("tests") or "")[:11], "| detected by:", {k: v["exit"] for k, v in det.items()} or "none")
else:
    print(json.dumps(res, indent=1))
if keep:
    dst = os.path.join(VERIF, "seeded", keep)
    os.makedirs(dst, exist_ok=True)
    if os.path.abspath(dst) != seed:
        shutil.copy(os.path.join(seed, "patch.diff"), dst)
        open(os.path.join(dst, "demo.py"), "w").write(re.sub(r"/tmp/w(?:[t23456789]|10|11|12|13)_[A-Za-z0-9_]+", "/repo", open(os.path.join(seed, "demo.py")).read()))
    meta = {}
    try:
        meta = json.load(open(os.path.join(seed, "meta.json")))
    except Exception:
        pass
    meta["confirmed"] = {k: res.get(k) for k in ("patch_applies", "demo_clean_exit", "demo_changed_exit", "tests")}
    meta["what_was_run"] = ("fresh scratch worktree of /repo HEAD: demo.py on the clean tree, git apply patch.diff, demo.py again, full pytest suite, "
                            "then every quick check of MANIFEST.json with --repo <worktree>; worktree removed afterwards")
    meta["detected_by"] = res.get("detected_by", {})
    meta["analysis_errors"] = res.get("analysis_errors", {})
    json.dump(meta, open(os.path.join(dst, "meta.json"), "w"), indent=1)
