#!/usr/bin/env python3
"""tools/validate_tables.py : development tool - validates the numpy MODEL of the table engine (geolint/quadforms.py, E19) against numpy itself.

Every snippet below is a small straight-line function over arrays. It is executed once by numpy on random integer arrays and once by the
table interpreter on constant tables holding the same integers; the results must agree exactly (rational arithmetic on both sides: the
numpy run uses Fraction objects in object arrays). Nothing of geometer is run. Run with /venv/bin/python (needs numpy).
"""
import ast
import os
import random
import sys
from fractions import Fraction

import numpy as np

sys.path.insert(0, os.path.dirname(os.path.dirname(os.path.abspath(__file__))))
from geolint import quadforms as qf  # noqa: E402
from geolint.model import Program  # noqa: E402
from geolint.polyform import LP  # noqa: E402

SNIPPETS = [
    # (name, parameter shapes, source of the body; the value of the last expression `out` is compared)
    ("eye and item assignment", {"c": (3,)}, "m = np.eye(3)\nm[-1, :] = c\nm[:, -1] = c\nm[-1, -1] = c[:-1].dot(c[:-1]) - 4\nout = m"),
    ("fancy diagonal", {"r": (3,)}, "m = np.eye(3)\nm[[0, 1], [0, 1]] = r[:2]\nm[2, :] = r\nout = m"),
    ("tuple of item targets", {"r": (3,)}, "m = np.zeros((3, 3))\nm[0, 0], m[1, 1] = r[0], r[1]\nout = m"),
    ("aug-assign on a block", {"c": (4,)}, "m = np.eye(4)\nm[-1, :] = -c\nm[:, -1] = -c\nm[2:, 2:] *= -3\nout = m"),
    ("aug-assign on a column", {"t": (3,)}, "s = np.eye(3)\ns[:, -1] -= t\nout = s"),
    ("matmul with transpose_a", {"a": (3, 3), "b": (3, 3)}, "out = matmul(matmul(a, b, transpose_a=True), a)"),
    ("matmul with transpose_b", {"a": (3, 3), "b": (3, 3)}, "out = matmul(matmul(a, b), a, transpose_b=True)"),
    ("dot chain with T", {"a": (3, 3), "b": (3, 3)}, "out = a.T.dot(b).dot(a)"),
    ("matmul operator", {"a": (3, 3), "b": (3, 3)}, "out = a.T @ b @ a"),
    ("outer and symmetrise", {"g": (3,), "h": (3,)}, "m = np.outer(g, h)\nm += m.T\nout = m"),
    ("cross", {"g": (3,), "h": (3,)}, "out = np.cross(g, h)"),
    ("stack rows", {"g": (3,), "h": (3,)}, "out = np.stack([g, h], axis=-2)"),
    ("stack columns", {"g": (3,), "h": (3,)}, "out = np.stack([g, h], axis=-1)"),
    ("stack default axis", {"g": (3,), "h": (3,)}, "out = np.stack([g, h])"),
    ("broadcast subtraction of a row", {"p": (4, 3), "t": (3,)}, "out = p - t"),
    ("mean over rows", {"p": (4, 3)}, "out = np.mean(p[:, :-1], axis=0)"),
    ("append", {"g": (2,)}, "out = np.append(g, 0)"),
    ("fan rows by an index list", {"p": (5, 3)}, "out = p[[0, 2, 3], :]"),
    ("fan rows by a 2-d index list", {"p": (5, 3)}, "tri = [[0, i, i + 1] for i in range(1, 4)]\nout = p[tri, :-1]"),
    ("ellipsis with an index list", {"p": (5, 3)}, "out = p[..., [0, 1, 2], :]"),
    ("average without weights", {"p": (5, 3)}, "out = np.average(p[[0, 1, 2], :-1], axis=0)"),
    ("triu scatter", {"d": (6,)}, "idx = np.triu_indices(3)\nm = np.zeros((4, 4))\nm[idx] = d\nm += m.T\nm[-1, :-1] = 1\nm[:-1, -1] = 1\nout = m"),
    ("rows by triu indices", {"p": (3, 4)}, "idx = np.triu_indices(3)\nd = p[idx[0]] - p[idx[1]]\nout = np.sum(d**2, axis=1)"),
    ("concatenate reshaped rows", {"g": (3,), "h": (3,)}, "out = np.concatenate([g.reshape((1, 3)), h.reshape((1, 3))], axis=0)"),
    ("diag", {"g": (3,)}, "out = np.diag(g)"),
    ("unpack rows", {"p": (3, 3)}, "a1, a2, a3 = p\nout = np.stack([a3, a1, a2])"),
    ("view write goes to the base", {"c": (3,)}, "m = np.eye(3)\nk = m\nk[-1, :] = c\nout = m"),
    ("in-place scaling is seen through an alias", {"p": (3, 3)}, "k = p\nk *= 2\nout = p"),
    ("array copies", {"p": (3, 3)}, "q = np.array(p)\nq[0, 0] = 7\nout = p"),
    ("swapaxes", {"p": (3, 3)}, "out = np.swapaxes(p, -1, -2)"),
    ("power of a table", {"p": (2, 3)}, "out = p**2"),
    ("sum over columns", {"p": (2, 3)}, "out = np.sum(p, axis=0)"),
    ("arange as an index", {"g": (3,)}, "m = np.zeros((3, 3))\ni = np.arange(3)\nm[i, i] = g\nout = m"),
    ("loop over a range", {"c": (3,)}, "m = np.eye(3)\nfor k in range(len(c)):\n    m[-1, k] = c[k]\nout = m"),
    ("loop over rows", {"p": (3, 2)}, "acc = np.zeros(2)\nfor row in p:\n    acc += row\nout = acc"),
    ("broadcast index arrays with new axes", {"a": (4, 4)}, "pairs = np.array([[0, 1], [2, 3], [1, 3]])\nout = a[pairs[:, None, :, None], pairs[None, :, None, :]]"),
    ("diagonal of a stack", {"a": (3, 3)}, "out = np.diagonal(a, axis1=-2, axis2=-1)"),
    ("delete from an arange", {"a": (4, 4)}, "rows = np.delete(np.arange(4), (1, 2))\nout = a[rows]"),
    ("reshape", {"a": (2, 3)}, "out = a.reshape((3, 2))"),
    ("column with a new axis", {"g": (3,), "a": (3, 3)}, "out = a * g[:, None]"),
    ("0-d boolean mask, true", {"g": (3,)}, "m = np.zeros_like(g)\nk = g[0] == g[0]\nm[k, 0] = g[k, 1]\nm[k, 1] = -g[k, 0]\nout = m"),
    ("0-d boolean mask, false", {"g": (3,)}, "m = np.zeros_like(g)\nk = g[0] != g[0]\nm[k, 0] = g[k, 1]\nm[~k, 2] = 7\nm[k & ~k, 1] = 3\nout = m"),
]


def run_numpy(src: str, args: dict):
    def matmul(a, b, transpose_a=False, transpose_b=False):
        a = np.swapaxes(a, -1, -2) if transpose_a else a
        b = np.swapaxes(b, -1, -2) if transpose_b else b
        return np.matmul(a, b)
    env = {"np": np, "matmul": matmul}
    env.update({k: v.copy() for k, v in args.items()})
    exec(src, env)
    return np.asarray(env["out"])


def run_tables(prog, src: str, args: dict):
    env = {}
    for k, v in args.items():
        env[k] = qf.Table(v.shape, {idx: LP.const(Fraction(int(v[idx]))) for idx in np.ndindex(v.shape)})
    it = qf.Interp(prog, None, {})
    it.ratio_mode = True  # np.average is part of the vocabulary in this mode only
    it.generic = True  # comparisons between polynomials are decided (constants here)
    it.block(ast.parse(src).body, env)
    return env["out"]


def main() -> int:
    prog = Program()
    random.seed(7)
    bad = 0
    for name, shapes, src in SNIPPETS:
        args = {k: np.array([random.randint(-4, 5) for _ in range(int(np.prod(shp)))], dtype=float).reshape(shp) for k, shp in shapes.items()}
        want = run_numpy(src, args)
        try:
            got = run_tables(prog, src, args)
        except Exception as ex:  # noqa: BLE001
            print(f"NOT READ   {name}: {type(ex).__name__}: {ex}")
            bad += 1
            continue
        if isinstance(got, qf.Opaque) or not isinstance(got, (qf.Table, LP)):
            print(f"OPAQUE     {name}: {getattr(got, 'why', type(got).__name__)}")
            bad += 1
            continue
        if isinstance(got, LP):
            ok = want.shape == () and Fraction(float(want)) == got.t.get((), 0)
        else:
            ok = tuple(want.shape) == got.shape and all(Fraction(float(want[idx])).limit_denominator(10 ** 6) == got.data[idx].t.get((), 0) for idx in np.ndindex(want.shape))
        print(("ok         " if ok else "MISMATCH   ") + name)
        bad += 0 if ok else 1
    print(f"{len(SNIPPETS)} snippets, {bad} problem(s)")
    return 1 if bad else 0


if __name__ == "__main__":
    sys.exit(main())
