#!/usr/bin/env python3
"""tools/seed_stability.py : does a seeded change stay detected when the changed tree is ALSO rewritten by the behaviour-preserving operators
of geolint/metamorph.py?  For every seed that some check reports: scratch worktree, apply patch, then for each operator transform the package in
memory and re-run the reporting check's rules. Prints one line per seed with the operators under which the report is lost."""
import json, os, subprocess, sys, tempfile
from concurrent.futures import ProcessPoolExecutor

VERIF = os.path.dirname(os.path.dirname(os.path.abspath(__file__)))
sys.path.insert(0, VERIF)


def one(seed: str) -> str:
    from geolint import checks, metamorph
    from geolint.model import Program
    from geolint.report import Run

    meta = json.load(open(os.path.join(VERIF, "seeded", seed, "meta.json")))
    det = [p for p, v in meta.get("detected_by", {}).items() if v.get("exit") == 1]
    if not det:
        return f"{seed}: not detected on the tree as written (skipped)"
    wt = tempfile.mkdtemp(prefix="seedstab_", dir="/tmp")
    os.rmdir(wt)
    subprocess.run(f"git -C /repo worktree add -q --detach {wt} HEAD", shell=True, check=True)
    try:
        subprocess.run(f"git -C {wt} apply {VERIF}/seeded/{seed}/patch.diff", shell=True, check=True)
        base = Program(root=wt)
        lost = []
        for op in metamorph.OPERATORS:
            srcs = {}
            for m in base.modules.values():
                new, k = metamorph.transform(m.source, op)
                if k:
                    srcs[m.rel] = new
            prog = Program(root=wt, sources=srcs)
            hit = False
            for pid in det:
                scratch = Run(prop=pid, quiet=True, write_evidence=False)
                try:
                    checks.REGISTRY[pid](scratch, prog)
                except Exception as e:  # noqa: BLE001
                    lost.append(f"{op}:{pid}:crash {type(e).__name__}")
                    continue
                if scratch.violations():
                    hit = True
            if not hit:
                lost.append(op)
        return f"{seed}: detected by {det}; lost under: {lost or 'none'}"
    finally:
        subprocess.run(f"git -C /repo worktree remove --force {wt}", shell=True)


if __name__ == "__main__":
    seeds = sys.argv[1:] or sorted(os.listdir(os.path.join(VERIF, "seeded")))
    with ProcessPoolExecutor(max_workers=8) as ex:
        for line in ex.map(one, seeds):
            print(line, flush=True)
