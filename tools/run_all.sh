#!/bin/sh
# tools/run_all.sh [quick|thorough] : run every registered check of MANIFEST.json against /repo (writes evidence); prints one line per check.
cd /verif
tier=${1:-quick}
rc=0
for p in $(python3 -c "import json;print(' '.join(c['property_id'] for c in json.load(open('MANIFEST.json'))['checks']))"); do
  s=$(date +%s.%N)
  out=$(./check $p --tier $tier 2>&1); e=$?
  t=$(echo "$(date +%s.%N) - $s" | bc)
  echo "$p exit=$e ${t}s $(echo "$out" | grep -c '^VIOLATION') violation line(s) $(echo "$out" | grep 'obligations=' | tail -1)"
  [ $e -ne 0 ] && rc=1
done
exit $rc
