#!/usr/bin/env python3
"""tools/validate_indexspec.py : development tool - validates the ORACLE of E13 (geolint/indexspec.py, numpy indexing at the level of
index kinds) against numpy itself: for every index tuple of the enumerated domain a concrete index is built, applied to an array
whose axes all have different lengths, and the axis provenance predicted by the spec is compared with the shape numpy returns.
Nothing of geometer is run. Run with /venv/bin/python (needs numpy)."""
import itertools
import os
import sys

import numpy as np

sys.path.insert(0, os.path.dirname(os.path.dirname(os.path.abspath(__file__))))
from geolint import indexspec  # noqa: E402

SIZES = [3, 4, 5, 6, 7]
B1, B2 = 2, 2  # lengths of the broadcast dimensions of 1-d / 2-d index arrays


def concrete(idx, shape):
    """a concrete numpy index of the given kinds; masks must match the axes they consume, so walk the axes"""
    rank = len(shape)
    used = sum(indexspec.consumed(e) for e in idx)
    out = []
    axis = 0
    for e in idx:
        if e == "int":
            out.append(1)
            axis += 1
        elif e == "slice":
            out.append(slice(None))
            axis += 1
        elif e == "none":
            out.append(None)
        elif e == "ellipsis":
            out.append(Ellipsis)
            axis += rank - used
        elif e[0] == "iarr":
            out.append(np.zeros((B2, B1)[: e[1]] if e[1] == 2 else (B1,), dtype=int))
            axis += 1
        elif e[0] == "list":
            out.append([0, 1])
            axis += 1
        elif e[0] == "barr":
            m = np.zeros(shape[axis: axis + e[1]], dtype=bool)
            m.flat[0] = True
            m.flat[1] = True  # two True entries -> broadcast dimension of length 2
            out.append(m)
            axis += e[1]
    return tuple(out)


def main() -> int:
    bad = 0
    n = 0
    for rank, idx, want in indexspec.domain(max_len=int(sys.argv[1]) if len(sys.argv) > 1 else 3, ranks=(2, 3, 4, 5)):
        shape = tuple(SIZES[:rank])
        a = np.zeros(shape)
        try:
            r = a[concrete(idx, shape)]
        except IndexError as e:
            print("numpy rejects", rank, idx, e)
            bad += 1
            continue
        n += 1
        got_shape = np.shape(r)
        # predicted shape: source axis -> its length; None -> 1 (np.newaxis) or 2 (broadcast dims): compare only the source-axis pattern
        if len(got_shape) != len(want):
            print("RANK MISMATCH", rank, idx, "spec", want, "numpy shape", got_shape)
            bad += 1
            continue
        for w, g in zip(want, got_shape):
            if w is not None and shape[w] != g:
                print("AXIS MISMATCH", rank, idx, "spec", want, "numpy shape", got_shape)
                bad += 1
                break
            if w is None and g not in (1, 2):
                print("NEW AXIS MISMATCH", rank, idx, "spec", want, "numpy shape", got_shape)
                bad += 1
                break
    print(f"{n} index tuples compared with numpy, {bad} disagreement(s)")
    return 1 if bad else 0


if __name__ == "__main__":
    sys.exit(main())
