#!/bin/sh
# tools/run_seeded.sh [seed-id ...] : apply each kept seeded change to /repo, run every quick check, undo it again.
cd /verif
ids=${*:-$(ls seeded)}
for id in $ids; do
  [ -f seeded/$id/patch.diff ] || continue
  git -C /repo apply seeded/$id/patch.diff || { echo "$id: patch does not apply"; continue; }
  hit=""
  for p in $(python3 -c "import json;print(' '.join(c['property_id'] for c in json.load(open('MANIFEST.json'))['checks']))"); do
    out=$(./check $p --no-evidence 2>&1); code=$?
    if [ $code -ne 0 ]; then hit="$hit $p(exit $code)"; fi
  done
  git -C /repo checkout -- .
  echo "$id: ${hit:- not detected}"
done
