#!/usr/bin/env python3
"""Regenerates /verif/MANIFEST.json from the table below (keeps it schema-valid at all times)."""
import json, os, sys

HERE = os.path.dirname(os.path.dirname(os.path.abspath(__file__)))
sys.path.insert(0, HERE)
from tools.manifest_data import CHECKS, NOT_APPLICABLE, ENGINES, NOTES  # noqa: E402

BASELINE_OFF = "cd /repo && /venv/bin/python -m pytest -ra -q -p no:cacheprovider --timeout=900 --continue-on-collection-errors"

m = {
    "version": 1,
    "setup_cmd": "cd /verif && chmod +x check && ./check --help >/dev/null",
    "hooks": {
        "guard": "GEOMETER_VERIF",
        "enable": "none needed: the checks read the source text of /repo/geometer; nothing is instrumented and no hook commit exists",
        "baseline_off_cmd": BASELINE_OFF,
        "source_commits": [],
        "add_only": True,
    },
    "engines": ENGINES,
    "checks": [],
    "notes": NOTES,
    "not_applicable": NOT_APPLICABLE,
}
for c in CHECKS:
    pid = c["id"]
    m["checks"].append({
        "property_id": pid,
        "quick_cmd": f"./check {pid} --tier quick",
        "thorough_cmd": f"./check {pid} --tier thorough",
        "evidence_file": f"/verif/evidence/{pid}.json",
        "replay_cmd_template": f"./check {pid} --replay {{path}}",
        "engine": c["engine"],
        "level_claimed": {"category": "other", "text": c["text"], "design_ref": c["design_ref"]},
        "level_note": c["note"],
        "technique": c["technique"],
    })
with open(os.path.join(HERE, "MANIFEST.json"), "w") as fh:
    json.dump(m, fh, indent=1)
print("MANIFEST.json written:", [c["property_id"] for c in m["checks"]])
