#!/bin/sh
# tools/confirm_seed.sh <seed-dir-with-patch.diff-and-demo.py> : confirm a seeded change in a fresh scratch worktree of /repo
# (applies cleanly, suite still passes, demo fails with the change and passes without), then removes the worktree.
set -u
seed=$(cd "$1" && pwd)
wt=$(mktemp -d /tmp/confirm_XXXXXX)
rmdir "$wt"
git -C /repo worktree add -q --detach "$wt" HEAD || exit 2
cleanup() { git -C /repo worktree remove --force "$wt" >/dev/null 2>&1; }
trap cleanup EXIT
sed "s#/tmp/wt_[A-Za-z0-9]*#$wt#g" "$seed/demo.py" > "$wt/_demo.py"
( cd "$wt" && /venv/bin/python _demo.py >/tmp/demo_clean.out 2>&1 ); clean=$?
git -C "$wt" apply "$seed/patch.diff" || { echo "PATCH DOES NOT APPLY"; exit 2; }
( cd "$wt" && /venv/bin/python _demo.py >/tmp/demo_mut.out 2>&1 ); mut=$?
tests=$( cd "$wt" && /venv/bin/python -m pytest -q -p no:cacheprovider -x 2>&1 | tail -1 )
echo "demo on clean tree: exit $clean; demo with change: exit $mut; tests: $tests"
tail -3 /tmp/demo_mut.out
