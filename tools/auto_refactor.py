#!/usr/bin/env python3
"""tools/auto_refactor.py [op ...] : metamorphic false-alarm test. Each operator rewrites EVERY eligible site of the package with a
semantics-preserving transformation (one scratch tree per operator, under /tmp, removed afterwards), confirms that the unedited
suite still passes on the rewritten tree, and runs every quick check against it: every check must exit 0.

Development tool (it runs the test suite); the thorough tier of the checks uses the same operators in memory, without the suite."""
import ast, copy, json, os, shutil, subprocess, sys, tempfile
from concurrent.futures import ProcessPoolExecutor

sys.path.insert(0, os.path.dirname(os.path.dirname(os.path.abspath(__file__))))
from geolint import metamorph  # noqa: E402

VERIF = os.path.dirname(os.path.dirname(os.path.abspath(__file__)))


def sh(cmd, cwd=None):
    p = subprocess.run(cmd, shell=True, cwd=cwd, capture_output=True, text=True)
    return p.returncode, p.stdout + p.stderr


def one(op: str) -> str:
    wt = tempfile.mkdtemp(prefix=f"ar_{op}_", dir="/tmp")
    try:
        sh(f"git -C /repo archive HEAD | tar -x -C {wt}")
        n = 0
        for dp, _dn, fns in os.walk(os.path.join(wt, "geometer")):
            for fn in fns:
                if fn.endswith(".py"):
                    path = os.path.join(dp, fn)
                    src = open(path, encoding="utf-8").read()
                    new, k = metamorph.transform(src, op)
                    n += k
                    if k:
                        open(path, "w", encoding="utf-8").write(new)
        rc, out = sh("/venv/bin/python -m pytest -q -p no:cacheprovider -x", cwd=wt)
        tests = out.strip().splitlines()[-1][:40] if out.strip() else "?"
        man = json.load(open(os.path.join(VERIF, "MANIFEST.json")))
        bad = []
        for c in man["checks"]:
            pid = c["property_id"]
            rc2, out2 = sh(f"./check {pid} --repo {wt} --no-evidence", cwd=VERIF)
            if rc2 != 0:
                lines = [l for l in out2.splitlines() if l.startswith("geometer/") or "ANALYSIS-ERROR" in l]
                bad.append(f"{pid}(exit {rc2}): " + " || ".join(l[:200] for l in lines[:3]))
        return f"{op}: {n} sites rewritten; tests: {tests}; alarms: {'; '.join(bad) if bad else 'none'}"
    finally:
        shutil.rmtree(wt, ignore_errors=True)


if __name__ == "__main__":
    ops = sys.argv[1:] or list(metamorph.OPERATORS)
    with ProcessPoolExecutor(max_workers=min(8, len(ops))) as ex:
        for line in ex.map(one, ops):
            print(line, flush=True)
