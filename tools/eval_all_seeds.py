#!/usr/bin/env python3
"""Re-evaluates every kept seed (seeded/*) in parallel with tools/seed_eval.py and regenerates the seed table of DESIGN.md."""
import json, os, subprocess, sys
from concurrent.futures import ThreadPoolExecutor

V = os.path.dirname(os.path.dirname(os.path.abspath(__file__)))
ids = sorted(os.listdir(os.path.join(V, "seeded")))


def run(sid):
    p = subprocess.run([sys.executable, os.path.join(V, "tools/seed_eval.py"), os.path.join(V, "seeded", sid), "--keep-as", sid, "--quiet"],
                       capture_output=True, text=True)
    return (p.stdout.strip().splitlines() or [p.stderr.strip()[-200:]])[-1]


if "--table-only" not in sys.argv:  # (--table-only: regenerate the table of DESIGN.md from the stored metas)
    with ThreadPoolExecutor(max_workers=10) as ex:
        for line in ex.map(run, ids):
            print(line)

rows, n_det = [], 0
for sid in ids:
    m = json.load(open(os.path.join(V, "seeded", sid, "meta.json")))
    det = m.get("detected_by", {})
    rules = []
    for pid, v in det.items():
        for r in v.get("report", [])[:1]:
            rules.append(f"{pid} {r.split('[')[1].split(']')[0]}" if "[" in r else pid)
    n_det += 1 if rules else 0
    rows.append(f"| `seeded/{sid}` | {m.get('property', '?')} | {m.get('summary', '').strip().replace('|', '/')[:200]} | {', '.join(rules) if rules else '**not detected**'} |")
table = (f"<!-- seed-table:begin -->\n**Current tally: {n_det} of {len(ids)} kept seeds are reported by the checks** (only a `VIOLATION` line with exit 1 counts; three more seeds are "
         "retired under `seeded_retired/`: R3_C19 and R5_C19 edited a function that the repair D22 replaced, R4_C14 weakened the guard that masked D27 and is harmless since that repair).\n\n"
         "| seed | breaks | change | caught by (current checks) |\n|---|---|---|---|\n" + "\n".join(rows) + "\n<!-- seed-table:end -->")
p = os.path.join(V, "DESIGN.md")
s = open(p).read()
if "<!-- seed-table:begin -->" in s:
    a, b = s.index("<!-- seed-table:begin -->"), s.index("<!-- seed-table:end -->") + len("<!-- seed-table:end -->")
    s = s[:a] + table + s[b:]
    open(p, "w").write(s)
print(f"{n_det}/{len(ids)} detected")
