#!/bin/sh
# tools/run_refactors.sh : apply each kept behaviour-preserving refactoring (refactors/<area>/patch.diff) to a fresh scratch worktree of
# /repo, confirm the suite still passes there, run every quick check against it (all must exit 0: no false alarm, no analysis error),
# and remove the worktree again. Eight refactorings are evaluated at a time.
cd /verif
props=$(python3 -c "import json;print(' '.join(c['property_id'] for c in json.load(open('MANIFEST.json'))['checks']))")
one() {
  id=$1
  wt=$(mktemp -d /tmp/rfeval_XXXXXX); rmdir $wt
  git -C /repo worktree add -q --detach $wt HEAD || { echo "$id: worktree failed"; return 2; }
  if git -C $wt apply /verif/refactors/$id/patch.diff 2>/dev/null; then
    tests=$(cd $wt && /venv/bin/python -m pytest -q -p no:cacheprovider 2>&1 | tail -1 | cut -c1-12)
    bad=""
    for p in $props; do
      ./check $p --repo $wt --no-evidence >/dev/null 2>&1 || bad="$bad $p"
    done
    echo "$id: tests: $tests; checks that raised an alarm:${bad:- none}"
  else
    echo "$id: patch no longer applies to HEAD (skipped)"
  fi
  git -C /repo worktree remove --force $wt
}
if [ -n "$1" ]; then one "$1"; exit 0; fi
out=$(ls refactors | xargs -P 8 -I{} sh tools/run_refactors.sh {})
echo "$out" | sort
echo "$out" | grep -q "alarm: C\|alarm:C\|failed" && exit 1
exit 0
