"""E1 boundary layer: which effects of which public operation are violations of C12 / the cache clause of C05."""

from __future__ import annotations

import ast

from geolint import av as A
from geolint.aliaseng import Engine
from geolint.av import DEF, SOME, UNK, CERT_NAME
from geolint.model import FunctionInfo, Program, norm_stmt, walk_no_nested
from geolint.report import INFO, PROVEN, UNDECIDED, VIOLATION, Run

_ENGINE_CACHE: dict[int, Engine] = {}


def get_engine(prog: Program) -> Engine:
    if getattr(prog, '_cache_e1', None) is None:
        e = Engine(prog)
        e.run()
        prog._cache_e1 = e
    return prog._cache_e1


BUILDER_CLASSES = {"TensorDiagram": {"__init__", "add_node", "add_edge"}}
MUTATION_DUNDERS = {"__setitem__", "__delitem__", "__iadd__", "__isub__", "__imul__", "__itruediv__", "__setattr__", "__delattr__"}
CTOR_NAMES = {"__init__", "__new__", "__post_init__", "__init_subclass__"}


def state_attrs(prog: Program, types) -> set[str]:
    """Attributes some __init__ of the class family assigns, or the class annotates."""
    out: set[str] = set()
    for t in types:
        c = prog.classes.get(t)
        if c is None:
            continue
        for k in prog.mro(c) + prog.subclasses(c, strict=True):
            out |= set(k.annotations)
            init = k.methods.get("__init__")
            if init is None or not init.params():
                continue
            selfn = init.params()[0].arg
            for st in ast.walk(init.node):
                tgts = st.targets if isinstance(st, ast.Assign) else ([st.target] if isinstance(st, (ast.AnnAssign, ast.AugAssign)) else [])
                for tg in tgts:
                    if isinstance(tg, ast.Attribute) and isinstance(tg.value, ast.Name) and tg.value.id == selfn:
                        out.add(tg.attr)
    return out


def sanctioned(prog: Program, fn: FunctionInfo, eff, root_param: str) -> str | None:
    """Reason when the effect on a parameter root is part of the operation's contract."""
    ps = fn.params()
    selfn = ps[0].arg if (fn.cls is not None and not fn.is_staticmethod and ps) else None
    if fn.name in CTOR_NAMES and root_param == selfn:
        return "construction of self"
    if fn.name in MUTATION_DUNDERS and root_param == selfn:
        return "explicit mutation API of the data model"
    if fn.cls is not None and fn.name in BUILDER_CLASSES.get(fn.cls.name, ()) and root_param == selfn:
        return "builder API of the diagram (calculate() is the query)"
    if root_param == "out" and eff.kind == "mem":
        return "numpy output-buffer contract of the `out` parameter"
    return None


def is_public_entry(fn: FunctionInfo) -> bool:
    if fn.parent is not None:
        return False
    if fn.cls is not None and fn.cls.name.startswith("_"):
        return False
    return fn.is_public


def rule_purity(run: Run, prog: Program, focus_cache_only: bool = False, only_entries: set | None = None, shared_only: bool = False) -> int:
    run.rule("E1.mem", "no public operation writes in place into ndarray memory that belongs to an argument (self included), a cached "
                       "attribute of an argument, a module constant / default-argument object, or a process-wide cache")
    run.rule("E1.attr", "no public operation rebinds a state attribute (array, index sets, is_dual, pdim, _line, _plane, ...) of an argument; "
                        "a new private memo attribute is information only")
    run.rule("E1.cont", "no public operation mutates a container that belongs to an argument, a module constant or a class-level cache "
                        "(sanctioned: the cache fill of the owning constructor, the diagram builder API, **kwargs of the current call)")
    run.rule("E1.global", "no function assigns to a global/nonlocal name or stores to a class attribute (hidden mutable state)")
    eng = get_engine(prog)
    run.stats["e1_rounds"] = eng.rounds
    run.stats["e1_summaries"] = len(eng.summaries)
    run.stats["e1_write_constructs"] = len(eng.sites)
    # group boundary effects by origin statement
    bad: dict[tuple, dict] = {}
    for (q, ctx), s in eng.summaries.items():
        fn = prog.functions[q]
        for eff, info in s.effects.items():
            root, sels = A.split_path(eff.path)
            verdict = None
            why = ""
            if root.startswith("P:"):
                if not is_public_entry(fn):
                    continue
                reason = sanctioned(prog, fn, eff, root[2:])
                if reason:
                    continue
                if eff.kind == "attr":
                    types = set()
                    an_env = eng.initial_params(fn).get(root[2:])
                    if an_env is not None:
                        types = set(an_env.types)
                    st_attrs = state_attrs(prog, types)
                    if not sels and eff.attr not in st_attrs and eff.attr != "*" and types:
                        verdict, why = INFO, f"stores a new private attribute `{eff.attr}` on `{root[2:]}` (memo; changes no later answer)"
                    elif not types and eff.attr != "*":
                        verdict, why = UNDECIDED, f"attribute `{eff.attr}` stored on `{root[2:]}` of unknown class"
                if verdict is None:
                    verdict = VIOLATION if info.cert >= SOME else UNDECIDED
            elif root.startswith(("G:", "C:")):
                verdict = VIOLATION if info.cert >= SOME else UNDECIDED
            else:
                continue
            rule = {"mem": "E1.mem", "attr": "E1.attr", "cont": "E1.cont", "global": "E1.global"}[eff.kind]
            if focus_cache_only and not eff.path.startswith("C:"):
                continue
            if shared_only and not root.startswith(("G:", "C:")):
                continue
            if only_entries is not None and fn.short not in only_entries:
                continue
            key = (rule, info.origin[3], info.origin[2], verdict)
            rec = bad.setdefault(key, {"entries": {}, "info": info, "eff": eff, "why": why})
            rec["entries"].setdefault(fn.short, (eff, info))
    order = {VIOLATION: 3, UNDECIDED: 2, INFO: 1}
    flagged_sites: dict[tuple, str] = {}
    for (rule, ofn, ostmt, verdict), rec in sorted(bad.items(), key=lambda kv: (-order[kv[0][3]], kv[0][:3])):
        info, eff = rec["info"], rec["eff"]
        entries = sorted(rec["entries"])
        e0, i0 = rec["entries"][entries[0]]
        chain = " -> ".join(f"{c[0]} ({c[1]}:{c[2]})" for c in i0.chain) or "(direct)"
        what = describe_target(e0.path, e0.kind, e0.attr)
        if verdict == INFO:
            msg = rec["why"]
        else:
            msg = (f"`{ostmt[:90]}` in {ofn} {'writes in place into' if e0.kind == 'mem' else ('rebinds' if e0.kind == 'attr' else 'mutates')} "
                   f"{what} [{CERT_NAME[i0.cert]}]{' - ' + info.note if info.note else ''}; reached from the public operation(s) "
                   f"{', '.join(entries[:6])}{' ...' if len(entries) > 6 else ''}; call chain from {entries[0]}: {chain}")
        run.add(rule, ofn, ostmt, verdict, msg, f"{info.origin[0]}:{info.origin[1]}",
                {"public_entries": entries, "target": e0.path, "certainty": CERT_NAME[i0.cert], "chain": [list(c) for c in i0.chain]})
        prev = flagged_sites.get((ofn, ostmt))
        if prev is None or order[verdict] > order[prev]:
            flagged_sites[(ofn, ostmt)] = verdict
    # every other write construct is a discharged obligation
    n = 0
    reach: set[str] = set()
    if only_entries is not None:
        from geolint.checks import get_cg

        cg = get_cg(prog)
        for f in prog.package_functions():
            if f.short in only_entries:
                for q in cg.reachable(f):
                    if q in prog.functions:
                        reach.add(prog.functions[q].short)
    for (fshort, stmt), rec in sorted(eng.sites.items()):
        n += 1
        if (fshort, stmt) in flagged_sites:
            continue
        if focus_cache_only:
            continue
        if only_entries is not None and fshort not in reach:
            continue
        kinds = "/".join(sorted(rec["kinds"]))
        tgt = "fresh local data" if not rec["paths"] else "protected roots only through sanctioned operations or private helpers whose public callers pass fresh data"
        run.add("E1." + sorted(rec["kinds"])[0], fshort, stmt, PROVEN, f"{kinds} write targets {tgt}", rec["loc"])
    for u in {(x[0], x[1], x[2], x[3], x[4]) for s in eng.summaries.values() for x in s.undecided}:
        run.add("E1.mem", u[4], u[2], UNDECIDED, u[3], f"{u[0]}:{u[1]}")
    return n


def describe_target(path: str, kind: str, attr: str) -> str:
    root, sels = A.split_path(path)
    sel = "".join("." + s if s != "[]" else "[...]" for s in sels)
    if root.startswith("P:"):
        base = f"argument `{root[2:]}`{sel}"
    elif root.startswith("G:") and "#" in root:
        f, p = root[2:].split("#")
        base = f"the shared default-argument object `{p}` of {f.replace('geometer.', '')}{sel}"
    elif root.startswith("G:") and root.endswith("@memo"):
        base = f"the object that the memoised function {root[2:-5].replace('geometer.', '')} (lru_cache/cache) returns to every caller{sel}"
    elif root.startswith("G:"):
        base = f"the module constant `{root[2:].replace('geometer.', '')}`{sel}"
    else:
        base = f"the process-wide cache `{root[2:].replace('geometer.', '')}{sel}`"
    if kind == "mem":
        return f"the array memory of {base}"
    if kind == "attr":
        return f"attribute `{attr}` of {base}"
    return base


# ------------------------------------------------------------------------------------------------ caches (C05 ii)
def rule_caches(run: Run, prog: Program) -> int:
    run.rule("E1.cache", "class-level caches are filled only by the owning constructor with a fresh array that depends on the cache key alone; "
                         "no array handed out from a cache is ever written")
    eng = get_engine(prog)
    n = 0
    for (fshort, stmt), rec in sorted(eng.cache_fills.items()):
        n += 1
        fn: FunctionInfo = rec["fn"]
        st = rec["stmt"]
        tgt = st.targets[0] if isinstance(st, ast.Assign) else None
        if not (isinstance(tgt, ast.Subscript) and isinstance(st.value, ast.Name)):
            run.add("E1.cache", fshort, stmt, UNDECIDED, "cache fill is not of the form cache[key] = name", rec["loc"])
            continue
        params = set(fn.param_names())
        key_params = {x.id for x in ast.walk(tgt.slice) if isinstance(x, ast.Name)} & params
        # transitive def-use of the stored name (flow-insensitive)
        deps: set[str] = set()
        todo = [st.value.id]
        assigns: dict[str, list[ast.AST]] = {}
        for s2 in walk_no_nested(fn.node):
            if isinstance(s2, ast.Assign):
                for t in s2.targets:
                    for nm in ast.walk(t):
                        if isinstance(nm, ast.Name) and isinstance(nm.ctx, ast.Store):
                            assigns.setdefault(nm.id, []).append(s2.value)
            elif isinstance(s2, ast.AugAssign) and isinstance(s2.target, ast.Name):
                assigns.setdefault(s2.target.id, []).append(s2.value)
            elif isinstance(s2, ast.AugAssign) and isinstance(s2.target, ast.Subscript) and isinstance(s2.target.value, ast.Name):
                assigns.setdefault(s2.target.value.id, []).append(s2.value)
            elif isinstance(s2, ast.Assign) and False:
                pass
        for s2 in walk_no_nested(fn.node):  # item stores into the array also feed it
            if isinstance(s2, ast.Assign):
                for t in s2.targets:
                    if isinstance(t, ast.Subscript) and isinstance(t.value, ast.Name):
                        assigns.setdefault(t.value.id, []).extend([s2.value, t.slice])
        seen = set()
        while todo:
            nm = todo.pop()
            if nm in seen:
                continue
            seen.add(nm)
            if nm in params:
                deps.add(nm)
            for v in assigns.get(nm, []):
                for x in ast.walk(v):
                    if isinstance(x, ast.Name):
                        todo.append(x.id)
        selfn = fn.params()[0].arg if fn.params() else "self"
        deps.discard(selfn)
        extra = deps - key_params
        if extra:
            run.add("E1.cache", fshort, stmt, VIOLATION,
                    f"the array stored in {rec['cache'].replace('C:geometer.', '')} depends on parameter(s) {sorted(extra)} that are not part of the "
                    f"cache key ({sorted(key_params)}): later constructions with another value get the first caller's array", rec["loc"])
        else:
            run.add("E1.cache", fshort, stmt, PROVEN, f"stored array depends on {sorted(deps)} = subset of key parameters {sorted(key_params)}; value is fresh at the store",
                    rec["loc"])
    # sibling consistency of the keys used for one cache inside one function (lookup, membership test, store)
    for fn in {rec["fn"].qualname: rec["fn"] for rec in eng.cache_fills.values()}.values():
        keys: dict[str, list[tuple[str, ast.AST, ast.AST]]] = {}
        for node in walk_no_nested(fn.node):
            if isinstance(node, ast.Subscript) and isinstance(node.value, ast.Attribute) and node.value.attr.startswith("_cache"):
                keys.setdefault(node.value.attr, []).append(("subscript", node.slice, node))
            if isinstance(node, ast.Compare) and len(node.ops) == 1 and isinstance(node.ops[0], (ast.In, ast.NotIn)) \
                    and isinstance(node.comparators[0], ast.Attribute) and node.comparators[0].attr.startswith("_cache"):
                keys.setdefault(node.comparators[0].attr, []).append(("membership", node.left, node))
        for attr, lst in keys.items():
            forms = {}
            for how, k, node in lst:
                forms.setdefault(ast.dump(k), (k, node))
            n += 1
            label = f"keys of {attr}"
            if len(forms) <= 1:
                run.add("E1.cache", fn.short, label, PROVEN, f"{len(lst)} uses of {attr} agree on the key `{ast.unparse(lst[0][1])}`", fn.loc)
                continue
            ks = [k for k, _n in forms.values()]
            names = [sorted(x.id for x in ast.walk(k) if isinstance(x, ast.Name)) for k in ks]
            if all(isinstance(k, ast.Tuple) for k in ks) and all(nm == names[0] for nm in names):
                texts = " vs ".join(f"`{ast.unparse(k)}`" for k in ks)
                node = list(forms.values())[-1][1]
                run.add("E1.cache", fn.short, label, VIOLATION,
                        f"{attr} is looked up and filled under differently ordered keys ({texts}): an entry stored for one parameter combination is "
                        f"served for the swapped one - the array returned depends on which tensors were built earlier in the process",
                        f"{fn.module.rel}:{node.lineno}")
            else:
                run.add("E1.cache", fn.short, label, UNDECIDED, "several key expressions for one cache", fn.loc)
    return n
