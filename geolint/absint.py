"""A small abstract interpreter for straight Python over *index kinds* (engine E13).

`Tensor._get_index_mapping` and the helpers of geometer/utils/indexing.py look at an index only through its structure: is the
element an integer, a slice, None, Ellipsis, an array (of how many dimensions, boolean or integer)? Their control flow never
depends on the numbers inside an array. The interpreter below evaluates the function bodies (AST, nothing is imported or
executed) with ordinary Python values for everything that is structure - tuples, lists, ints, None, Ellipsis, slices - and an
abstract value `Arr(ndim, kind)` for arrays. numpy is a small table of transfer functions on `Arr`.

Anything outside the vocabulary raises `Unsupported`, which makes the rule UNDECIDED (never a violation). An exception the
interpreted code would raise itself is returned as `Raised(name)`.
"""

from __future__ import annotations

import ast
from dataclasses import dataclass

from geolint.model import FunctionInfo, Program


class Unsupported(Exception):
    pass


class Raised(Exception):
    def __init__(self, name: str):
        super().__init__(name)
        self.name = name


class _Return(Exception):
    def __init__(self, value):
        self.value = value


class _Break(Exception):
    pass


class _Continue(Exception):
    pass


@dataclass(frozen=True)
class DType:
    kind: str  # 'i' integer, 'b' boolean, 'f' floating

    def __eq__(self, other):  # dtype == bool
        if other is bool:
            return self.kind == "b"
        if other is int:
            return self.kind == "i"
        if isinstance(other, DType):
            return self.kind == other.kind
        return False

    def __hash__(self):
        return hash(self.kind)


_SIZE_MODE = {"large": False}


@dataclass(frozen=True)
class Arr:
    ndim: int
    kind: str = "i"
    prov: tuple | None = None  # optional provenance: one label per axis (which axis of which operand it is), carried through the transfer functions

    @property
    def dtype(self) -> DType:
        return DType(self.kind)

    @property
    def shape(self) -> tuple:
        return (3,) * self.ndim

    @property
    def size(self) -> int:
        # the number of entries is not part of the abstraction: rules that meet size-gated code interpret it once for small and once for LARGE arrays
        return 10 ** 12 if _SIZE_MODE["large"] else 3 ** self.ndim

    @property
    def nbytes(self) -> int:
        return 8 * self.size

    def labels(self) -> tuple:
        return self.prov if self.prov is not None else (None,) * self.ndim

    def transpose(self, *axes):
        if len(axes) == 1 and isinstance(axes[0], (list, tuple, range)):
            axes = tuple(axes[0])
        if not axes:
            axes = tuple(reversed(range(self.ndim)))
        axes = [int(a) % self.ndim for a in axes]
        if sorted(axes) != list(range(self.ndim)):
            raise Raised("ValueError")
        lab = self.labels()
        return Arr(self.ndim, self.kind, tuple(lab[a] for a in axes))

    def copy(self):
        return self

    @property
    def T(self):
        return self.transpose()


class Scalar:
    """a numpy scalar (what indexing away every axis returns)"""


@dataclass(frozen=True)
class Broadcast:
    ndim: int


class Obj:
    """an object with known attributes (the receiver `self` of the analysed method)"""

    def __init__(self, **attrs):
        self.__dict__.update(attrs)


class Capture:
    """a recorded call (np.einsum(...), Tensor(...)) with the attributes the interpreted code reads from its result"""

    def __init__(self, what: str, args: tuple, kwargs: dict, **attrs):
        self.what, self.args, self.kwargs = what, args, kwargs
        self.__dict__.update(attrs)


class EnumMember:
    _cache: dict = {}

    def __new__(cls, owner, name, value=None):
        key = (owner.qualname, name)
        if key not in cls._cache:
            obj = super().__new__(cls)
            obj.owner, obj.name, obj.value = owner, name, value
            cls._cache[key] = obj
        return cls._cache[key]

    def __repr__(self):
        return f"<{self.owner.name}.{self.name}>"


class Sym:
    """a named symbol: type objects and module members that only appear in isinstance / issubdtype tests"""

    def __init__(self, name: str):
        self.name = name

    def __repr__(self):
        return f"<{self.name}>"


NUMBER, INTEGRAL, NDARRAY, NP_INTEGER, NP_FLOATING, NP_BOOL = (Sym(x) for x in ("Number", "Integral", "np.ndarray", "np.integer", "np.floating", "np.bool_"))


def _depth(x) -> int:
    d = 0
    while isinstance(x, (list, tuple)) and x:
        d += 1
        x = x[0]
    return d


def as_array(x) -> Arr:
    if isinstance(x, Arr):
        return x
    if isinstance(x, Scalar):
        return Arr(0, "f")
    if isinstance(x, bool):
        return Arr(0, "b")
    if isinstance(x, int):
        return Arr(0, "i")
    if isinstance(x, (list, tuple)):
        if x and all(isinstance(e, Arr) for e in x):
            return Arr(1 + max(e.ndim for e in x), "b" if all(e.kind == "b" for e in x) else "i")
        leaf = x
        while isinstance(leaf, (list, tuple)) and leaf:
            leaf = leaf[0]
        return Arr(_depth(x), "b" if isinstance(leaf, bool) else "i")
    if x is None or isinstance(x, slice) or x is Ellipsis:
        return Arr(0, "O")  # numpy wraps any other object into a 0-d object array
    raise Unsupported(f"np.asarray of {type(x).__name__}")


def index_array(a: Arr, key):
    """a[key] for an abstract array: numpy's indexing rules at the level of kinds (geolint/indexspec.py)"""
    from geolint import indexspec

    els = key if isinstance(key, tuple) else (key,)
    kinds = []
    for el in els:
        if el is None:
            kinds.append("none")
        elif el is Ellipsis:
            kinds.append("ellipsis")
        elif isinstance(el, slice):
            kinds.append("slice")
        elif isinstance(el, bool):
            raise Unsupported("boolean scalar index")
        elif isinstance(el, int):
            kinds.append("int")
        else:
            arr = as_array(el)
            kinds.append(("barr" if arr.kind == "b" else "iarr", max(arr.ndim, 1)) if arr.ndim else "int")
    res = indexspec.result_axes(tuple(kinds), a.ndim)
    if res == "invalid":
        raise Raised("IndexError")
    if not res:
        return Scalar()
    lab = a.labels()
    return Arr(len(res), a.kind, tuple("new" if r is None else lab[r] for r in res))


class NP:
    """transfer functions of the numpy members the analysed code uses"""

    ndarray = NDARRAY
    integer = NP_INTEGER
    floating = NP_FLOATING
    bool_ = NP_BOOL
    intp = NP_INTEGER
    newaxis = None

    @staticmethod
    def asanyarray(x, *a, **k):
        return as_array(x)

    asarray = array = asanyarray

    @staticmethod
    def nonzero(x):
        x = as_array(x)
        return tuple(Arr(1, "i") for _ in range(max(x.ndim, 1)))

    @staticmethod
    def flatnonzero(x):
        return Arr(1, "i")

    @staticmethod
    def issubdtype(dt, base):
        if not isinstance(dt, DType):
            raise Unsupported("issubdtype of a non-dtype")
        if isinstance(base, Sym) and base.name == "np.number":
            return dt.kind in "if"
        return {NP_INTEGER: dt.kind == "i", NP_FLOATING: dt.kind == "f", NP_BOOL: dt.kind == "b"}.get(base, False)

    @staticmethod
    def broadcast(*xs):
        return Broadcast(max([as_array(x).ndim for x in xs] or [0]))

    @staticmethod
    def ndim(x):
        return as_array(x).ndim

    @staticmethod
    def where(c, a, b):
        return Arr(max(as_array(c).ndim, as_array(a).ndim, as_array(b).ndim), as_array(a).kind)

    @staticmethod
    def isscalar(x):
        return isinstance(x, (int, float, Scalar)) and not isinstance(x, bool)

    number = Sym("np.number")
    generic = Sym("np.generic")

    @staticmethod
    def dtype(x):
        return x

    @staticmethod
    def transpose(x, axes=None):
        x = as_array(x)
        return x.transpose(*([axes] if axes is not None else []))

    @staticmethod
    def tensordot(a, b, axes=2):
        a, b = as_array(a), as_array(b)
        if axes != 0:
            raise Unsupported("tensordot with contracted axes")
        return Arr(a.ndim + b.ndim, a.kind, a.labels() + b.labels())

    @staticmethod
    def expand_dims(x, axis):
        x = as_array(x)
        if isinstance(axis, (list, tuple)):
            raise Unsupported("expand_dims with several axes")
        axis = axis % (x.ndim + 1)
        lab = list(x.labels())
        lab.insert(axis, "new")
        return Arr(x.ndim + 1, x.kind, tuple(lab))

    @staticmethod
    def swapaxes(x, a, b):
        x = as_array(x)
        perm = list(range(x.ndim))
        perm[a], perm[b] = perm[b], perm[a]
        return x.transpose(perm)


class _Itertools:
    import itertools as _it

    accumulate = staticmethod(lambda it, *a, **k: list(_Itertools._it.accumulate(it, *a, **k)))
    chain = staticmethod(lambda *its: [x for it in its for x in it])
    product = staticmethod(lambda *its, **k: list(_Itertools._it.product(*its, **k)))
    repeat = staticmethod(lambda x, n: [x] * n)


class _Math:
    @staticmethod
    def isnan(x):
        return False


def _isinstance(v, t) -> bool:
    if isinstance(t, tuple):
        return any(_isinstance(v, x) for x in t)
    if t is NUMBER or t is INTEGRAL:
        return isinstance(v, int) and not isinstance(v, bool) or isinstance(v, float) and t is NUMBER
    if t is NDARRAY:
        return isinstance(v, Arr)
    if isinstance(t, Sym) and t.name in ("np.generic", "np.number"):
        return isinstance(v, Scalar)
    if t is NP_BOOL:
        return False
    if t is NP_INTEGER:
        return False
    if isinstance(t, type):
        if t is int:
            return isinstance(v, int) and not isinstance(v, bool)
        return isinstance(v, t)
    raise Unsupported(f"isinstance against {t!r}")


BUILTINS = {
    "len": len, "range": range, "enumerate": enumerate, "list": list, "tuple": tuple, "sum": sum, "int": int, "slice": slice, "zip": zip,
    "min": min, "max": max, "any": any, "all": all, "sorted": sorted, "reversed": reversed, "abs": abs, "bool": bool, "set": set, "dict": dict,
    "isinstance": _isinstance, "hasattr": lambda o, a: hasattr(o, a) if isinstance(o, (Arr, Obj, slice)) else False,
    "Ellipsis": Ellipsis, "None": None, "True": True, "False": False, "NotImplemented": NotImplemented,
    "tuple_type": tuple, "int_type": int, "slice_type": slice, "list_type": list,
}
TYPE_NAMES = {"tuple": tuple, "int": int, "slice": slice, "list": list, "bool": bool, "float": float, "str": str}


class Interp:
    def __init__(self, prog: Program, max_steps: int = 20000, max_depth: int = 6, constructors: dict | None = None, np_extra: dict | None = None):
        self.prog = prog
        self.constructors = constructors or {}  # class qualname -> callable(args, kwargs) that stands for the constructor
        self.np_extra = np_extra or {}  # numpy member name -> callable
        self._nt_types: dict = {}
        self._globals: dict = {}
        self.function_overrides: dict = {}  # function qualname -> callable(args, kwargs) that stands for the function
        self.steps = 0
        self.max_steps = max_steps
        self.max_depth = max_depth

    BUILTIN_EXC = {"Exception": None, "BaseException": None, "ValueError": "Exception", "TypeError": "Exception", "IndexError": "LookupError", "KeyError": "LookupError",
                   "LookupError": "Exception", "AttributeError": "Exception", "NotImplementedError": "RuntimeError", "RuntimeError": "Exception",
                   "ArithmeticError": "Exception", "ZeroDivisionError": "ArithmeticError", "AssertionError": "Exception", "LinAlgError": "ValueError"}

    def exc_ancestors(self, name: str) -> set[str]:
        out, todo = set(), [name]
        while todo:
            n = todo.pop()
            if n in out or n is None:
                continue
            out.add(n)
            c = self.prog.find_cls(n)
            if c is not None:
                todo += [self.prog.classes[b].name for b in c.bases if b in self.prog.classes] + [b.split(".")[-1] for b in c.external_bases]
            elif n in self.BUILTIN_EXC:
                todo.append(self.BUILTIN_EXC[n])
        return out

    def handler_matches(self, h: ast.ExceptHandler, raised: str, env, fn, depth) -> bool:
        if h.type is None:
            return True
        types = h.type.elts if isinstance(h.type, ast.Tuple) else [h.type]
        names = {t.id if isinstance(t, ast.Name) else getattr(t, "attr", "") for t in types}
        return bool(names & self.exc_ancestors(raised))

    # ------------------------------------------------------------------ classes of the analysed package
    def is_dataclass(self, c) -> bool:
        for d in c.node.decorator_list:
            nm = d.func if isinstance(d, ast.Call) else d
            if (isinstance(nm, ast.Name) and nm.id == "dataclass") or (isinstance(nm, ast.Attribute) and nm.attr == "dataclass"):
                return True
        return False

    def fields_of(self, c):
        out = []
        for k in reversed(self.prog.mro(c)):
            for name, ann in k.annotations.items():
                if "ClassVar" in ast.unparse(ann):
                    continue
                if name not in [n for n, _ in out]:
                    out.append((name, k))
        return out

    def make_record(self, c, args, kwargs, fn, depth):
        fields = self.fields_of(c)
        vals = {}
        if len(args) > len(fields):
            raise Raised("TypeError")
        for (name, _k), v in zip(fields, args):
            vals[name] = v
        for name, v in kwargs.items():
            if name in vals or name not in [n for n, _ in fields]:
                raise Raised("TypeError")
            vals[name] = v
        for name, k in fields:
            if name in vals:
                continue
            if name not in k.attrs:
                raise Raised("TypeError")
            d = k.attrs[name]
            if isinstance(d, ast.Call) and getattr(d.func, "id", getattr(d.func, "attr", "")) == "field":
                fac = next((kw.value for kw in d.keywords if kw.arg == "default_factory"), None)
                dv = next((kw.value for kw in d.keywords if kw.arg == "default"), None)
                if fac is not None:
                    vals[name] = self.apply(self.expr(fac, {}, self.module_fn(k), depth), [], depth)
                elif dv is not None:
                    vals[name] = self.expr(dv, {}, self.module_fn(k), depth)
                else:
                    raise Raised("TypeError")
            else:
                vals[name] = self.expr(d, {}, self.module_fn(k), depth)
        if "NamedTuple" in c.external_bases:
            import collections

            T = self._nt_types.get(c.qualname)
            if T is None:
                T = collections.namedtuple(c.name.lstrip("_") or "Record", [n for n, _ in fields], rename=True)
                T.__geolint_cls__ = c
                self._nt_types[c.qualname] = T
            return T(*[vals[n] for n, _ in fields])
        return Obj(__cls__=c, **vals)

    def module_fn(self, c):
        """a function context whose names resolve in the module of class c"""
        for f in self.prog.package_functions():
            if f.module is c.module:
                return f
        raise Unsupported("module without functions")

    def class_attr(self, c, attr: str, fn, depth):
        m = self.prog.lookup(c, attr)
        if m is not None:
            if m.is_classmethod:
                return ("boundmethod", m, c)
            return m  # plain function / staticmethod reached through the class
        hit = self.prog.class_attr(c, attr)
        if hit is not None:
            owner, val = hit
            if any(b == "Enum" or b.endswith("Enum") for b in owner.external_bases):
                return EnumMember(owner, attr, val.value if isinstance(val, ast.Constant) else None)
            return self.expr(val, {}, self.module_fn(owner), depth)
        raise Unsupported(f"class attribute {c.name}.{attr}")

    def isinstance_(self, v, t) -> bool:
        from geolint.model import ClassInfo as _CI

        if isinstance(t, tuple):
            return any(self.isinstance_(v, x) for x in t)
        if isinstance(t, _CI):
            cls = v.__dict__.get("__cls__") if isinstance(v, Obj) else None
            return cls is not None and self.prog.is_subclass(cls, t)
        return _isinstance(v, t)

    # ------------------------------------------------------------------ calls
    def call(self, fn: FunctionInfo, args: list, kwargs: dict | None = None, depth: int = 0):
        if fn.qualname in self.function_overrides:
            return self.function_overrides[fn.qualname](args, kwargs or {})
        if depth > self.max_depth:
            raise Unsupported("call depth")
        a = fn.node.args
        names = [p.arg for p in a.posonlyargs + a.args]
        env: dict = {}
        kwargs = dict(kwargs or {})
        for p_, d_ in zip(a.kwonlyargs, a.kw_defaults):
            if p_.arg in kwargs:
                env[p_.arg] = kwargs.pop(p_.arg)
            elif d_ is not None:
                env[p_.arg] = self.expr(d_, {}, fn, depth)
            else:
                raise Unsupported(f"missing keyword argument {p_.arg} of {fn.name}")
        if a.vararg is not None:
            env[a.vararg.arg] = tuple(args[len(names):])
            args = args[:len(names)]
        kwargs = dict(kwargs or {})
        defaults = dict(zip(names[len(names) - len(a.defaults):], a.defaults))
        for i, nm in enumerate(names):
            if i < len(args):
                env[nm] = args[i]
            elif nm in kwargs:
                env[nm] = kwargs.pop(nm)
            elif nm in defaults:
                env[nm] = self.expr(defaults[nm], {}, fn, depth)
            else:
                raise Unsupported(f"missing argument {nm} of {fn.name}")
        if a.kwarg is not None:
            env[a.kwarg.arg] = dict(kwargs)
            kwargs = {}
        if len(args) > len(names) or kwargs:
            raise Unsupported(f"arguments of {fn.name}")
        try:
            self.block(fn.node.body, env, fn, depth)
        except _Return as r:
            return r.value
        return None

    # ------------------------------------------------------------------ statements
    def block(self, stmts, env, fn, depth):
        for st in stmts:
            self.stmt(st, env, fn, depth)

    def assign(self, target, value, env, fn, depth):
        if isinstance(target, ast.Name):
            env[target.id] = value
        elif isinstance(target, (ast.Tuple, ast.List)):
            vals = list(value)
            star = [i for i, t in enumerate(target.elts) if isinstance(t, ast.Starred)]
            if star:
                k = star[0]
                after = len(target.elts) - k - 1
                parts = vals[:k] + [vals[k:len(vals) - after]] + vals[len(vals) - after:]
                for t, v in zip(target.elts, parts):
                    self.assign(t.value if isinstance(t, ast.Starred) else t, v, env, fn, depth)
            else:
                if len(vals) != len(target.elts):
                    raise Raised("ValueError")
                for t, v in zip(target.elts, vals):
                    self.assign(t, v, env, fn, depth)
        elif isinstance(target, ast.Subscript):
            obj = self.expr(target.value, env, fn, depth)
            key = self.expr(target.slice, env, fn, depth)
            if isinstance(obj, (list, dict)):
                obj[key] = value
            else:
                raise Unsupported("item assignment")
        elif isinstance(target, ast.Attribute):
            obj = self.expr(target.value, env, fn, depth)
            if isinstance(obj, Obj):
                obj.__dict__[target.attr] = value
            else:
                raise Unsupported("attribute assignment on a non-object")
        else:
            raise Unsupported(f"assignment target {type(target).__name__}")

    def stmt(self, st, env, fn, depth):
        self.steps += 1
        if self.steps > self.max_steps:
            raise Unsupported("step limit")
        if isinstance(st, ast.Expr):
            if isinstance(st.value, ast.Constant):
                return
            self.expr(st.value, env, fn, depth)
        elif isinstance(st, ast.Assign):
            v = self.expr(st.value, env, fn, depth)
            for t in st.targets:
                self.assign(t, v, env, fn, depth)
        elif isinstance(st, ast.AnnAssign):
            if st.value is not None:
                self.assign(st.target, self.expr(st.value, env, fn, depth), env, fn, depth)
        elif isinstance(st, ast.AugAssign):
            cur = self.expr(st.target, env, fn, depth)
            v = self.binop(st.op, cur, self.expr(st.value, env, fn, depth))
            self.assign(st.target, v, env, fn, depth)
        elif isinstance(st, ast.If):
            self.block(st.body if self.truth(self.expr(st.test, env, fn, depth)) else st.orelse, env, fn, depth)
        elif isinstance(st, ast.For):
            it = self.expr(st.iter, env, fn, depth)
            if isinstance(it, (Arr, Obj)):
                raise Unsupported("loop over an array")
            broke = False
            for v in list(it):
                self.assign(st.target, v, env, fn, depth)
                try:
                    self.block(st.body, env, fn, depth)
                except _Continue:
                    continue
                except _Break:
                    broke = True
                    break
            if not broke:
                self.block(st.orelse, env, fn, depth)
        elif isinstance(st, ast.While):
            n = 0
            while self.truth(self.expr(st.test, env, fn, depth)):
                n += 1
                if n > 200:
                    raise Unsupported("while loop")
                try:
                    self.block(st.body, env, fn, depth)
                except _Continue:
                    continue
                except _Break:
                    break
        elif isinstance(st, ast.Return):
            raise _Return(self.expr(st.value, env, fn, depth) if st.value is not None else None)
        elif isinstance(st, ast.Raise):
            name = "Exception"
            e = st.exc
            if isinstance(e, ast.Call):
                e = e.func
            if isinstance(e, ast.Name):
                name = e.id
            elif isinstance(e, ast.Attribute):
                name = e.attr
            raise Raised(name)
        elif isinstance(st, ast.Continue):
            raise _Continue()
        elif isinstance(st, ast.Break):
            raise _Break()
        elif isinstance(st, ast.Try):
            try:
                try:
                    self.block(st.body, env, fn, depth)
                except Raised as r:
                    for h in st.handlers:
                        if self.handler_matches(h, r.name, env, fn, depth):
                            if h.name:
                                env[h.name] = Obj(__cls__=self.prog.find_cls(r.name))
                            self.block(h.body, env, fn, depth)
                            break
                    else:
                        raise
                else:
                    self.block(st.orelse, env, fn, depth)
            finally:
                if st.finalbody:
                    self.block(st.finalbody, env, fn, depth)
        elif isinstance(st, ast.With):
            raise Unsupported("with statement")
        elif isinstance(st, ast.Delete):
            for t in st.targets:
                if isinstance(t, ast.Subscript):
                    obj = self.expr(t.value, env, fn, depth)
                    key = self.expr(t.slice, env, fn, depth)
                    if isinstance(obj, (list, dict)):
                        try:
                            del obj[key]
                        except (IndexError, KeyError):
                            raise Raised("IndexError")
                    else:
                        raise Unsupported("del on a non-container")
                elif isinstance(t, ast.Name):
                    env.pop(t.id, None)
                else:
                    raise Unsupported("del target")
        elif isinstance(st, ast.Pass):
            return
        elif isinstance(st, ast.Assert):
            if not self.truth(self.expr(st.test, env, fn, depth)):
                raise Raised("AssertionError")
        elif isinstance(st, (ast.Import, ast.ImportFrom)):
            return
        else:
            raise Unsupported(f"statement {type(st).__name__}")

    # ------------------------------------------------------------------ expressions
    def truth(self, v) -> bool:
        if isinstance(v, Arr):
            raise Unsupported("truth value of an array")
        return bool(v)

    DUNDER = {ast.Add: "add", ast.Sub: "sub", ast.Mult: "mul", ast.Div: "truediv", ast.MatMult: "matmul", ast.Pow: "pow", ast.FloorDiv: "floordiv", ast.Mod: "mod"}

    def binop(self, op, a, b, depth: int = 0):
        if isinstance(a, Obj) or isinstance(b, Obj):
            name = self.DUNDER.get(type(op))
            if name is None:
                raise Unsupported("operator on an abstract object")
            for recv, other, dn in ((a, b, f"__{name}__"), (b, a, f"__r{name}__")):
                if isinstance(recv, Obj) and recv.__dict__.get("__cls__") is not None:
                    m = self.prog.lookup(recv.__dict__["__cls__"], dn)
                    if m is not None:
                        r = self.call(m, [recv, other], depth=depth + 1)
                        if r is not NotImplemented:
                            return r
            raise Raised("TypeError")
        if isinstance(a, Capture) or isinstance(b, Capture):
            raise Unsupported("operator on an abstract object")
        if isinstance(a, (Arr, Scalar)) or isinstance(b, (Arr, Scalar)):
            if isinstance(op, (ast.Add, ast.Sub, ast.Mult, ast.Div, ast.Pow, ast.FloorDiv, ast.Mod)):
                if isinstance(a, (list, tuple)) or isinstance(b, (list, tuple)):
                    pass  # numpy converts nested sequences
                x, y = as_array(a), as_array(b)
                nd = max(x.ndim, y.ndim)
                # broadcasting aligns the axes from the right; an axis keeps the label of the operand that has one there
                lab = []
                for i in range(nd):
                    lx = x.labels()[i - (nd - x.ndim)] if i >= nd - x.ndim else None
                    ly = y.labels()[i - (nd - y.ndim)] if i >= nd - y.ndim else None
                    lab.append(lx if lx is not None else (ly if ly is not None else "new"))
                kind = "f" if isinstance(op, ast.Div) or "f" in (x.kind, y.kind) else x.kind
                return Arr(nd, kind, tuple(lab)) if (x.prov is not None or y.prov is not None) else Arr(nd, kind)
            raise Unsupported("array arithmetic")
        try:
            if isinstance(op, ast.Add):
                return a + b
            if isinstance(op, ast.Sub):
                return a - b
            if isinstance(op, ast.Mult):
                return a * b
            if isinstance(op, ast.FloorDiv):
                return a // b
            if isinstance(op, ast.Mod):
                return a % b
            if isinstance(op, ast.BitOr):
                return a | b
            if isinstance(op, ast.BitAnd):
                return a & b
        except TypeError:
            raise Raised("TypeError")
        raise Unsupported(f"operator {type(op).__name__}")

    def name(self, nm: str, env, fn):
        if nm in env:
            return env[nm]
        if nm in ("np", "numpy"):
            return NP
        if nm == "math":
            return _Math
        if nm in ("Number",):
            return NUMBER
        if nm in ("Integral",):
            return INTEGRAL
        if nm in TYPE_NAMES:
            return TYPE_NAMES[nm]
        if nm == "isinstance":
            return self.isinstance_
        if nm in BUILTINS:
            return BUILTINS[nm]
        q = self.prog.resolve_name(fn.module, nm, fn)
        if q in self.prog.functions:
            return self.prog.functions[q]
        if q in self.prog.classes:
            return self.prog.classes[q]
        if nm == "itertools" or q == "itertools":
            return _Itertools
        if q and q.startswith("itertools."):
            return getattr(_Itertools, q.split(".", 1)[1], None) or (_ for _ in ()).throw(Unsupported(f"itertools member {q}"))
        if q:
            gv = self.prog.global_value(q)
            if gv is not None:
                if q not in self._globals:
                    m_, val = gv
                    ctx = next((f for f in self.prog.package_functions() if f.module is m_), fn)
                    self._globals[q] = self.expr(val, {}, ctx, 0)
                return self._globals[q]
        if q in ("numpy",):
            return NP
        if q in ("math",):
            return _Math
        if q and q.startswith("numbers."):
            return NUMBER if q.endswith("Number") else INTEGRAL
        raise Unsupported(f"name `{nm}`")

    def expr(self, e, env, fn, depth):
        self.steps += 1
        if self.steps > self.max_steps:
            raise Unsupported("step limit")
        if isinstance(e, ast.Constant):
            return e.value
        if isinstance(e, ast.Name):
            return self.name(e.id, env, fn)
        if isinstance(e, ast.Tuple):
            out = []
            for x in e.elts:
                if isinstance(x, ast.Starred):
                    out += list(self.expr(x.value, env, fn, depth))
                else:
                    out.append(self.expr(x, env, fn, depth))
            return tuple(out)
        if isinstance(e, ast.List):
            out = []
            for x in e.elts:
                if isinstance(x, ast.Starred):
                    out += list(self.expr(x.value, env, fn, depth))
                else:
                    out.append(self.expr(x, env, fn, depth))
            return out
        if isinstance(e, ast.BinOp):
            return self.binop(e.op, self.expr(e.left, env, fn, depth), self.expr(e.right, env, fn, depth), depth)
        if isinstance(e, ast.UnaryOp):
            v = self.expr(e.operand, env, fn, depth)
            if isinstance(e.op, ast.Not):
                return not self.truth(v)
            if isinstance(e.op, ast.USub):
                if isinstance(v, Obj):
                    m = self.prog.lookup(v.__dict__.get("__cls__"), "__neg__") if v.__dict__.get("__cls__") is not None else None
                    if m is None:
                        raise Raised("TypeError")
                    return self.call(m, [v], depth=depth + 1)
                return v if isinstance(v, Arr) else -v
            if isinstance(e.op, ast.UAdd):
                return +v
            raise Unsupported("unary operator")
        if isinstance(e, ast.BoolOp):
            v = None
            for x in e.values:
                v = self.expr(x, env, fn, depth)
                if isinstance(e.op, ast.And) and not self.truth(v):
                    return v
                if isinstance(e.op, ast.Or) and self.truth(v):
                    return v
            return v
        if isinstance(e, ast.Compare):
            left = self.expr(e.left, env, fn, depth)
            for op, r in zip(e.ops, e.comparators):
                right = self.expr(r, env, fn, depth)
                if isinstance(op, ast.Is):
                    ok = left is right
                elif isinstance(op, ast.IsNot):
                    ok = left is not right
                elif isinstance(left, Arr) or isinstance(right, Arr):
                    if isinstance(op, (ast.In, ast.NotIn)) and isinstance(right, (list, tuple)):
                        ok = any(x is left for x in right) == isinstance(op, ast.In)
                    else:
                        raise Unsupported("comparison with an array")
                elif isinstance(op, ast.Eq):
                    ok = left == right
                elif isinstance(op, ast.NotEq):
                    ok = left != right
                elif isinstance(op, ast.Lt):
                    ok = left < right
                elif isinstance(op, ast.LtE):
                    ok = left <= right
                elif isinstance(op, ast.Gt):
                    ok = left > right
                elif isinstance(op, ast.GtE):
                    ok = left >= right
                elif isinstance(op, ast.In):
                    ok = left in right
                elif isinstance(op, ast.NotIn):
                    ok = left not in right
                else:
                    raise Unsupported("comparison")
                if not ok:
                    return False
                left = right
            return True
        if isinstance(e, ast.IfExp):
            return self.expr(e.body if self.truth(self.expr(e.test, env, fn, depth)) else e.orelse, env, fn, depth)
        if isinstance(e, ast.Subscript):
            obj = self.expr(e.value, env, fn, depth)
            key = self.expr(e.slice, env, fn, depth)
            if isinstance(obj, (list, tuple, range, str, dict)):
                try:
                    return obj[key]
                except (IndexError, KeyError):
                    raise Raised("IndexError")
                except TypeError:
                    raise Raised("TypeError")
            if isinstance(obj, Arr):
                return index_array(obj, key)
            raise Unsupported(f"subscript of {type(obj).__name__}")
        if isinstance(e, ast.Slice):
            return slice(self.expr(e.lower, env, fn, depth) if e.lower else None, self.expr(e.upper, env, fn, depth) if e.upper else None,
                         self.expr(e.step, env, fn, depth) if e.step else None)
        if isinstance(e, ast.Attribute):
            obj = self.expr(e.value, env, fn, depth)
            if obj is _Itertools:
                if hasattr(obj, e.attr):
                    return getattr(obj, e.attr)
                raise Unsupported(f"itertools member {e.attr}")
            if obj is NP or obj is _Math:
                if obj is NP and e.attr in self.np_extra:
                    return self.np_extra[e.attr]
                if hasattr(obj, e.attr):
                    return getattr(obj, e.attr)
                raise Unsupported(f"numpy member {e.attr}")
            if isinstance(obj, (Arr, Broadcast, DType, slice, Capture)):
                if hasattr(obj, e.attr):
                    return getattr(obj, e.attr)
                raise Unsupported(f"attribute {e.attr} of an abstract array")
            from geolint.model import ClassInfo as _CI2

            if isinstance(obj, tuple) and len(obj) == 3 and obj[0] == "super":
                _tag, recv, here = obj
                start = recv if isinstance(recv, _CI2) else (recv.__dict__.get("__cls__") if isinstance(recv, Obj) else None)
                if start is None:
                    raise Unsupported("super() on an unknown receiver")
                m = self.prog.lookup_after(start, here, e.attr)
                if m is None:
                    if e.attr in ("__init__", "_validate_tensor", "__init_subclass__"):
                        return lambda *a, **k: None  # object.__init__
                    raise Unsupported(f"super().{e.attr} not found")
                if m.is_property:
                    return self.call(m, [recv], depth=depth + 1)
                return ("boundmethod", m, recv)
            if isinstance(obj, _CI2) and e.attr == "__new__":
                return lambda c, *a, **k: Obj(__cls__=c)
            if isinstance(obj, _CI2):
                return self.class_attr(obj, e.attr, fn, depth)
            if isinstance(obj, tuple) and hasattr(obj, "_fields"):
                if e.attr in obj._fields:
                    return getattr(obj, e.attr)
                cls_ = getattr(type(obj), "__geolint_cls__", None)
                m = self.prog.lookup(cls_, e.attr) if cls_ is not None else None
                if m is not None and m.is_property:
                    return self.call(m, [obj], depth=depth + 1)
                if m is not None:
                    return ("boundmethod", m, obj)
                if e.attr == "_replace":
                    return obj._replace
                raise Unsupported(f"attribute {e.attr} of a named tuple")
            if isinstance(obj, EnumMember) and e.attr in ("value", "name"):
                return getattr(obj, e.attr)
            if isinstance(obj, Obj):
                if e.attr == "__class__":
                    return obj.__dict__.get("__cls__")
                if e.attr == "__dict__":
                    return obj.__dict__
                if e.attr in obj.__dict__:
                    return obj.__dict__[e.attr]
                # a property / method of the receiver's class
                cls = obj.__dict__.get("__cls__")
                m = self.prog.lookup(cls, e.attr) if cls is not None else None
                if m is not None and m.is_property:
                    return self.call(m, [obj], depth=depth + 1)
                if m is not None and m.is_staticmethod:
                    return m
                if m is not None and m.is_classmethod:
                    return ("boundmethod", m, cls)
                if m is not None:
                    return ("boundmethod", m, obj)
                if cls is not None and self.prog.class_attr(cls, e.attr) is not None:
                    return self.class_attr(cls, e.attr, fn, depth)
                raise Unsupported(f"attribute {e.attr} of the receiver")
            if isinstance(obj, (list, tuple, dict, set)) and e.attr in ("pop", "insert", "remove", "append", "index", "count", "extend", "copy", "get", "add", "update",
                                                                        "items", "keys", "values", "setdefault"):
                return getattr(obj, e.attr)
            raise Unsupported(f"attribute {e.attr} of {type(obj).__name__}")
        if isinstance(e, (ast.ListComp, ast.GeneratorExp, ast.SetComp)):
            out = []

            def rec(gi, env2):
                if gi == len(e.generators):
                    out.append(self.expr(e.elt, env2, fn, depth))
                    return
                g = e.generators[gi]
                it = self.expr(g.iter, env2, fn, depth)
                if isinstance(it, (Arr, Obj)):
                    raise Unsupported("comprehension over an array")
                for v in list(it):
                    env3 = dict(env2)
                    self.assign(g.target, v, env3, fn, depth)
                    if all(self.truth(self.expr(c, env3, fn, depth)) for c in g.ifs):
                        rec(gi + 1, env3)

            rec(0, dict(env))
            return set(out) if isinstance(e, ast.SetComp) else out
        if isinstance(e, ast.Dict):
            out_d = {}
            for k_, v_ in zip(e.keys, e.values):
                if k_ is None:
                    out_d.update(self.expr(v_, env, fn, depth))
                else:
                    out_d[self.expr(k_, env, fn, depth)] = self.expr(v_, env, fn, depth)
            return out_d
        if isinstance(e, ast.Set):
            return {self.expr(x, env, fn, depth) for x in e.elts}
        if isinstance(e, ast.DictComp):
            out_d = {}

            def rec_d(gi, env2):
                if gi == len(e.generators):
                    out_d[self.expr(e.key, env2, fn, depth)] = self.expr(e.value, env2, fn, depth)
                    return
                g = e.generators[gi]
                it = self.expr(g.iter, env2, fn, depth)
                if isinstance(it, (Arr, Obj)):
                    raise Unsupported("comprehension over an array")
                for v in list(it):
                    env3 = dict(env2)
                    self.assign(g.target, v, env3, fn, depth)
                    if all(self.truth(self.expr(c, env3, fn, depth)) for c in g.ifs):
                        rec_d(gi + 1, env3)

            rec_d(0, dict(env))
            return out_d
        if isinstance(e, ast.Call) and isinstance(e.func, ast.Name) and e.func.id == "super" and not e.args:
            ps = fn.params()
            if fn.cls is None or not ps:
                raise Unsupported("super() outside a method")
            return ("super", env.get(ps[0].arg), fn.cls)
        if isinstance(e, ast.Call) and isinstance(e.func, ast.Name) and e.func.id == "type" and len(e.args) == 1:
            v_ = self.expr(e.args[0], env, fn, depth)
            if isinstance(v_, Obj):
                return v_.__dict__.get("__cls__")
            return type(v_)
        if isinstance(e, ast.Call):
            f = self.expr(e.func, env, fn, depth)
            args = []
            for a in e.args:
                if isinstance(a, ast.Starred):
                    args += list(self.expr(a.value, env, fn, depth))
                else:
                    args.append(self.expr(a, env, fn, depth))
            kwargs = {k.arg: self.expr(k.value, env, fn, depth) for k in e.keywords if k.arg is not None}
            for k in e.keywords:
                if k.arg is None:
                    extra = self.expr(k.value, env, fn, depth)
                    if not isinstance(extra, dict):
                        raise Unsupported("** of a non-dict")
                    kwargs.update(extra)
            if isinstance(e.func, ast.Name) and e.func.id == "super" and not e.args:
                ps = fn.params()
                if fn.cls is None or not ps:
                    raise Unsupported("super() outside a method")
                return ("super", env.get(ps[0].arg), fn.cls)
            if isinstance(f, FunctionInfo):
                return self.call(f, args, kwargs, depth + 1)
            from geolint.model import ClassInfo as _CI

            if isinstance(f, _CI):
                if f.qualname in self.constructors:
                    return self.constructors[f.qualname](args, kwargs)
                init = self.prog.lookup(f, "__init__")
                if init is None and ("NamedTuple" in f.external_bases or self.is_dataclass(f)):
                    return self.make_record(f, args, kwargs, fn, depth)
                me = Obj(__cls__=f)
                if init is not None:
                    self.call(init, [me] + args, kwargs, depth + 1)
                return me
            if isinstance(f, tuple) and f and f[0] == "boundmethod":
                return self.call(f[1], [f[2]] + args, kwargs, depth + 1)
            if f is map:
                return [self.apply(args[0], [x], depth) for x in args[1]] if len(args) == 2 else [self.apply(args[0], list(xs), depth) for xs in zip(*args[1:])]
            if callable(f):
                try:
                    return f(*args, **kwargs)
                except (Unsupported, Raised):
                    raise
                except IndexError:
                    raise Raised("IndexError")
                except ValueError:
                    raise Raised("ValueError")
                except TypeError as ex:
                    raise Unsupported(f"call failed: {ex}")
            raise Unsupported(f"call of {f!r}")
        if isinstance(e, ast.JoinedStr):
            return "<message>"
        if isinstance(e, ast.Lambda):
            raise Unsupported("lambda")
        raise Unsupported(f"expression {type(e).__name__}")

    def apply(self, f, args, depth):
        if isinstance(f, FunctionInfo):
            return self.call(f, args, depth=depth + 1)
        if callable(f):
            return f(*args)
        raise Unsupported("map over a non-function")


BUILTINS["map"] = map
