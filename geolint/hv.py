"""Degree algebra of the E5 homogeneity engine.

A value is homogeneous of degree (q, c) in each symbol: it scales like |s|^q * sign(s)^c under x -> s*x (s real, non-zero).
c = 0 (even): invariant sign; c = 1 (odd): picks up sign(s); c = 2 (phase): unknown phase until np.abs() clears it.
TOP = inhomogeneous or outside the vocabulary (never a violation, always UNDECIDED).
Symbols ending in '@v' / '@w' are *generic vertex* symbols of a polytope: 'degree q in every vertex'.
"""

from __future__ import annotations

from dataclasses import dataclass, field, replace
from fractions import Fraction

EVEN, ODD, PHASE = 0, 1, 2


def is_generic(sym: str) -> bool:
    return sym.endswith("@v") or sym.endswith("@w")


@dataclass(frozen=True)
class HV:
    """Numeric (array / scalar) abstract value."""

    top: bool = False
    deg: tuple = ()  # sorted ((sym, Fraction q, c), ...)
    cols: tuple | None = None  # per-component column maps (tuple of deg tuples) for vectors matvec(stack(rows), x)
    parts: tuple | None = None  # structured axis -2: tuple of HV (np.stack([...], axis=-2))
    items: tuple | None = None  # python list / tuple literal of values
    aff: object = None  # affine weight of dehomogenised coordinates: Fraction | 'N' | None
    zero: bool = False  # the literal constant 0
    const: object = None  # python constant, when known
    why: str = ""  # reason for TOP
    proj: bool = False  # derived from coordinates of a projective object (even when its degree is 0)
    mixed: str = ""  # DEFINITELY inhomogeneous array (entries / summands of different definite degree or sign); only identity-like
    #                  operations keep the flag, every other operation turns it into TOP
    ones: bool = False  # untainted array that contains non-zero constants (np.eye, np.ones)

    # ------------------------------------------------------------------ views
    def dmap(self) -> dict:
        return {s: (q, c) for s, q, c in self.deg}

    @property
    def tainted(self) -> bool:
        return self.top or bool(self.deg) or bool(self.cols) or any(p.tainted for p in (self.parts or ())) or any(
            isinstance(p, HV) and p.tainted for p in (self.items or ()))

    @property
    def degree0(self) -> bool:
        return not self.top and not self.deg and not self.cols and all(p.degree0 for p in (self.parts or ()))

    def describe(self) -> str:
        if self.top:
            return "TOP" + (f" ({self.why})" if self.why else "")
        if self.mixed:
            return f"MIXED ({self.mixed})"
        if self.parts:
            return "[" + "; ".join(p.describe() for p in self.parts) + "]"
        if not self.deg and not self.cols:
            return "degree 0"
        cs = {EVEN: "", ODD: "*sign", PHASE: "*phase"}
        s = " ".join(f"{sym}^{q}{cs[c]}" for sym, q, c in self.deg)
        if self.cols:
            s += " cols=" + "|".join(" ".join(f"{a}^{q}" for a, q, _ in col) or "1" for col in self.cols)
        return s


UNT = HV()
ZERO = HV(zero=True, const=0)


def TOP(why: str = "") -> HV:
    return HV(top=True, why=why)


def mk(d: dict, **kw) -> HV:
    items = tuple(sorted((s, Fraction(q), c) for s, (q, c) in d.items() if not (q == 0 and c == EVEN)))
    return HV(deg=items, **kw)


def sym(name: str, q=1) -> HV:
    return mk({name: (Fraction(q), ODD if Fraction(q) % 2 == 1 else EVEN)})


def _cmul(c1: int, c2: int) -> int:
    if PHASE in (c1, c2):
        return PHASE
    return c1 ^ c2


def _mul_maps(a: dict, b: dict, sign: int = 1) -> dict:
    out = dict(a)
    for s, (q, c) in b.items():
        q0, c0 = out.get(s, (Fraction(0), EVEN))
        out[s] = (q0 + sign * q, _cmul(c0, c))
    return out


def mul(a: HV, b: HV, sign: int = 1) -> HV:
    """a * b (sign=1) or a / b (sign=-1), element-wise or matrix products alike."""
    if a.mixed and not b.tainted and not b.mixed:
        return a  # multiplying an inhomogeneous array by an untainted factor keeps it inhomogeneous
    if b.mixed and not a.tainted and not a.mixed and sign == 1:
        return b
    if a.mixed or b.mixed:
        return TOP("derived from an inhomogeneous array")
    if a.top or b.top:
        return TOP(a.why or b.why)
    if a.parts or b.parts:
        if a.parts and not b.parts:
            return replace(a, parts=tuple(mul(p, b, sign) for p in a.parts), aff=None)
        if b.parts and not a.parts and sign == 1:
            return replace(b, parts=tuple(mul(a, p, sign) for p in b.parts), aff=None)
        return TOP("product of two row-structured arrays")
    if a.cols or b.cols:
        if b.cols and not a.cols and sign == 1:
            a, b = b, a
        if b.cols:
            return TOP("product of two column-structured vectors")
        return replace(a, deg=mk(_mul_maps(a.dmap(), b.dmap(), sign)).deg, aff=None)
    aff = None
    if a.aff is not None and not b.tainted and isinstance(b.const, (int, float)) and sign == 1:
        aff = a.aff * Fraction(b.const).limit_denominator(1000) if a.aff != "N" else "N"
    if b.aff is not None and not a.tainted and isinstance(a.const, (int, float)) and sign == 1:
        aff = b.aff * Fraction(a.const).limit_denominator(1000) if b.aff != "N" else "N"
    if a.aff is not None and not b.tainted and isinstance(b.const, (int, float)) and sign == -1 and b.const != 0:
        aff = a.aff / Fraction(b.const).limit_denominator(1000) if a.aff != "N" else "N"
    return mk(_mul_maps(a.dmap(), b.dmap(), sign), aff=aff, zero=(a.zero or (b.zero and sign == 1)))


def power(a: HV, n) -> HV:
    if a.mixed:
        if isinstance(n, (int, float, Fraction)) and not isinstance(n, bool) and n != 0 and not (a.parts or a.cols):
            return a  # a power of an inhomogeneous scalar is still inhomogeneous
        return TOP("derived from an inhomogeneous array")
    if a.top:
        return a
    if a.parts or a.cols:
        return TOP("power of a structured array")
    if not isinstance(n, (int, float, Fraction)) or isinstance(n, bool):
        return UNT if not a.tainted else TOP("power with a non-constant exponent")
    n = Fraction(n).limit_denominator(1000)
    out = {}
    for s, (q, c) in a.dmap().items():
        if n.denominator == 1:
            c2 = c if (c != ODD or n % 2 == 1) else EVEN
            if c == PHASE:
                c2 = PHASE
        else:
            c2 = EVEN if c == EVEN else PHASE
        out[s] = (q * n, c2)
    return mk(out)


def sqrt(a: HV) -> HV:
    return power(a, Fraction(1, 2))


def absval(a: HV) -> HV:
    if a.mixed:
        return TOP("derived from an inhomogeneous array")
    if a.top:
        return a
    if a.parts:
        return replace(a, parts=tuple(absval(p) for p in a.parts))
    return replace(a, deg=tuple((s, q, EVEN) for s, q, _c in a.deg), aff=None)


def same_map(a: HV, b: HV) -> bool:
    return not a.top and not b.top and a.deg == b.deg and a.cols == b.cols and (
        (a.parts is None and b.parts is None) or (a.parts is not None and b.parts is not None and len(a.parts) == len(b.parts)
                                                   and all(same_map(x, y) for x, y in zip(a.parts, b.parts))))


def has_generic(a: HV) -> bool:
    return any(is_generic(s) for s, _q, _c in a.deg) or any(has_generic(p) for p in (a.parts or ())) or any(
        any(is_generic(s) for s, _q, _c in col) for col in (a.cols or ()))


def add(a: HV, b: HV, sign: int = 1, tolerance: bool = False) -> HV:
    """a + b / a - b. Equal maps are kept, anything else is inhomogeneous (TOP)."""
    if a.top or b.top:
        return TOP(a.why or b.why)
    if a.mixed or b.mixed:
        return TOP("derived from an inhomogeneous array")
    if tolerance:
        return a if a.tainted or not b.tainted else b
    if a.zero and not a.tainted:
        return b
    if b.zero and not b.tainted:
        return a
    if not a.tainted and not b.tainted:
        aff = None
        if a.aff is not None and b.aff is not None and a.aff != "N" and b.aff != "N":
            aff = a.aff + sign * b.aff
        elif a.aff is not None or b.aff is not None:
            aff = "N" if "N" in (a.aff, b.aff) else None
        return HV(aff=aff)
    if same_map(a, b):
        if has_generic(a):
            return replace(a, aff=None, zero=False, const=None,
                           mixed="sum of raw coordinates of (possibly different) vertices, each of which has its own scale")
        return replace(a, aff=None, zero=False, const=None)
    if a.tainted and b.tainted and not (a.parts or a.cols or b.parts or b.cols) and not has_generic(a) and not has_generic(b):
        da, db = a.dmap(), b.dmap()
        if set(da) == set(db) and all(da[k][0] == db[k][0] for k in da):
            diff = [k for k in da if da[k][1] != db[k][1]]
            if diff and all(PHASE not in (da[k][1], db[k][1]) for k in diff):
                return replace(a, aff=None, zero=False, const=None,
                               mixed=(f"the two summands have the same degree but pick up different signs when {', '.join(diff)} is replaced by a "
                                      f"negative multiple: {a.describe()[:150]} +/- {b.describe()[:150]}")[:480])
    if not (a.parts or a.cols or b.parts or b.cols) and not has_generic(a) and not has_generic(b):
        da, db = a.dmap(), b.dmap()
        keys = set(da) | set(db)
        if any(da.get(k, (0, EVEN))[0] != db.get(k, (0, EVEN))[0] for k in keys):
            # two summands of DEFINITE, different degree: the sum is not homogeneous at all. Kept as a definite fact only while the value
            # is merely scaled by representative-free factors or raised to a power (sqrt); every other operation forgets it (TOP), because
            # determinants and quotients can re-homogenise such sums (crossratio's plane branch does)
            return replace(a if a.tainted else b, aff=None, zero=False, const=None,
                           mixed=f"sum of terms of different degree: {a.describe()[:120]} +/- {b.describe()[:120]}"[:400])
    return TOP(f"inhomogeneous sum: {a.describe()} +/- {b.describe()}")


def det_rows(rows: list[HV]) -> HV:
    """det(np.stack(rows, axis=-2)): multilinear in the rows."""
    if any(r.mixed for r in rows):
        return TOP("derived from an inhomogeneous array")
    if any(r.top for r in rows):
        return TOP(next(r.why for r in rows if r.top))
    if any(r.parts for r in rows):
        return TOP("determinant of nested row structure")
    cols = {r.cols for r in rows}
    if len(cols) > 1:
        return TOP("rows with different column structure")
    m: dict = {}
    for r in rows:
        m = _mul_maps(m, r.dmap())
    col = next(iter(cols))
    if col:
        for c in col:
            m = _mul_maps(m, {s: (q, cc) for s, q, cc in c})
    return mk(m)


def det_matrix(a: HV) -> HV:
    """det(M) for an array that was not built by stacking known rows."""
    if a.mixed:
        return TOP("derived from an inhomogeneous array")
    if a.top:
        return a
    if a.parts:
        return det_rows(list(a.parts))
    if not a.tainted:
        return UNT
    if a.cols:
        return TOP("determinant of a column-structured array")
    d = a.dmap()
    if all(is_generic(s) for s in d):
        return mk(d)  # rows are the vertices: degree q in every vertex
    return TOP("determinant of a matrix of unknown size scales with the n-th power")


def matvec(mat: HV, vec: HV) -> HV:
    if mat.mixed or vec.mixed:
        return TOP("derived from an inhomogeneous array")
    if mat.top or vec.top:
        return TOP(mat.why or vec.why)
    if vec.parts or vec.cols:
        return TOP("matrix product with a structured vector")
    if mat.parts:
        if any(p.top or p.parts or p.cols for p in mat.parts):
            return TOP("matrix rows outside the vocabulary")
        return HV(deg=vec.deg, cols=tuple(p.deg for p in mat.parts))
    if mat.cols:
        return TOP("matrix with column structure")
    return mk(_mul_maps(mat.dmap(), vec.dmap()))


def join(a: HV | None, b: HV | None) -> HV | None:
    if a is None:
        return b
    if b is None:
        return a
    if a == b:
        return a
    if a.mixed or b.mixed:
        return a if a.mixed and (b.mixed or not b.tainted) else (b if b.mixed and not a.tainted else TOP("derived from an inhomogeneous array"))
    if a.zero and not a.tainted and b.tainted:
        return b
    if b.zero and not b.tainted and a.tainted:
        return a
    if same_map(a, b):
        return replace(a, aff=a.aff if a.aff == b.aff else None, zero=a.zero and b.zero, const=a.const if a.const == b.const else None,
                       items=a.items if a.items == b.items else None)
    if not a.tainted and not b.tainted:
        return HV(aff=a.aff if a.aff == b.aff else None)
    return TOP("different degrees on different paths")


def select_last(a: HV) -> HV:
    """Indexing a component of the coordinate axis: column structure collapses unless the component is known."""
    if a.cols:
        return TOP("component of a column-structured vector")
    return replace(a, aff=a.aff)


@dataclass(frozen=True)
class OV:
    """Projective object (point, line, plane, quadric, transformation, polytope)."""

    arr: HV  # raw coordinate array
    finite: bool = False  # normalized_array is the canonical representative (parameters and polytope vertices, assumed finite)
    types: frozenset = frozenset()
    label: str = ""
    edges_of: str = ""  # for the edge collection of a polygon: base symbol


def obj(name: str, types=frozenset(), generic: bool = False) -> OV:
    s = name + ("@v" if generic else "")
    return OV(arr=sym(s), finite=True, types=frozenset(types), label=name)


def opaque(label: str, types=frozenset()) -> OV:
    """Result of a package primitive: some representative of a well-defined projective object (assumption)."""
    return OV(arr=sym(label), finite=False, types=frozenset(types), label=label)


TOP_OBJ = OV(arr=TOP("object outside the vocabulary"))
