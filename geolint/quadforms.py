"""E19 - the matrices of the parametrised quadrics as polynomial tables (C13).

Circle / Ellipse / Sphere / Cone assemble a small symmetric matrix entry by entry from the coordinates of their centre and from their
radii. The constructor bodies are straight-line code over item assignments on a fixed-size buffer, so the matrix they hand to
QuadricTensor.__init__ is a *table of polynomials in the parameters* that can be read off the source: arrays are tables of Laurent
polynomials (geolint.polyform.LP), `center.normalized_array` is the vector (p0, ..., 1) of symbols, item assignment / slicing / fancy
indexing / elementwise arithmetic / dot are evaluated on tables, an `if` whose test is not decided forks, and anything outside this
vocabulary is Opaque (an obligation whose matrix is Opaque is UNDECIDED). Nothing numeric is evaluated and nothing is solved: the judgement
is that the table is proportional, entry by entry (cross-multiplication of polynomials), to the matrix of the Cartesian locus:

    Ellipse(c, h, v)   (x - cx)^2 / h^2 + (y - cy)^2 / v^2 = 1
    Circle(c, r)       the ellipse with h = v = r
    Sphere(c, r)       |x - c|^2 = r^2                      (dimension 2 and 3)
    Cone(v, b, r)      with b above v (no rotation needed): (x - vx)^2 + (y - vy)^2 = (r / h)^2 (z - vz)^2, h = dist(v, b) kept as a symbol;
                       for a vertex at infinity (np.isinf(h), the Cylinder case) the limit h -> inf: (x - bx)^2 + (y - by)^2 = r^2

NOT decided: the rotation of a cone whose axis is not parallel to z (angle and axis are geometric quantities), from_points/from_tangent/
from_foci/from_crossratio, and the accessors center/radius/foci.
"""

from __future__ import annotations

import ast
import itertools
from fractions import Fraction

from geolint.model import ClassInfo, FunctionInfo, Program
from geolint.polyform import LP, NotPolynomial
from geolint.report import INFO, PROVEN, UNDECIDED, VIOLATION, Run


class Opaque:
    def __init__(self, why: str = ""):
        self.why = why

    def __repr__(self):
        return f"Opaque({self.why})"


class Unknown(Exception):
    pass


class ClassRef:
    """a class of the package used as a value (passed to a helper that calls isinstance with it)"""

    def __init__(self, name: str):
        self.name = name


class _Raise(Exception):
    def __init__(self, name: str = ""):
        super().__init__(name)
        self.name = name


class _Done(Exception):
    def __init__(self, matrix):
        self.matrix = matrix


def _numpy():
    """numpy, when the analysing interpreter has it (the repository's own environment does): used ONLY for its indexing / broadcasting / reshaping
    semantics on object arrays whose elements are polynomials - numpy never sees a number of geometer, and geometer is never imported"""
    try:
        import numpy
        return numpy
    except ImportError:  # pragma: no cover
        return None


def _to_np(t: "Table"):
    np_ = _numpy()
    arr = np_.empty(t.shape, dtype=object)
    for k, v in t.data.items():
        arr[k] = v
    return arr


def _from_np(arr, base=None):
    if not hasattr(arr, "shape") or arr.shape == ():
        return arr.item() if hasattr(arr, "item") else arr
    np_ = _numpy()
    out = Table(arr.shape, {idx: arr[idx] for idx in np_.ndindex(arr.shape)})
    out.base = base
    return out


def _int_array(v):
    """a python / numpy integer array for an index written as a table of integer constants or nested lists of ints, else None"""
    np_ = _numpy()
    if isinstance(v, Table):
        vals = {}
        for k, x in v.data.items():
            c = x.t.get((), None) if len(x.t) <= 1 else None
            if x.is_zero():
                c = Fraction(0)
            if c is None or c.denominator != 1 or (len(x.t) == 1 and () not in x.t):
                return None
            vals[k] = int(c)
        arr = np_.empty(v.shape, dtype=int)
        for k, c in vals.items():
            arr[k] = c
        return arr
    if isinstance(v, list):
        try:
            arr = np_.array(v)
        except Exception:  # noqa: BLE001
            return None
        return arr if arr.dtype.kind == "i" else None
    return None


class Table:
    """an array of fixed shape whose entries are Laurent polynomials"""

    def __init__(self, shape: tuple, data: dict):
        self.shape, self.data = tuple(shape), data
        self.base = None

    @staticmethod
    def full(shape, fn) -> "Table":
        return Table(shape, {idx: fn(idx) for idx in itertools.product(*[range(n) for n in shape])})

    def copy(self) -> "Table":
        return Table(self.shape, dict(self.data))

    def positions(self, idx) -> tuple[list, tuple]:
        """the positions selected by a numpy index (ints, slices, lists of ints; two lists are zipped) and the shape of the selection"""
        idx = idx if isinstance(idx, tuple) else (idx,)
        if any(i is Ellipsis for i in idx):
            k = idx.index(Ellipsis)
            idx = idx[:k] + (slice(None),) * (len(self.shape) - len(idx) + 1) + idx[k + 1:]
        idx = idx + (slice(None),) * (len(self.shape) - len(idx))
        if len(idx) != len(self.shape):
            raise Unknown("too many indices")
        fancy = [k for k, i in enumerate(idx) if isinstance(i, list)]
        per_axis: list = []
        out_shape: list = []
        for k, (i, n) in enumerate(zip(idx, self.shape)):
            if isinstance(i, bool):
                raise Unknown("boolean index")
            if isinstance(i, int):
                if not -n <= i < n:
                    raise Unknown("index out of range")
                per_axis.append([i % n])
            elif isinstance(i, slice):
                r = list(range(n))[i]
                per_axis.append(r)
                out_shape.append(len(r))
            elif isinstance(i, list) and all(isinstance(x, int) and not isinstance(x, bool) for x in i):
                per_axis.append([x % n for x in i])
                if len(fancy) == 1:
                    out_shape.append(len(i))
            else:
                raise Unknown("index kind")
        if len(fancy) >= 2:
            if len(fancy) != len(idx) or len({len(idx[k]) for k in fancy}) != 1:
                raise Unknown("mixed fancy index")
            pos = list(zip(*per_axis))
            return pos, (len(pos),)
        return list(itertools.product(*per_axis)), tuple(out_shape)

    def get(self, idx):
        first = idx[0] if isinstance(idx, tuple) else idx
        if isinstance(first, list) and first and all(isinstance(r, list) and r and all(isinstance(x, int) and not isinstance(x, bool) for x in r) for r in first) \
                and len({len(r) for r in first}) == 1:
            # a 2-d index array on the first axis: one sub-table per row of the index, stacked
            rest = idx[1:] if isinstance(idx, tuple) else ()
            parts = [self.get((r,) + tuple(rest)) for r in first]
            if all(isinstance(p_, Table) and p_.shape == parts[0].shape for p_ in parts):
                out = Table((len(parts),) + parts[0].shape, {(i,) + k: v for i, p_ in enumerate(parts) for k, v in p_.data.items()})
                return out
            raise Unknown("ragged selection")
        try:
            pos, shape = self.positions(idx)
        except Unknown:
            return self._np_get(idx)
        if shape == ():
            return self.data[pos[0]]
        out = Table(shape, dict(zip(itertools.product(*[range(n) for n in shape]), (self.data[p] for p in pos))))
        out.base = self.base if self.base is not None else self  # numpy hands out a VIEW for basic indexing: a write into it is a write into the base
        return out

    def _np_index(self, idx):
        np_ = _numpy()
        if np_ is None:
            raise Unknown("index kind")
        idx = idx if isinstance(idx, tuple) else (idx,)
        out = []
        advanced = False
        for i in idx:
            if i is None or i is Ellipsis or isinstance(i, slice) or (isinstance(i, int) and not isinstance(i, bool)):
                out.append(i)
                continue
            if isinstance(i, bool):
                # a 0-d boolean mask (the mask of a single object): numpy's own semantics - a new axis of length 1 or 0
                advanced = True
                out.append(np_.bool_(i))
                continue
            arr = _int_array(i)
            if arr is None:
                raise Unknown("index kind")
            advanced = True
            out.append(arr)
        return tuple(out), advanced

    def _np_get(self, idx):
        idx_np, advanced = self._np_index(idx)
        try:
            res = _to_np(self)[idx_np]
        except (IndexError, ValueError) as ex:
            raise Unknown(f"index: {ex}") from None
        # basic indexing hands out a view of the base, advanced indexing a copy
        return _from_np(res, base=None if advanced else (self.base if self.base is not None else self))

    def set(self, idx, value, op=None) -> None:
        try:
            pos, shape = self.positions(idx)
        except Unknown:
            idx_np, _adv = self._np_index(idx)
            arr = _to_np(self)
            val = _to_np(value) if isinstance(value, Table) else value
            if not isinstance(value, (Table, LP)):
                raise Unknown("stored value is not a table") from None
            try:
                if op is None:
                    arr[idx_np] = val
                else:
                    cur = arr[idx_np]
                    arr[idx_np] = _numpy().frompyfunc(op, 2, 1)(cur, val)
            except (IndexError, ValueError) as ex:
                raise Unknown(f"assignment: {ex}") from None
            self.data = {k: arr[k] for k in self.data}
            return
        if isinstance(value, Table):
            if value.shape == shape:
                vals = [value.data[i] for i in itertools.product(*[range(n) for n in shape])]
            elif len(value.shape) == 1 and shape and value.shape[0] == shape[-1]:
                vals = [value.data[(i[-1],)] for i in itertools.product(*[range(n) for n in shape])]
            else:
                raise Unknown(f"cannot store shape {value.shape} into a selection of shape {shape}")
        elif isinstance(value, LP):
            vals = [value] * len(pos)
        else:
            raise Unknown("stored value is not a table")
        for p, v in zip(pos, vals):
            self.data[p] = v if op is None else op(self.data[p], v)


def _binop(op, a, b):
    if isinstance(a, Opaque) or isinstance(b, Opaque):
        raise Unknown("opaque operand")
    if isinstance(a, LP) and isinstance(b, LP):
        return op(a, b)
    if isinstance(a, Table) and isinstance(b, LP):
        return Table(a.shape, {k: op(v, b) for k, v in a.data.items()})
    if isinstance(a, LP) and isinstance(b, Table):
        return Table(b.shape, {k: op(a, v) for k, v in b.data.items()})
    if isinstance(a, Table) and isinstance(b, Table):
        if a.shape == b.shape:
            return Table(a.shape, {k: op(v, b.data[k]) for k, v in a.data.items()})
        if len(b.shape) == 1 and a.shape[-1] == b.shape[0]:
            return Table(a.shape, {k: op(v, b.data[(k[-1],)]) for k, v in a.data.items()})
        if len(a.shape) == 1 and b.shape[-1] == a.shape[0]:
            return Table(b.shape, {k: op(a.data[(k[-1],)], v) for k, v in b.data.items()})
        np_ = _numpy()
        if np_ is not None:
            try:
                return _from_np(np_.frompyfunc(op, 2, 1)(_to_np(a), _to_np(b)))
            except ValueError:
                pass
    raise Unknown("operands do not broadcast")


def _conj(v):
    """complex conjugation on symbols: x <-> x~ (i -> -i); constants are rational"""
    def one(lp: LP) -> LP:
        out: dict = {}
        for k, c in lp.t.items():
            sign = 1
            k2 = []
            for s_, e_ in k:
                if s_ == "i":
                    if e_.denominator == 1 and int(e_) % 2:
                        sign = -sign
                    k2.append((s_, e_))
                else:
                    k2.append((s_[:-1] if s_.endswith("~") else s_ + "~", e_))
            k2 = tuple(sorted(k2))
            out[k2] = out.get(k2, 0) + c * sign
        return LP(out)
    if isinstance(v, LP):
        return one(v)
    return Table(v.shape, {k: one(x) for k, x in v.data.items()})


_INT_OPS = {ast.Add: lambda a, b: a + b, ast.Sub: lambda a, b: a - b, ast.Mult: lambda a, b: a * b, ast.FloorDiv: lambda a, b: a // b, ast.Mod: lambda a, b: a % b,
            ast.BitAnd: lambda a, b: a & b, ast.BitOr: lambda a, b: a | b, ast.BitXor: lambda a, b: a ^ b,
            ast.LShift: lambda a, b: a << b if 0 <= b < 64 else (_ for _ in ()).throw(ValueError()), ast.RShift: lambda a, b: a >> b if 0 <= b < 64 else (_ for _ in ()).throw(ValueError())}
_DUNDERS = {ast.Add: ("__add__", "__radd__"), ast.Sub: ("__sub__", "__rsub__"), ast.Mult: ("__mul__", "__rmul__"), ast.Div: ("__truediv__", "__rtruediv__")}
_CURRENT_CALL: list = []
_DIVISORS: list = []  # the sums that were divided by since the list was last cleared (E19.act asks where they vanish)


def _div(a: LP, b: LP) -> LP:
    try:
        return a * b.inverse()
    except NotPolynomial:
        # division by a sum: an atom of its own (only normalisation factors are divided by in these constructors)
        if len(_DIVISORS) < 10000:
            _DIVISORS.append(b)
        return a * LP.sym(f"1/({b.show()})")


def _dot(a, b):
    if isinstance(a, Table) and isinstance(b, Table):
        if len(a.shape) == 1 and len(b.shape) == 1 and a.shape == b.shape:
            out = LP()
            for i in range(a.shape[0]):
                out = out + a.data[(i,)] * b.data[(i,)]
            return out
        if len(a.shape) == 2 and len(b.shape) == 2 and a.shape[1] == b.shape[0]:
            def entry(idx):
                out = LP()
                for k in range(a.shape[1]):
                    out = out + a.data[(idx[0], k)] * b.data[(k, idx[1])]
                return out
            return Table.full((a.shape[0], b.shape[1]), entry)
        if len(a.shape) == 2 and len(b.shape) == 1 and a.shape[1] == b.shape[0]:
            def entry1(idx):
                out = LP()
                for k in range(a.shape[1]):
                    out = out + a.data[(idx[0], k)] * b.data[(k,)]
                return out
            return Table.full((a.shape[0],), entry1)
    raise Unknown("dot of these shapes")


STRUCTURAL = {"diagonal", "delete", "transpose", "expand_dims", "squeeze", "take_along_axis", "flip", "roll", "indices", "moveaxis", "tile", "repeat", "ravel",
              "atleast_1d", "atleast_2d", "broadcast_to", "triu_indices", "tril_indices"}
POINT_CLASSES = {"PointTensor", "Point", "PointLikeTensor", "Tensor", "ProjectiveTensor", "BoundTensor"}


class PointSym:
    """a Point parameter: normalized_array is (name0, ..., 1), array is (w name0, ..., w) with the scale w of the representative"""

    def __init__(self, name: str, dim: int, at_infinity: bool = False, coords: list | None = None):
        self.name, self.dim, self.at_infinity, self.coords = name, dim, at_infinity, coords

    def normalized(self) -> Table:
        if self.coords is not None:
            return Table((self.dim + 1,), {(i,): (self.coords[i] if i < self.dim else LP.const(1)) for i in range(self.dim + 1)})
        if self.at_infinity:
            return Table((self.dim + 1,), {(i,): (LP.sym(f"{self.name}{i}") if i < self.dim else LP.const(0)) for i in range(self.dim + 1)})
        return Table((self.dim + 1,), {(i,): (LP.sym(f"{self.name}{i}") if i < self.dim else LP.const(1)) for i in range(self.dim + 1)})

    def raw(self) -> Table:
        if self.at_infinity:
            return self.normalized()
        w = LP.sym(f"w_{self.name}")
        if self.coords is not None:
            return Table((self.dim + 1,), {(i,): (self.coords[i] * w if i < self.dim else w) for i in range(self.dim + 1)})
        return Table((self.dim + 1,), {(i,): (LP.sym(f"{self.name}{i}") * w if i < self.dim else w) for i in range(self.dim + 1)})


class SymObject:
    """base of the stand-ins for library objects whose attributes / methods the rules model (hooks)"""


class QuadricSym:
    """a quadric object whose matrix is a table (a parameter, or the result of Conic(...) / cls(...))"""

    def __init__(self, matrix: "Table"):
        self.matrix = matrix


class RootsOf:
    """the value of roots([c3, c2, c1, c0]): indexing it gives the symbol `s` with c3 s^3 + c2 s^2 + c1 s + c0 = 0"""

    def __init__(self, coeffs: list):
        self.coeffs = coeffs


class ObjSym(SymObject):
    """an instance of a library class with known attributes: its other attributes are looked up in the class (properties and methods are interpreted)"""

    def __init__(self, cls: ClassInfo, **attrs):
        self.__dict__["_cls"] = cls
        self.__dict__["_attrs"] = attrs


class SqrtVal(SymObject):
    """sqrt(inner), kept apart so that the radicand can be compared"""

    def __init__(self, inner: LP):
        self.inner = inner


class AbsVal(SymObject):
    """scale * |inner|"""

    def __init__(self, inner: LP, scale: LP | None = None):
        self.inner, self.scale = inner, scale if scale is not None else LP.const(1)


class Ratio(SymObject):
    """num / den with a denominator that is a sum (kept apart so that an identity can be checked by cross-multiplication)"""

    def __init__(self, num: LP, den: LP):
        self.num, self.den = num, den


class AngleSym(SymObject):
    """arctan2(y, x): cos = x / sqrt(x^2 + y^2), sin = y / sqrt(x^2 + y^2)"""

    def __init__(self, y: LP, x: LP):
        self.y, self.x = y, x


class PointObj(SymObject):
    """Point(...) built inside the interpreted code: homogeneous coordinates as a table"""

    kinds = {"PointTensor", "Point", "PointLikeTensor", "Tensor", "ProjectiveTensor", "BoundTensor"}

    def __init__(self, table: "Table", normalised: bool = True):
        self.array = table
        if normalised:
            self.normalized_array = table  # points built with a trailing 1 (or copied from a normalised table)
        self.dim = table.shape[0] - 1
        self.shape = table.shape
        self.free_indices = 0

    def neg(self):
        n = self.array.shape[0]
        return PointObj(Table((n,), {(i,): (-self.array.data[(i,)] if i < n - 1 else self.array.data[(i,)]) for i in range(n)}))


class LineObj(SymObject):
    """a line of the plane given by its three coefficients: meet with another line is the cross product"""
    kinds = {"LineTensor", "Line", "SubspaceTensor", "Subspace", "Tensor", "ProjectiveTensor", "PlaneTensor"}

    def __init__(self, table: "Table"):
        self.array = table
        self.dim = table.shape[0] - 1
        self.shape = table.shape
        self.free_indices = 0

    def meet(self, other):
        if isinstance(other, LineObj) and self.array.shape == other.array.shape == (3,):
            a, b = self.array, other.array

            def c(i, j):
                return a.data[(i,)] * b.data[(j,)] - a.data[(j,)] * b.data[(i,)]
            out = Table((3,), {(0,): c(1, 2), (1,): c(2, 0), (2,): c(0, 1)})
            if all(v.is_zero() for v in out.data.values()):
                raise RaisedIn("LinearDependenceError")  # meet of a line with itself (that the library raises here is C02's E19.join)
            return PointObj(out, normalised=False)
        raise Unknown("meet of these objects")


class TransObj(SymObject):
    def __init__(self, table: "Table"):
        self.array = table

    def mul(self, other):
        if isinstance(other, TransObj):
            return TransObj(_dot(self.array, other.array))
        raise Unknown("transformation applied to an object")


class EpsObj(SymObject):
    def __init__(self, n: int):
        self.n = n


class VecObj(SymObject):
    def __init__(self, table: "Table"):
        self.array = table


class DiagramObj(SymObject):
    """TensorDiagram((Tensor(v), eps), ...): every edge contracts v with the next index of the Levi-Civita tensor (what an edge contracts is decided
    by E14; the entries of eps are the permutation signs)"""

    def __init__(self, edges: list):
        self.edges = edges

    def calculate(self):
        eps = next((b for a_, b in self.edges if isinstance(b, EpsObj)), None)
        vecs = [a_.array for a_, b in self.edges if isinstance(a_, VecObj) and b is eps]
        if eps is None or len(vecs) != len(self.edges) or any(v.shape != (eps.n,) for v in vecs):
            raise Unknown("diagram is not vectors contracted with one Levi-Civita tensor")
        n, k = eps.n, len(vecs)
        if k > n or n > 5:
            raise Unknown("more vectors than indices of the Levi-Civita tensor")

        def sign(perm):
            return -1 if sum(1 for i in range(len(perm)) for j in range(i + 1, len(perm)) if perm[i] > perm[j]) % 2 else 1
        data = {}
        for free in itertools.product(range(n), repeat=n - k):
            total = LP()
            for bound in itertools.product(range(n), repeat=k):
                idx = bound + free
                if len(set(idx)) != n:
                    continue
                term = LP.const(sign(idx))
                for v, i in zip(vecs, bound):
                    term = term * v.data[(i,)]
                total = total + term
            data[free] = total
        return VecObj(Table((n,) * (n - k), data))


def library_hooks(it: "Interp") -> dict:
    """stand-ins for the library classes the constructors use"""
    def tensor_hook(args, kwargs):
        return VecObj(args[0]) if args and isinstance(args[0], Table) else Opaque("tensor")

    def eps_hook(args, kwargs):
        return EpsObj(args[0]) if args and isinstance(args[0], int) else Opaque("eps")

    def diagram_hook(args, kwargs):
        edges = [tuple(a_) for a_ in args if isinstance(a_, (list, tuple)) and len(a_) == 2]
        return DiagramObj(edges) if len(edges) == len(args) and edges else Opaque("diagram")

    def point_hook(args, kwargs):
        if len(args) == 1 and isinstance(args[0], PointObj):
            return PointObj(args[0].array)
        if len(args) == 1 and isinstance(args[0], PointSym):
            return PointObj(args[0].normalized())
        if len(args) == 1 and isinstance(args[0], Table) and len(args[0].shape) == 1:
            return PointObj(args[0])  # homogeneous coordinates handed over as one array
        if len(args) == 1 and isinstance(args[0], list) and args[0]:
            try:
                cs = [it.lp(a_) for a_ in args[0]]
                return PointObj(Table((len(cs),), {(i,): c for i, c in enumerate(cs)}), normalised=False)
            except Unknown:
                return Opaque("point")
        if args and all(isinstance(a_, Ratio) for a_ in args) and all((a_.den - args[0].den).is_zero() for a_ in args):
            coords = [a_.num for a_ in args] + [args[0].den]  # (n_i / w, 1) ~ (n_i, w)
            return PointObj(Table((len(coords),), {(i,): c for i, c in enumerate(coords)}))
        try:
            coords = [it.lp(a_) for a_ in args]
        except Unknown:
            return Opaque("point")
        coords.append(LP.const(1))
        return PointObj(Table((len(coords),), {(i,): c for i, c in enumerate(coords)}))

    def trafo_hook(args, kwargs):
        return TransObj(args[0]) if args and isinstance(args[0], Table) and len(args[0].shape) == 2 else Opaque("transformation")

    return {"Tensor": tensor_hook, "LeviCivitaTensor": eps_hook, "TensorDiagram": diagram_hook, "Point": point_hook, "Transformation": trafo_hook}


def zero_mod(e: LP, rules: dict) -> bool:
    """e == 0 modulo the relations atom**p = value: negative powers of the atoms are cleared first (the atoms are non-zero: norms, cosines)"""
    for _ in range(4):
        for atom in rules:
            worst = 0
            for mono in e.t:
                for s_, ex in mono:
                    if s_ == atom and ex < worst:
                        worst = ex
            if worst < 0:
                e = e * LP.sym(atom).power(int(-worst))
        e = e.rewrite(rules)
    return e.is_zero()


def _det_table(t: "Table") -> LP:
    n = t.shape[0]
    if len(t.shape) != 2 or t.shape[1] != n or n > 4:
        raise Unknown("determinant of this shape")
    out = LP()
    for perm in itertools.permutations(range(n)):
        sign = -1 if sum(1 for i in range(n) for j in range(i + 1, n) if perm[i] > perm[j]) % 2 else 1
        term = LP.const(sign)
        for i in range(n):
            term = term * t.data[(i, perm[i])]
            if term.is_zero():
                break
        out = out + term
    return out


def _minor(t: "Table", i: int, j: int) -> "Table":
    n = t.shape[0]
    rows, cols = [r for r in range(n) if r != i], [c for c in range(n) if c != j]
    return Table((n - 1, n - 1), {(a, b): t.data[(r, c)] for a, r in enumerate(rows) for b, c in enumerate(cols)})


def _adjugate_table(t: "Table") -> "Table":
    n = t.shape[0]
    if len(t.shape) != 2 or t.shape[1] != n or n > 4:
        raise Unknown("adjugate of this shape")
    return Table.full((n, n), lambda idx: _det_table(_minor(t, idx[1], idx[0])) * LP.const(-1 if (idx[0] + idx[1]) % 2 else 1))


def _stack_rows(items: list) -> "Table":
    if items and all(isinstance(x, Table) and len(x.shape) == 1 and x.shape == items[0].shape for x in items):
        return Table((len(items), items[0].shape[0]), {(i, j): x.data[(j,)] for i, x in enumerate(items) for j in range(x.shape[0])})
    raise Unknown("rows of different kinds")


class Interp:
    def __init__(self, prog: Program, cls: ClassInfo, assume: dict[str, bool]):
        self.prog, self.cls = prog, cls
        self.assume = assume  # textual test -> outcome, for tests the domain cannot decide (np.isinf(h) ...)
        self.undecided_tests: list[str] = []
        self.owner = None  # ClassInfo of the method whose body is interpreted (run_method)
        self.complex_mode = False  # the symbols stand for complex numbers: conj / adjoint act on them (x -> x~), otherwise conj is not in the vocabulary
        self.uncertain_flow: str | None = None  # the test of an undecided `if` one of whose arms returns or raises
        self.infinite: set[str] = set()  # symbols assumed infinite on this path
        self.roots: RootsOf | None = None
        self.quadric_ctors: set[str] = set()
        self.depth = 0
        self.trig = False  # read cos / sin / norm as atoms with their relations (rotation matrices)
        self.heights: set[str] = set()  # atoms that stand for the height of a cone
        self.ratio_mode = False  # keep quotients with a sum in the denominator as Ratio objects
        self.generic = False  # decide == / != between polynomials for inputs in general position
        self.module_constants: set[str] = set()  # names of module-level constants the rule allows to be read from the package
        self._const_cache: dict = {}
        self.kinds: dict[str, set[str]] = {}  # class names a PointSym parameter is an instance of (for isinstance tests)
        self.rules: dict = {}  # atom -> (power, value): atom**power rewrites to value (norms, cos^2 = 1 - sin^2)
        self.hooks: dict = {}  # function name -> callable(args, kwargs) used instead of interpreting the call

    # ---- expressions
    def ev(self, e: ast.expr, env: dict):
        if isinstance(e, ast.Constant):
            if isinstance(e.value, bool) or e.value is None or isinstance(e.value, str) or e.value is Ellipsis:
                return e.value
            if isinstance(e.value, (int, float)):
                return LP.const(Fraction(e.value).limit_denominator(10 ** 9)) if not isinstance(e.value, int) else e.value
            if isinstance(e.value, complex):
                return LP.const(Fraction(e.value.real).limit_denominator(10 ** 9)) + LP.const(Fraction(e.value.imag).limit_denominator(10 ** 9)) * LP.sym("i")
            return Opaque("constant")
        if isinstance(e, ast.Name):
            if e.id in env:
                return env[e.id]
            if e.id in self.module_constants:
                if e.id not in self._const_cache:
                    self._const_cache[e.id] = None  # guards against recursion
                    for mod in ("geometer.point", "geometer.curve", "geometer.operators"):
                        gv = self.prog.global_value(f"{mod}.{e.id}")
                        if gv is not None:
                            try:
                                self._const_cache[e.id] = self.ev(gv[1], {})
                            except (Unknown, NotPolynomial):
                                pass
                            break
                if self._const_cache.get(e.id) is not None:
                    return self._const_cache[e.id]
            if self.prog.find_cls(e.id) is not None:
                return ClassRef(e.id)
            return Opaque(f"name {e.id}")
        if isinstance(e, ast.UnaryOp) and isinstance(e.op, ast.Not):
            v = self.ev(e.operand, env)
            return (not v) if isinstance(v, bool) else Opaque("not of a value that is not a truth value")
        if isinstance(e, ast.UnaryOp) and isinstance(e.op, ast.Invert):
            v = self.ev(e.operand, env)
            return (not v) if isinstance(v, bool) else Opaque("~ of a value that is not a truth value")  # numpy's ~ on a boolean mask
        if isinstance(e, ast.BinOp) and isinstance(e.op, (ast.BitAnd, ast.BitOr)):
            l, r = self.ev(e.left, env), self.ev(e.right, env)
            if isinstance(l, bool) and isinstance(r, bool):
                return (l and r) if isinstance(e.op, ast.BitAnd) else (l or r)
            if isinstance(l, (set, frozenset)) and isinstance(r, (set, frozenset)):
                return (l & r) if isinstance(e.op, ast.BitAnd) else (l | r)
            if isinstance(l, int) and isinstance(r, int) and not isinstance(l, bool) and not isinstance(r, bool):
                return _INT_OPS[type(e.op)](l, r)
            return Opaque("& / | of values that are not truth values")
        if isinstance(e, ast.UnaryOp) and isinstance(e.op, ast.USub):
            v = self.ev(e.operand, env)
            if isinstance(v, SymObject) and hasattr(v, "neg"):
                return v.neg()
            if isinstance(v, int) and not isinstance(v, bool):
                return -v
            return _binop(lambda a, b: a * b, self.lp(v), LP.const(-1)) if not isinstance(v, Table) else Table(v.shape, {k: -x for k, x in v.data.items()})
        if isinstance(e, ast.BinOp):
            l, r = self.ev(e.left, env), self.ev(e.right, env)
            if isinstance(e.op, (ast.Mult, ast.Div)) and (isinstance(l, AbsVal) or isinstance(r, AbsVal)):
                if isinstance(l, AbsVal) and isinstance(r, (LP, int)):
                    f_ = self.lp(r)
                    return AbsVal(l.inner, l.scale * (f_ if isinstance(e.op, ast.Mult) else f_.inverse()))
                if isinstance(r, AbsVal) and isinstance(l, (LP, int)) and isinstance(e.op, ast.Mult):
                    return AbsVal(r.inner, r.scale * self.lp(l))
                raise Unknown("arithmetic on an absolute value")
            if (isinstance(l, Ratio) or isinstance(r, Ratio)) and isinstance(e.op, (ast.Mult, ast.Div)):
                ln, ld = (l.num, l.den) if isinstance(l, Ratio) else (self.lp(l), LP.const(1))
                rn, rd = (r.num, r.den) if isinstance(r, Ratio) else (self.lp(r), LP.const(1))
                return Ratio(ln * rn, ld * rd) if isinstance(e.op, ast.Mult) else Ratio(ln * rd, ld * rn)
            if isinstance(l, SymObject) and isinstance(e.op, ast.Mult) and hasattr(l, "mul"):
                return l.mul(r)
            if self.generic and self.depth < 9 and (isinstance(l, TensorSym) or isinstance(r, TensorSym)) and type(e.op) in _DUNDERS:
                # arithmetic on a symbolic tensor: the operator method of the most derived library class among its kinds, the reflected one for `scalar OP tensor`
                fwd, rev = _DUNDERS[type(e.op)]
                recv_, arg_, nm_ = (l, r, fwd) if isinstance(l, TensorSym) else (r, l, rev)
                owners = [c for c in self.prog.classes.values() if c.name in (getattr(recv_, "kinds", None) or ()) and nm_ in c.methods]
                if owners:
                    own = max(owners, key=lambda c: len(self.prog.mro(c)))
                    return self.run_method(own.methods[nm_], recv_, [arg_], {})
            if isinstance(l, TensorSym) and isinstance(e.op, ast.Mult) and self.depth < 9:
                tcls = self.prog.find_cls("Tensor")
                m_ = self.prog.lookup(tcls, "__mul__") if tcls is not None else None
                if m_ is not None:
                    return self.run_method(m_, l, [r], {})
            if isinstance(e.op, (ast.Sub, ast.Mod, ast.FloorDiv)) and isinstance(l, list) and l and all(isinstance(x, int) and not isinstance(x, bool) for x in l) \
                    and isinstance(r, int) and not isinstance(r, bool) and (r != 0 or isinstance(e.op, ast.Sub)):
                # an integer index array (np.arange) minus / modulo an integer: elementwise (a python list has none of these operators, so this is unambiguous)
                return [_INT_OPS[type(e.op)](x, r) for x in l]
            if isinstance(l, SymObject) or isinstance(r, SymObject):
                raise Unknown("arithmetic on a library object")
            if isinstance(l, int) and isinstance(r, int) and not isinstance(l, bool) and not isinstance(r, bool) and isinstance(e.op, (ast.Add, ast.Sub, ast.Mult)):
                return {ast.Add: l + r, ast.Sub: l - r, ast.Mult: l * r}[type(e.op)]
            if isinstance(l, int) and isinstance(r, int) and not isinstance(l, bool) and not isinstance(r, bool) and isinstance(e.op, ast.Div) and r != 0:
                return LP.const(Fraction(l, r))
            if isinstance(l, int) and isinstance(r, int) and not isinstance(l, bool) and not isinstance(r, bool) and isinstance(e.op, (ast.FloorDiv, ast.Mod)) and r != 0:
                return l // r if isinstance(e.op, ast.FloorDiv) else l % r
            if isinstance(l, int) and isinstance(r, int) and not isinstance(l, bool) and not isinstance(r, bool) and isinstance(e.op, (ast.LShift, ast.RShift, ast.BitXor)) and 0 <= r < 64:
                return _INT_OPS[type(e.op)](l, r)
            if isinstance(e.op, ast.Mult) and ((isinstance(l, (tuple, list)) and isinstance(r, int)) or (isinstance(r, (tuple, list)) and isinstance(l, int))):
                seq, k_ = (l, r) if isinstance(l, (tuple, list)) else (r, l)
                if not isinstance(k_, bool) and 0 <= k_ <= 8:
                    return type(seq)(list(seq) * k_)
            if isinstance(l, (tuple, list)) and isinstance(r, (tuple, list)) and isinstance(e.op, ast.Add):
                return type(l)(list(l) + list(r)) if type(l) is type(r) else tuple(list(l) + list(r))
            if isinstance(e.op, ast.Pow):
                if isinstance(r, int) and not isinstance(r, bool):
                    base = self.num(l)
                    if isinstance(base, Table):
                        return Table(base.shape, {k: v.power(r) for k, v in base.data.items()})
                    return base.power(r)
                # a fractional power: an atom (normalisation factors)
                base = self.num(l)
                if isinstance(base, LP):
                    rr = self.num(r)
                    return LP.sym(f"({base.show()})^({rr.show() if isinstance(rr, LP) else '?'})")
                raise Unknown("fractional power of a table")
            l, r = self.num(l), self.num(r)
            if isinstance(e.op, ast.Add):
                return _binop(lambda a, b: a + b, l, r)
            if isinstance(e.op, ast.Sub):
                return _binop(lambda a, b: a - b, l, r)
            if isinstance(e.op, ast.Mult):
                return _binop(lambda a, b: a * b, l, r)
            if isinstance(e.op, ast.Div):
                if self.ratio_mode and isinstance(l, LP) and isinstance(r, LP) and len(r.t) > 1:
                    return Ratio(l, r)
                return _binop(_div, l, r)
            if isinstance(e.op, ast.MatMult):
                return _dot(l, r)
            raise Unknown(f"operator {type(e.op).__name__}")
        if isinstance(e, ast.IfExp):
            t = self.test(e.test, env)
            return self.ev(e.body if t else e.orelse, env)
        if isinstance(e, (ast.List, ast.Tuple)):
            vals = []
            for x in e.elts:
                if isinstance(x, ast.Starred):
                    sv = self.ev(x.value, env)
                    if not isinstance(sv, (list, tuple)):
                        return Opaque("star in a display")
                    vals += list(sv)
                else:
                    vals.append(self.ev(x, env))
            if all(isinstance(v, int) and not isinstance(v, bool) for v in vals):
                return list(vals)
            return vals
        if isinstance(e, (ast.ListComp, ast.GeneratorExp)) and len(e.generators) == 1 and not e.generators[0].ifs:
            g = e.generators[0]
            it_ = self.ev(g.iter, env)
            if isinstance(it_, (list, tuple, range)) and len(it_) <= 8 and isinstance(g.target, ast.Name):
                out_ = []
                for x_ in it_:
                    env2 = dict(env)
                    env2[g.target.id] = x_
                    out_.append(self.ev(e.elt, env2))
                return out_
            return Opaque("comprehension")
        if isinstance(e, ast.Attribute):
            base = self.ev(e.value, env)
            if isinstance(base, ObjSym):
                if e.attr in base._attrs:
                    return base._attrs[e.attr]
                m_ = self.prog.lookup(base._cls, e.attr)
                if m_ is not None and m_.is_property and self.depth < 9:
                    return self.run_method(m_, base, [], {})
                return Opaque(f"attribute {e.attr} of the object")
            if isinstance(base, SymObject) and hasattr(base, e.attr):
                return getattr(base, e.attr)
            if isinstance(base, SymObject) and not isinstance(base, TensorSym) and self.generic and self.depth < 9 and getattr(base, "kinds", None):
                # a property of the library class the object stands for (LineTensor.direction ...), most derived class first: interpreted
                owners = [c for c in self.prog.classes.values() if c.name in base.kinds and e.attr in c.methods and c.methods[e.attr].is_property]
                if owners:
                    own = max(owners, key=lambda c: len(self.prog.mro(c)))
                    return self.run_method(own.methods[e.attr], base, [], {})
            if isinstance(base, TensorSym) and self.depth < 9:
                # a property the library defines in exactly one class (covariant_tensor / contravariant_tensor of LineTensor ...): interpreted
                owners = [c for c in self.prog.classes.values() if e.attr in c.methods and c.methods[e.attr].is_property]
                if len(owners) == 1:
                    return self.run_method(owners[0].methods[e.attr], base, [], {})
            if isinstance(base, PointSym):
                if e.attr == "normalized_array":
                    return base.normalized()
                if e.attr == "array":
                    return base.raw()
                if e.attr == "shape":
                    return (base.dim + 1,)
                if e.attr == "dim":
                    return base.dim
                if e.attr == "free_indices":
                    return 0  # a single point
            if isinstance(base, QuadricSym) and e.attr == "array":
                return base.matrix
            if isinstance(base, bool) and e.attr in ("shape", "ndim"):
                return () if e.attr == "shape" else 0  # a 0-d boolean array
            if isinstance(base, Table):
                if e.attr == "T":
                    if len(base.shape) == 2:
                        return Table((base.shape[1], base.shape[0]), {(j, i): v for (i, j), v in base.data.items()})
                    return base
                if e.attr == "shape":
                    return base.shape
                if e.attr == "ndim":
                    return len(base.shape)
                if e.attr == "size":
                    out_ = 1
                    for k_ in base.shape:
                        out_ *= k_
                    return out_
                if e.attr in ("dtype", "real"):
                    return Opaque("dtype") if e.attr == "dtype" else base
            return Opaque(f"attribute {e.attr}")
        if isinstance(e, ast.Subscript):
            base = self.ev(e.value, env)
            idx = self.index(e.slice, env)
            if isinstance(base, Table):
                return base.get(idx)
            if isinstance(base, RootsOf) and isinstance(idx, int):
                self.roots = base
                return LP.sym("s")
            if isinstance(base, (tuple, list)) and isinstance(idx, int):
                return base[idx] if -len(base) <= idx < len(base) else Opaque("index out of range")
            if isinstance(base, (tuple, list)) and isinstance(idx, slice):
                return base[idx]
            if isinstance(base, LP) and (idx is None or idx == (Ellipsis, None) or idx == (None,)):
                return Table((1,), {(0,): base})  # a 0-d value with a new axis
            return Opaque("subscript")
        if isinstance(e, ast.Call):
            return self.call(e, env)
        if isinstance(e, ast.BoolOp):
            # truth values only, with Python's short circuit: the first operand that decides the result ends the evaluation
            for v_ in e.values:
                x_ = self.ev(v_, env)
                if not isinstance(x_, bool):
                    return Opaque("and / or of a value that is not a truth value")
                if x_ is (not isinstance(e.op, ast.And)):
                    return x_
            return isinstance(e.op, ast.And)
        if isinstance(e, ast.Compare) and len(e.ops) == 1:
            l, r = self.ev(e.left, env), self.ev(e.comparators[0], env)
            op = e.ops[0]
            if isinstance(op, (ast.Is, ast.IsNot)) and (l is None or r is None):
                same_ = l is None and r is None
                if isinstance(l, Opaque) or isinstance(r, Opaque):
                    return Opaque("comparison")
                return same_ if isinstance(op, ast.Is) else not same_
            if isinstance(l, int) and isinstance(r, int) and not isinstance(l, bool) and not isinstance(r, bool):
                table = {ast.Eq: l == r, ast.NotEq: l != r, ast.Lt: l < r, ast.LtE: l <= r, ast.Gt: l > r, ast.GtE: l >= r}
                if type(op) in table:
                    return table[type(op)]
            if isinstance(l, (set, frozenset)) and isinstance(r, (set, frozenset)) and isinstance(op, (ast.Eq, ast.NotEq)):
                return (l == r) == isinstance(op, ast.Eq)
            if isinstance(r, (set, frozenset)) and isinstance(l, int) and not isinstance(l, bool) and isinstance(op, (ast.In, ast.NotIn)):
                return (l in r) == isinstance(op, ast.In)
            if isinstance(l, (tuple, list)) and isinstance(r, (tuple, list)) and isinstance(op, (ast.Eq, ast.NotEq)) \
                    and all(isinstance(x, int) for x in list(l) + list(r)):
                return (tuple(l) == tuple(r)) == isinstance(op, ast.Eq)
            if self.generic and isinstance(op, (ast.Eq, ast.NotEq)) and isinstance(l, Table) and isinstance(r, (LP, int)) and not isinstance(r, bool):
                vals_ = {k_: zero_mod(x_ - self.lp(r), self.rules) == isinstance(op, ast.Eq) for k_, x_ in l.data.items()}
                return Table(l.shape, vals_) if l.shape else vals_[()]
            if self.generic and isinstance(op, (ast.Eq, ast.NotEq)) and isinstance(l, (LP, int)) and isinstance(r, (LP, int)) and not isinstance(l, bool) and not isinstance(r, bool):
                # generic position: two polynomials are equal only if they are the same polynomial
                same_ = zero_mod(self.lp(l) - self.lp(r), self.rules)
                return same_ if isinstance(op, ast.Eq) else not same_
            return Opaque("comparison")
        if isinstance(e, ast.Compare):
            return Opaque("comparison")
        return Opaque(type(e).__name__)

    def index(self, s: ast.expr, env: dict):
        if isinstance(s, ast.Tuple):
            out_: list = []
            for x in s.elts:
                if isinstance(x, ast.Starred):
                    sv = self.ev(x.value, env)
                    if not isinstance(sv, (tuple, list)):
                        raise Unknown("star in an index")
                    out_ += list(sv)
                else:
                    out_.append(self.index(x, env))
            return tuple(out_)
        if isinstance(s, ast.Slice):
            def part(x):
                if x is None:
                    return None
                v = self.ev(x, env)
                if isinstance(v, int) and not isinstance(v, bool):
                    return v
                raise Unknown("slice bound")
            return slice(part(s.lower), part(s.upper), part(s.step))
        v = self.ev(s, env)
        if isinstance(v, tuple) and all(x is None or x is Ellipsis or isinstance(x, (int, list, slice, Table)) for x in v):
            return v
        if v is None or isinstance(v, (Table, slice)):
            return v
        if isinstance(v, (int, list)) or v is Ellipsis:
            return v
        raise Unknown("index")

    def lp(self, v) -> LP:
        if isinstance(v, bool):
            raise Unknown("boolean in arithmetic")
        if isinstance(v, int):
            return LP.const(v)
        if isinstance(v, LP):
            return v
        if isinstance(v, AbsVal):
            return LP.sym(f"abs({v.inner.show()})") * v.scale  # an atom: nothing is known about it but its non-negativity
        raise Unknown(f"not a number: {v!r}"[:60])

    def num(self, v):
        if isinstance(v, Table):
            return v
        if isinstance(v, list) and all(isinstance(x, int) for x in v):
            return Table((len(v),), {(i,): LP.const(x) for i, x in enumerate(v)})
        return self.lp(v)

    def call(self, e: ast.Call, env: dict):
        """a call whose effect is not read may have written into the tables it was handed: they are no longer known"""
        try:
            out = self._call(e, env)
        except (Unknown, NotPolynomial):
            self.invalidate_args(e, env)
            raise
        if isinstance(out, Opaque):
            self.invalidate_args(e, env)
        return out

    PURE = {"promote_types", "result_type", "isscalar", "isinf", "isnan", "isreal", "iscomplexobj", "shape", "ndim", "len", "type", "isinstance", "dtype",
            "all", "any", "allclose", "isclose", "array_equal", "abs", "max", "min", "sum", "prod", "norm", "det", "sqrt", "real_if_close", "float", "int",
            "maximum", "minimum", "asarray", "array", "dot", "matmul", "outer", "cross", "eigvalsh", "where", "dist", "angle", "Line", "Plane", "join", "meet"}

    def invalidate_args(self, e: ast.Call, env: dict) -> None:
        f = e.func
        name = f.attr if isinstance(f, ast.Attribute) else f.id if isinstance(f, ast.Name) else ""
        if name in self.PURE:
            return
        names = [a.id for a in list(e.args) + [k.value for k in e.keywords] if isinstance(a, ast.Name)]
        if isinstance(f, ast.Attribute) and isinstance(f.value, ast.Name) and f.value.id not in ("np", "numpy", "math"):
            names.append(f.value.id)  # a method of the buffer itself (m.fill(0), m.sort())
        for n_ in names:
            if isinstance(env.get(n_), Table):
                env[n_] = Opaque(f"handed to `{name}`, whose effect on it is not read")

    def _call(self, e: ast.Call, env: dict):
        f = e.func
        if isinstance(f, ast.Call) and isinstance(f.func, ast.Name) and f.func.id == "type" and len(f.args) == 1:
            # type(x)(...): an object of the same kind as x
            proto = self.ev(f.args[0], env)
            if isinstance(proto, SymObject) and hasattr(proto, "rebuild"):
                return proto.rebuild([self.ev(a_, env) for a_ in e.args], {k_.arg: self.ev(k_.value, env) for k_ in e.keywords if k_.arg})
            return Opaque("type(...)(...) of an object that is not symbolic")
        name = f.attr if isinstance(f, ast.Attribute) else f.id if isinstance(f, ast.Name) else ""
        if (isinstance(f, ast.Attribute) and isinstance(f.value, ast.Call) and isinstance(f.value.func, ast.Name) and f.value.func.id == "super" and not f.value.args
                and self.owner is not None and name not in ("__init__", "__new__") and self.depth < 9):
            # super().name(...): the next definition along the MRO of the class whose method is running, on the same receiver
            nxt = next((c for c in self.prog.mro(self.owner)[1:] if name in c.methods), None)
            recv_name = next(iter(env), None)
            if nxt is not None and recv_name is not None:
                return self.run_method(nxt.methods[name], env[recv_name], [self.ev(a_, env) for a_ in e.args], {k_.arg: self.ev(k_.value, env) for k_ in e.keywords if k_.arg})
            return Opaque("super() call that is not resolved")
        is_np = isinstance(f, ast.Attribute) and isinstance(f.value, ast.Name) and f.value.id in ("np", "numpy", "math")
        if isinstance(f, ast.Attribute) and not is_np:
            try:
                recv = self.ev(f.value, env)
            except (Unknown, NotPolynomial):
                recv = None
            if isinstance(recv, list) and name in ("append", "extend") and len(e.args) == 1:
                item = self.ev(e.args[0], env)
                if name == "append":
                    recv.append(item)
                    return None
                if isinstance(item, (list, tuple)):
                    recv.extend(item)
                    return None
                return Opaque("extend with something that is not a sequence")
            if isinstance(recv, TensorSym) and name in self.hooks:
                return self.hooks[name]([recv] + [self.ev(a_, env) for a_ in e.args], {k_.arg: self.ev(k_.value, env) for k_ in e.keywords if k_.arg})
            if isinstance(recv, ObjSym):
                if name in self.hooks:
                    return self.hooks[name]([recv] + [self.ev(a_, env) for a_ in e.args], {})
                m_ = self.prog.lookup(recv._cls, name)
                if m_ is not None and self.depth < 9:
                    return self.run_method(m_, recv, [self.ev(a_, env) for a_ in e.args], {k_.arg: self.ev(k_.value, env) for k_ in e.keywords if k_.arg})
                return Opaque(f"method {name}")
            if isinstance(recv, SymObject) and hasattr(recv, name) and not (name.startswith("__") and not callable(getattr(recv, name, None))):
                return getattr(recv, name)(*[self.ev(a_, env) for a_ in e.args])
            if isinstance(recv, TensorSym) and self.generic and self.depth < 9 and getattr(recv, "kinds", None):
                # a method of the library class the tensor stands for, most derived class first: interpreted on the symbolic receiver
                owners = [c for c in self.prog.classes.values() if c.name in recv.kinds and name in c.methods and not c.methods[name].is_property]
                if owners:
                    own = max(owners, key=lambda c: len(self.prog.mro(c)))
                    return self.run_method(own.methods[name], recv, [self.ev(a_, env) for a_ in e.args], {k_.arg: self.ev(k_.value, env) for k_ in e.keywords if k_.arg})
        if isinstance(f, ast.Attribute) and isinstance(f.value, ast.Name) and isinstance(env.get(f.value.id), Opaque) and name in self.hooks:
            # x.join(y) on a local that is not read: the hook would be handed the arguments without the receiver
            return Opaque(f"method {name} of a value that is not read")
        if name == "cast" and len(e.args) == 2 and not e.keywords:
            return self.ev(e.args[1], env)  # typing.cast returns its second argument
        if self.complex_mode and name in ("conj", "conjugate") and (is_np and len(e.args) == 1 or (isinstance(f, ast.Attribute) and not is_np and not e.args)):
            v_ = self.ev(e.args[0] if e.args else f.value, env)
            if isinstance(v_, (LP, Table)):
                return _conj(v_)
        if name not in self.hooks and name:
            # a private helper made public or the reverse (`_divide_by_power_of_two` / `divide_by_power_of_two`) is the same helper
            name = next((n_ for n_ in ("_" + name, name.lstrip("_")) if n_ in self.hooks and n_ != ""), name)
        if name in self.hooks:
            args_ = []
            for a_ in e.args:
                try:
                    if isinstance(a_, ast.Starred):
                        v_ = self.ev(a_.value, env)
                        if isinstance(v_, Table) and len(v_.shape) == 1:
                            v_ = [v_.data[(i_,)] for i_ in range(v_.shape[0])]
                        args_ += list(v_) if isinstance(v_, (list, tuple)) else [Opaque("star argument")]
                    else:
                        args_.append(self.ev(a_, env))
                except (Unknown, NotPolynomial) as ex:
                    if isinstance(ex, RaisedIn):
                        raise
                    args_.append(Opaque(str(ex)))
            _CURRENT_CALL[:] = [e]  # (a hook that must know on which class a constructor-like method was called reads the call node)
            kw_ = {}
            for k_ in e.keywords:
                if k_.arg is not None:
                    try:
                        kw_[k_.arg] = self.ev(k_.value, env)
                    except (Unknown, NotPolynomial) as ex:
                        if isinstance(ex, RaisedIn):
                            raise
                        kw_[k_.arg] = Opaque(str(ex))
            return self.hooks[name](args_, kw_)
        if name in ("cos", "sin") and len(e.args) == 1 and self.trig:
            arg0 = self.ev(e.args[0], env)
            if isinstance(arg0, AngleSym):
                inner = (arg0.x * arg0.x + arg0.y * arg0.y).rewrite(self.rules)
                hyp = self.sqrt_atom(inner)
                return (arg0.x if name == "cos" else arg0.y) * hyp.inverse()
            arg = self.lp(arg0)
            sign = 1
            lead = sorted(arg.t.items())[0][1] if arg.t else 1
            if lead < 0:
                arg, sign = -arg, -1
            ckey, skey = f"cos({arg.show()})", f"sin({arg.show()})"
            self.rules[ckey] = (2, LP.const(1) - LP.sym(skey) * LP.sym(skey))
            return LP.sym(ckey) if name == "cos" else LP.sym(skey) * LP.const(sign)
        if name == "norm" and len(e.args) == 1 and self.trig:
            v = self.num(self.ev(e.args[0], env))
            if isinstance(v, Table) and len(v.shape) == 1:
                inner = LP()
                for x in v.data.values():
                    inner = inner + x * x
                return self.sqrt_atom(inner.rewrite(self.rules))
        if name in ("sqrt", "csqrt") and len(e.args) == 1 and self.trig and not self.ratio_mode:
            v = self.ev(e.args[0], env)
            if isinstance(v, LP):
                return self.sqrt_atom(v.rewrite(self.rules))
            if isinstance(v, Table):
                return Table(v.shape, {k_: self.sqrt_atom(x_.rewrite(self.rules)) for k_, x_ in v.data.items()})
        if name == "arctan2" and len(e.args) == 2 and self.trig:
            return AngleSym(self.lp(self.ev(e.args[0], env)), self.lp(self.ev(e.args[1], env)))
        if name in ("arcsin", "arccos") and len(e.args) == 1 and self.trig:
            x = self.lp(self.ev(e.args[0], env))
            other = self.sqrt_atom((LP.const(1) - x * x).rewrite(self.rules))  # the non-negative one of the two: arcsin has cos >= 0, arccos has sin >= 0
            return AngleSym(x, other) if name == "arcsin" else AngleSym(other, x)
        if name in ("min", "minimum", "max", "maximum", "clip") and self.trig and len(e.args) >= 2:
            vals = [self.ev(a_, env) for a_ in e.args]
            lps = [v_ for v_ in vals if isinstance(v_, LP) and not (len(v_.t) == 1 and () in v_.t)]
            consts = [v_ for v_ in vals if isinstance(v_, int) or (isinstance(v_, LP) and len(v_.t) == 1 and () in v_.t)]
            if len(lps) == 1 and len(consts) == len(vals) - 1:
                return lps[0]  # a clamp of a computed ratio to its mathematical range (guard against rounding)
        if name == "isscalar" and len(e.args) == 1:
            v = self.ev(e.args[0], env)
            if isinstance(v, (int, LP)) and not isinstance(v, bool):
                return True
            if isinstance(v, (Table, list)):
                return False
        if is_np or isinstance(f, ast.Name):
            if name == "sqrt" and len(e.args) == 1 and isinstance(e.args[0], (ast.BinOp, ast.Constant, ast.Name)):
                try:
                    v0 = self.ev(e.args[0], env)
                except (Unknown, NotPolynomial):
                    v0 = None
                if isinstance(v0, int) and not isinstance(v0, bool) and v0 >= 0:
                    import math as _m
                    r_ = _m.isqrt(v0)
                    return r_ if r_ * r_ == v0 else Opaque("irrational square root")
            if name in ("eye", "identity") and e.args:
                n = self.ev(e.args[0], env)
                if isinstance(n, int):
                    return Table.full((n, n), lambda idx: LP.const(1 if idx[0] == idx[1] else 0))
                raise Unknown("size of the identity")
            if name in ("zeros", "ones", "empty") and e.args:
                shp = self.ev(e.args[0], env)
                shp = (shp,) if isinstance(shp, int) else tuple(shp) if isinstance(shp, (list, tuple)) else None
                if shp == ():
                    return LP.const(1 if name == "ones" else 0)  # a 0-d array
                if shp and all(isinstance(x, int) for x in shp):
                    return Table.full(shp, lambda idx: LP.const(1 if name == "ones" else 0))
            if name == "flatnonzero" and len(e.args) == 1 and not e.keywords:
                v_ = self.ev(e.args[0], env)
                if isinstance(v_, Table) and len(v_.shape) == 1 and all(isinstance(x, bool) for x in v_.data.values()):
                    return [i_ for i_ in range(v_.shape[0]) if v_.data[(i_,)]]
                if isinstance(v_, bool):
                    return [0] if v_ else []
                raise Unknown("flatnonzero of this")
            if name == "fill_diagonal" and len(e.args) == 2 and not e.keywords:
                m_, v_ = self.ev(e.args[0], env), self.ev(e.args[1], env)
                if isinstance(m_, Table) and len(m_.shape) == 2 and isinstance(v_, (int, LP)) and not isinstance(v_, bool):
                    for i_ in range(min(m_.shape)):
                        m_.data[(i_, i_)] = self.lp(v_)
                    return None
                raise Unknown("fill_diagonal of this")
            if name in ("zeros_like", "ones_like") and len(e.args) == 1:
                v = self.ev(e.args[0], env)
                if isinstance(v, Table):
                    return Table.full(v.shape, lambda idx: LP.const(1 if name == "ones_like" else 0))
            if name == "isclose" and self.generic and len(e.args) == 2:
                # coordinates in general position: a polynomial is 'close to' another exactly when the two are the same polynomial
                l_, r_ = self.ev(e.args[0], env), self.ev(e.args[1], env)
                if isinstance(l_, (LP, int)) and isinstance(r_, (LP, int)) and not isinstance(l_, bool) and not isinstance(r_, bool):
                    return (self.lp(l_) - self.lp(r_)).rewrite(self.rules).is_zero()
                if isinstance(l_, Table) and isinstance(r_, (LP, int)) and not isinstance(r_, bool):
                    vals_ = {k_: (x_ - self.lp(r_)).rewrite(self.rules).is_zero() for k_, x_ in l_.data.items()}
                    return Table(l_.shape, vals_) if l_.shape else vals_[()]
            if name in ("array", "asarray") and e.args:
                v = self.ev(e.args[0], env)
                if isinstance(v, Table):
                    return v if name == "asarray" else v.copy()
                if isinstance(v, list) and v and all(isinstance(x, list) and x and all(isinstance(y, Table) for y in x) for x in v):
                    # a list of lists of vectors: a stack of matrices
                    mats = [_stack_rows(x) for x in v]
                    if all(m_.shape == mats[0].shape for m_ in mats):
                        return Table((len(mats),) + mats[0].shape, {(i,) + k_: x_ for i, m_ in enumerate(mats) for k_, x_ in m_.data.items()})
                if isinstance(v, list) and v and all(isinstance(x, list) and not all(isinstance(y, int) for y in x) for x in v):
                    rows = [[self.lp(y) for y in x] for x in v]
                    if len({len(r_) for r_ in rows}) == 1:
                        return Table((len(rows), len(rows[0])), {(i, j): rows[i][j] for i in range(len(rows)) for j in range(len(rows[0]))})
                if isinstance(v, list):
                    items = [self.num(x) for x in v]
                    if all(isinstance(x, LP) for x in items):
                        return Table((len(items),), {(i,): x for i, x in enumerate(items)})
                    if all(isinstance(x, Table) and len(x.shape) == 1 and x.shape == items[0].shape for x in items):
                        return Table((len(items), items[0].shape[0]), {(i, j): x.data[(j,)] for i, x in enumerate(items) for j in range(x.shape[0])})
                raise Unknown("np.array of this")
            if name == "diag" and len(e.args) == 1:
                v = self.num(self.ev(e.args[0], env))
                if isinstance(v, Table) and len(v.shape) == 1:
                    n = v.shape[0]
                    return Table.full((n, n), lambda idx: v.data[(idx[0],)] if idx[0] == idx[1] else LP.const(0))
            if name in ("dot", "matmul") and len(e.args) == 2 and not e.keywords:
                return _dot(self.num(self.ev(e.args[0], env)), self.num(self.ev(e.args[1], env)))
            if name in ("prod", "sum") and len(e.args) == 1 and not e.keywords and not isinstance(e.args[0], (ast.GeneratorExp, ast.ListComp)):
                v0 = self.ev(e.args[0], env)
                if isinstance(v0, (list, tuple)) and all(isinstance(x, int) and not isinstance(x, bool) for x in v0):
                    out_ = 1 if name == "prod" else 0
                    for x in v0:
                        out_ = out_ * x if name == "prod" else out_ + x
                    return out_
                v = self.num(v0)
                if isinstance(v, Table):
                    out = LP.const(1 if name == "prod" else 0)
                    for x in v.data.values():
                        out = out * x if name == "prod" else out + x
                    return out
            if name in ("abs", "absolute") and len(e.args) == 1 and self.ratio_mode:
                v = self.ev(e.args[0], env)
                if isinstance(v, (LP, int)):
                    return AbsVal(self.lp(v))
                if isinstance(v, Table):
                    return Table(v.shape, {k_: LP.sym(f"abs({x_.show()})") for k_, x_ in v.data.items()})
            if name == "average" and e.args and self.ratio_mode:
                v = self.ev(e.args[0], env)
                axis = next((self.ev(k_.value, env) for k_ in e.keywords if k_.arg == "axis"), None)
                w = next((self.ev(k_.value, env) for k_ in e.keywords if k_.arg == "weights"), None)
                rows = None
                if isinstance(w, Table) and len(w.shape) == 1:
                    w = [w.data[(i,)] for i in range(w.shape[0])]
                if isinstance(v, Table) and len(v.shape) == 3 and axis == 1 and w is None:
                    # the mean over the middle axis of a stack of tables
                    inv_n = LP.const(Fraction(1, v.shape[1]))
                    return Table((v.shape[0], v.shape[2]), {(i, j): sum((v.data[(i, k_, j)] for k_ in range(v.shape[1])), LP()) * inv_n
                                                          for i in range(v.shape[0]) for j in range(v.shape[2])})
                if isinstance(v, Table) and len(v.shape) == 2:
                    rows = [v.get(i) for i in range(v.shape[0])]
                elif isinstance(v, list) and v and all(isinstance(x, Table) and len(x.shape) == 1 and x.shape == v[0].shape for x in v):
                    rows = v
                if rows is not None and axis == 0:
                    k = rows[0].shape[0]
                    if w is None:
                        inv_n = LP.const(Fraction(1, len(rows)))
                        return Table((k,), {(j,): sum((r_.data[(j,)] for r_ in rows), LP()) * inv_n for j in range(k)})
                    if isinstance(w, list) and len(w) == len(rows):
                        ws = [self.lp(x) for x in w]
                        den = sum(ws, LP())
                        return [Ratio(sum((w_ * r_.data[(j,)] for w_, r_ in zip(ws, rows)), LP()), den) for j in range(k)]
            if name == "sum" and len(e.args) == 1 and isinstance(e.args[0], (ast.GeneratorExp, ast.ListComp)):
                g = e.args[0]
                items = self.ev(ast.ListComp(elt=g.elt, generators=g.generators), env)
                if isinstance(items, list) and all(isinstance(x, (LP, int)) for x in items):
                    return sum((self.lp(x) for x in items), LP())
            if name == "range" and len(e.args) == 2:
                a_, b_ = self.ev(e.args[0], env), self.ev(e.args[1], env)
                if isinstance(a_, int) and isinstance(b_, int):
                    return range(a_, b_)
            if name in ("maximum", "minimum") and len(e.args) == 2 and not e.keywords:
                a2 = [self.num(self.ev(a, env)) for a in e.args]

                def const_of(x):
                    return x.t.get((), Fraction(0)) if isinstance(x, LP) and (not x.t or set(x.t) == {()}) else None
                pick = max if name == "maximum" else min
                if all(isinstance(x, LP) for x in a2) and all(const_of(x) is not None for x in a2):
                    return LP.const(pick(const_of(a2[0]), const_of(a2[1])))
                if all(isinstance(x, Table) for x in a2) and a2[0].shape == a2[1].shape and all(const_of(v) is not None for x in a2 for v in x.data.values()):
                    return Table(a2[0].shape, {k: LP.const(pick(const_of(v), const_of(a2[1].data[k]))) for k, v in a2[0].data.items()})
            if name in ("maximum", "minimum", "abs", "absolute", "sqrt") and e.args and not (name == "sqrt" and self.ratio_mode):
                args = [self.num(self.ev(a, env)) for a in e.args]
                if isinstance(args[0], Table):
                    # elementwise, value not known: one positive atom per entry (only normalisation factors use these)
                    return Table(args[0].shape, {k: LP.sym(f"{name}({v.show()})") for k, v in args[0].data.items()})
                return LP.sym(f"{name}({args[0].show()})")
            if name in ("real_if_close", "ascontiguousarray", "copy", "conj", "conjugate") and e.args:
                return self.ev(e.args[0], env)  # the symbols stand for real numbers
            if name == "isinf" and len(e.args) == 1:
                try:
                    return self.test(e, env)
                except Unknown:
                    return Opaque("isinf")
            if name == "arange" and len(e.args) == 1:
                v = self.ev(e.args[0], env)
                if isinstance(v, int) and not isinstance(v, bool) and 0 <= v <= 8:
                    return list(range(v))
            if name == "bool" and len(e.args) == 1 and isinstance(f, ast.Name):
                v = self.ev(e.args[0], env)
                if isinstance(v, bool):
                    return v
                return Opaque("bool of a value that is not a truth value")
            if name in ("float", "int") and len(e.args) == 1:
                v = self.ev(e.args[0], env)
                if isinstance(v, LP) and len(v.t) <= 1 and (not v.t or () in v.t) and name == "int":
                    c_ = v.t.get((), Fraction(0))
                    return int(c_)
                return v

            if name == "range" and len(e.args) == 1:
                v = self.ev(e.args[0], env)
                if isinstance(v, int) and not isinstance(v, bool):
                    return range(v)
            if name == "triu_indices" and len(e.args) == 1:
                n_ = self.ev(e.args[0], env)
                if isinstance(n_, int) and n_ <= 6:
                    pairs = [(i, j) for i in range(n_) for j in range(i, n_)]
                    return ([i for i, _j in pairs], [j for _i, j in pairs])
            if name == "factorial" and len(e.args) == 1:
                n_ = self.ev(e.args[0], env)
                if isinstance(n_, int) and 0 <= n_ <= 10:
                    out_ = 1
                    for k_ in range(2, n_ + 1):
                        out_ *= k_
                    return out_
            if name == "concatenate" and e.args:
                v = self.ev(e.args[0], env)
                axis = next((self.ev(k_.value, env) for k_ in e.keywords if k_.arg == "axis"), 0)
                if isinstance(v, list) and v and all(isinstance(x, Table) and len(x.shape) == 2 and x.shape[1] == v[0].shape[1] for x in v) and axis == 0:
                    rows = [x.get(i) for x in v for i in range(x.shape[0])]
                    return _stack_rows(rows)
            if name == "sqrt" and len(e.args) == 1 and self.ratio_mode:
                v = self.ev(e.args[0], env)
                if isinstance(v, (LP, int)):
                    return SqrtVal(self.lp(v))
            if name == "sum" and len(e.args) == 1 and any(k_.arg == "axis" for k_ in e.keywords):
                v = self.num(self.ev(e.args[0], env))
                axis = next(self.ev(k_.value, env) for k_ in e.keywords if k_.arg == "axis")
                keep = next((self.ev(k_.value, env) for k_ in e.keywords if k_.arg == "keepdims"), False)
                if isinstance(v, Table) and len(v.shape) == 1 and axis in (0, -1):
                    tot = sum(v.data.values(), LP())
                    return Table((1,), {(0,): tot}) if keep is True else tot
                if isinstance(v, Table) and len(v.shape) == 2 and axis in (1, -1):
                    return Table((v.shape[0],), {(i,): sum((v.data[(i, j)] for j in range(v.shape[1])), LP()) for i in range(v.shape[0])})
                if isinstance(v, Table) and len(v.shape) == 2 and axis in (0, -2):
                    return Table((v.shape[1],), {(j,): sum((v.data[(i, j)] for i in range(v.shape[0])), LP()) for j in range(v.shape[1])})
            if name == "mean" and len(e.args) == 1:
                v = self.num(self.ev(e.args[0], env))
                axis = next((self.ev(k_.value, env) for k_ in e.keywords if k_.arg == "axis"), None)
                if isinstance(v, Table) and len(v.shape) == 2 and axis in (0, -2):
                    inv_n = LP.const(Fraction(1, v.shape[0]))
                    return Table((v.shape[1],), {(j,): sum((v.data[(i, j)] for i in range(v.shape[0])), LP()) * inv_n for j in range(v.shape[1])})
                if isinstance(v, Table) and len(v.shape) == 1 and axis in (None, 0, -1):
                    return sum(v.data.values(), LP()) * LP.const(Fraction(1, v.shape[0]))
            if name == "append" and len(e.args) == 2 and (not e.keywords or (len(e.keywords) == 1 and e.keywords[0].arg == "axis" and self.ev(e.keywords[0].value, env) in (-1, 0)
                                                                              and isinstance(self.ev(e.args[0], env), Table) and len(self.ev(e.args[0], env).shape) == 1)):
                a_, b_ = self.num(self.ev(e.args[0], env)), self.ev(e.args[1], env)
                if isinstance(a_, Table) and len(a_.shape) == 1:
                    extra = [self.lp(x) for x in b_] if isinstance(b_, list) else [self.lp(b_)] if isinstance(b_, (int, LP)) else None
                    if isinstance(b_, Table) and len(b_.shape) == 1:
                        extra = [b_.data[(i,)] for i in range(b_.shape[0])]
                        extra = [LP.const(1 if x is True else 0) if isinstance(x, bool) else x for x in extra]  # (numpy casts truth values to 1 / 0)
                    if extra is not None:
                        vals = [a_.data[(i,)] for i in range(a_.shape[0])] + extra
                        return Table((len(vals),), {(i,): x for i, x in enumerate(vals)})
            if name == "matmul" and len(e.args) == 2:
                a_, b_ = self.num(self.ev(e.args[0], env)), self.num(self.ev(e.args[1], env))
                flags = {k_.arg: self.ev(k_.value, env) for k_ in e.keywords}
                if isinstance(a_, Table) and isinstance(b_, Table) and set(flags) <= {"transpose_a", "transpose_b"} and all(isinstance(x, bool) for x in flags.values()):
                    def tr(t_):
                        return Table((t_.shape[1], t_.shape[0]), {(j, i): x for (i, j), x in t_.data.items()}) if len(t_.shape) == 2 else t_
                    return _dot(tr(a_) if flags.get("transpose_a") else a_, tr(b_) if flags.get("transpose_b") else b_)
                if (self.complex_mode and isinstance(a_, Table) and isinstance(b_, Table) and set(flags) <= {"transpose_a", "transpose_b", "adjoint_a", "adjoint_b"}
                        and all(isinstance(x, bool) for x in flags.values())):
                    # the adjoint is the conjugate of the transpose: conjugation is kept as an operation on the symbols
                    def tr2(t_):
                        return Table((t_.shape[1], t_.shape[0]), {(j, i): x for (i, j), x in t_.data.items()}) if len(t_.shape) == 2 else t_
                    a2 = _conj(tr2(a_)) if flags.get("adjoint_a") else tr2(a_) if flags.get("transpose_a") else a_
                    b2 = _conj(tr2(b_)) if flags.get("adjoint_b") else tr2(b_) if flags.get("transpose_b") else b_
                    return _dot(a2, b2)
            if name == "swapaxes" and len(e.args) == 3:
                v = self.num(self.ev(e.args[0], env))
                ax = sorted(self.ev(x, env) for x in e.args[1:])
                if isinstance(v, Table) and len(v.shape) == 2 and ax in ([-2, -1], [0, 1]):
                    return Table((v.shape[1], v.shape[0]), {(j, i): x for (i, j), x in v.data.items()})
            if name in STRUCTURAL and e.args and _numpy() is not None:
                out_ = self.structural(name, e, env)
                if out_ is not None:
                    return out_
            if name in ("tuple", "list", "sorted") and len(e.args) == 1 and isinstance(f, ast.Name) and not e.keywords:
                v = self.ev(e.args[0], env)
                if isinstance(v, (set, frozenset)) and all(isinstance(x, int) for x in v):
                    v = sorted(v)  # (small non-negative integers: the order CPython iterates such a set in)
                    return tuple(v) if name == "tuple" else list(v)
                if isinstance(v, (tuple, list, range)) and name != "sorted":
                    return tuple(v) if name == "tuple" else list(v)
                if isinstance(v, (tuple, list, range)) and all(isinstance(x, int) for x in v):
                    return sorted(v)
            if name in ("set", "frozenset") and len(e.args) <= 1 and isinstance(f, ast.Name) and not e.keywords:
                v = self.ev(e.args[0], env) if e.args else ()
                if isinstance(v, (tuple, list, range, set, frozenset)) and all(isinstance(x, int) and not isinstance(x, bool) for x in v):
                    return set(v)
                return Opaque("set of values that are not integers")
            if name == "combinations" and len(e.args) == 2:
                it_, r_ = self.ev(e.args[0], env), self.ev(e.args[1], env)
                if isinstance(it_, (list, range, tuple)) and isinstance(r_, int) and len(it_) <= 6:
                    return [tuple(c_) for c_ in itertools.combinations(list(it_), r_)]
            if name == "slice":
                vals_ = [self.ev(a_, env) for a_ in e.args]
                if all(v_ is None or (isinstance(v_, int) and not isinstance(v_, bool)) for v_ in vals_):
                    return slice(*vals_)
            if name == "where" and len(e.args) == 3:
                c_ = self.ev(e.args[0], env)
                if isinstance(c_, bool):
                    return self.ev(e.args[1] if c_ else e.args[2], env)
            if name == "unravel_index" and len(e.args) == 2:
                flat, shp = self.ev(e.args[0], env), self.ev(e.args[1], env)
                if isinstance(flat, int) and isinstance(shp, (tuple, list)) and all(isinstance(x_, int) for x_ in shp):
                    out_ = []
                    for d_ in reversed(shp):
                        out_.append(flat % d_)
                        flat //= d_
                    return tuple(reversed(out_))
            if name == "isinstance" and len(e.args) == 2:
                v = self.ev(e.args[0], env)
                if isinstance(v, int) and isinstance(e.args[1], ast.Name) and e.args[1].id in ("int", "bool", "float", "str") and e.args[1].id not in env:
                    # a python integer the rule itself passed in (a power, a dimension)
                    return {"int": True, "bool": isinstance(v, bool), "float": False, "str": False}[e.args[1].id]
                names_ = []
                for x in (e.args[1].elts if isinstance(e.args[1], ast.Tuple) else [e.args[1]]):
                    # a class named directly, or a variable / parameter that holds a class
                    cv = env.get(x.id) if isinstance(x, ast.Name) and x.id in env else None
                    if isinstance(cv, ClassRef):
                        names_.append(cv.name)
                    elif isinstance(x, ast.Name) and x.id not in env and self.prog.find_cls(x.id) is not None:
                        names_.append(x.id)
                    else:
                        return Opaque("isinstance against a class that is not resolved")
                if isinstance(v, PointSym) and names_:
                    return any(n_ in POINT_CLASSES for n_ in names_)
                if isinstance(v, SymObject) and hasattr(v, "kinds") and names_:
                    return any(n_ in v.kinds for n_ in names_)
                return Opaque("isinstance")
            if name in ("all", "any") and len(e.args) == 1:
                v = self.ev(e.args[0], env)
                if isinstance(v, bool):
                    return v  # (whatever axes are reduced: one truth value)
                if isinstance(v, Table) and v.data and all(isinstance(x, bool) for x in v.data.values()) and (not e.keywords or self.generic):
                    ax_ = next((self.ev(k_.value, env) for k_ in e.keywords if k_.arg == "axis"), None)
                    if ax_ is None or (isinstance(ax_, (tuple, list)) and len(ax_) == len(v.shape)):
                        return all(v.data.values()) if name == "all" else any(v.data.values())
                if isinstance(v, (list, tuple)) and all(isinstance(x, bool) for x in v):
                    return all(v) if name == "all" else any(v)
            if name == "sum" and len(e.args) == 1 and isinstance(f, ast.Name):
                v = self.ev(e.args[0], env)
                if isinstance(v, (list, tuple)) and all(isinstance(x, int) and not isinstance(x, bool) for x in v):
                    return sum(v)
            if name in ("stack", "vstack") and e.args:
                v = self.ev(e.args[0], env)
                if isinstance(v, list) and v and all(isinstance(x, list) for x in v) and _numpy() is not None:
                    try:
                        arrs = [_numpy().array(x) for x in v]
                        if all(a_.dtype.kind == "i" for a_ in arrs):
                            axis_ = next((self.ev(k_.value, env) for k_ in e.keywords if k_.arg == "axis"), 0)
                            return _numpy().stack(arrs, axis=axis_).tolist()
                    except (ValueError, TypeError):
                        pass
                axis = 0
                for k_ in e.keywords:
                    if k_.arg == "axis":
                        axis = self.ev(k_.value, env)
                if len(e.args) > 1:
                    axis = self.ev(e.args[1], env)
                if isinstance(v, list) and v and all(isinstance(x, Table) and len(x.shape) == 1 for x in v) and axis in (0, -2):
                    return _stack_rows(v)
                if isinstance(v, list) and v and all(isinstance(x, Table) and len(x.shape) == 1 for x in v) and axis in (1, -1):
                    t_ = _stack_rows(v)
                    return Table((t_.shape[1], t_.shape[0]), {(j, i): x for (i, j), x in t_.data.items()})
            if name == "broadcast_arrays":
                vals = [self.ev(a_, env) for a_ in e.args]
                if vals and all(isinstance(x, Table) and x.shape == vals[0].shape for x in vals):
                    return vals
            if name == "len" and len(e.args) == 1:
                v = self.ev(e.args[0], env)
                if isinstance(v, Table):
                    return v.shape[0]
                if isinstance(v, (list, tuple)):
                    return len(v)
                if isinstance(v, PointSym):
                    return v.dim + 1
        if name in ("det", "adjugate") and len(e.args) == 1:
            v = self.ev(e.args[0], env)
            t = _stack_rows([self.num(x) for x in v]) if isinstance(v, list) else self.num(v)
            if isinstance(t, Table) and len(t.shape) >= 3 and name == "det":
                lead = t.shape[:-2]
                return Table(lead, {idx_: _det_table(Table(t.shape[-2:], {(i, j): t.data[idx_ + (i, j)] for i in range(t.shape[-2]) for j in range(t.shape[-1])}))
                                    for idx_ in itertools.product(*[range(n_) for n_ in lead])})
            if isinstance(t, Table) and len(t.shape) == 3 and name == "adjugate":
                parts = [_adjugate_table(t.get(i)) for i in range(t.shape[0])]
                return Table((len(parts),) + parts[0].shape, {(i,) + k_: x_ for i, p_ in enumerate(parts) for k_, x_ in p_.data.items()})
            if isinstance(t, Table):
                return _det_table(t) if name == "det" else _adjugate_table(t)
        if name == "cross" and len(e.args) == 2:
            a, b = self.num(self.ev(e.args[0], env)), self.num(self.ev(e.args[1], env))
            if isinstance(a, Table) and isinstance(b, Table) and a.shape == b.shape == (3,):
                def c(i, j):
                    return a.data[(i,)] * b.data[(j,)] - a.data[(j,)] * b.data[(i,)]
                return Table((3,), {(0,): c(1, 2), (1,): c(2, 0), (2,): c(0, 1)})
        if name == "outer" and len(e.args) == 2:
            a, b = self.num(self.ev(e.args[0], env)), self.num(self.ev(e.args[1], env))
            if isinstance(a, Table) and isinstance(b, Table) and len(a.shape) == len(b.shape) == 1:
                return Table((a.shape[0], b.shape[0]), {(i, j): a.data[(i,)] * b.data[(j,)] for i in range(a.shape[0]) for j in range(b.shape[0])})
        if name == "roots" and len(e.args) == 1:
            v = self.ev(e.args[0], env)
            if isinstance(v, list) and 2 <= len(v) <= 4:
                return RootsOf([self.lp(x) for x in v])
        if (name in ("Conic", "Quadric", "cls", "QuadricTensor", "type") or name in self.quadric_ctors) and e.args:
            v = self.ev(e.args[0], env)
            if isinstance(v, Table):
                return QuadricSym(v)
        if isinstance(f, ast.Attribute) and name in ("dot",) and len(e.args) == 1:
            return _dot(self.num(self.ev(f.value, env)), self.num(self.ev(e.args[0], env)))
        if isinstance(f, ast.Attribute) and name == "reshape" and e.args:
            v = self.ev(f.value, env)
            shp = self.ev(e.args[0], env) if len(e.args) == 1 else [self.ev(a_, env) for a_ in e.args]
            shp = tuple(shp) if isinstance(shp, (list, tuple)) else (shp,)
            if isinstance(v, Table) and len(v.shape) == 1 and shp in ((1, v.shape[0]), (1, -1)):
                return Table((1, v.shape[0]), {(0, i): v.data[(i,)] for i in range(v.shape[0])})
            if isinstance(v, Table) and shp == v.shape:
                return v
            if isinstance(v, Table) and _numpy() is not None and all(isinstance(x_, int) for x_ in shp):
                try:
                    return _from_np(_to_np(v).reshape(shp), base=v.base if v.base is not None else v)
                except ValueError:
                    pass
        if isinstance(f, ast.Attribute) and name == "copy" and not e.args:
            v = self.ev(f.value, env)
            return v.copy() if isinstance(v, Table) else v
        # a helper of the package (module-level function): interpreted with the evaluated arguments
        if isinstance(f, ast.Name) and self.depth < 4:
            helper = self.prog.find_func(name)
            if helper is not None and helper.cls is None and helper.parent is None and name not in ("dist", "angle", "det", "adjugate", "outer", "roots", "inv", "matmul", "matvec"):
                return self.call_helper(helper, e, env)
        if name == "dist" and len(e.args) == 2:
            a, b = self.ev(e.args[0], env), self.ev(e.args[1], env)
            if isinstance(a, PointSym) and isinstance(b, PointSym):
                if a.at_infinity or b.at_infinity:
                    self.heights.add("h")
                    return LP.sym("h")  # infinite: only its being infinite is used
                inner = LP()
                for x_, y_ in zip(list(a.normalized().data.values())[:-1], list(b.normalized().data.values())[:-1]):
                    inner = inner + (x_ - y_) * (x_ - y_)
                atom = self.sqrt_atom(inner)
                self.heights.add(next(iter(atom.t))[0][0])
                return atom  # the distance of the two points: an atom h with h^2 = |a - b|^2
        return Opaque(f"call {name}")

    def structural(self, name: str, e: ast.Call, env: dict):
        """numpy functions that only MOVE elements (no arithmetic): applied by numpy itself to the object array of polynomials / to integer index arrays"""
        np_ = _numpy()
        args = [self.ev(a_, env) for a_ in e.args]
        kw = {k_.arg: self.ev(k_.value, env) for k_ in e.keywords if k_.arg}

        def conv(v):
            if isinstance(v, Table):
                return _to_np(v)
            if isinstance(v, (list, tuple)) and v and all(isinstance(x, Table) for x in v):
                return [_to_np(x) for x in v]
            if isinstance(v, (int, tuple, list, range)) or v is None:
                return list(v) if isinstance(v, range) else v
            raise Unknown("argument of a structural numpy function")
        try:
            a_np = [conv(v) for v in args]
            kw_np = {k_: conv(v) for k_, v in kw.items()}
            # a tuple written as a tuple stays one (numpy tells an axis tuple from an index list)
            a_np = [tuple(v) if isinstance(node, ast.Tuple) and isinstance(v, list) else v for v, node in zip(a_np, e.args)]
            kw_np = {k_.arg: (tuple(kw_np[k_.arg]) if isinstance(k_.value, ast.Tuple) and isinstance(kw_np[k_.arg], list) else kw_np[k_.arg]) for k_ in e.keywords if k_.arg}
            if name == "indices":
                res = np_.indices(*a_np, **kw_np)
                if res.size == 0:
                    return ()  # np.indices(()): nothing to enumerate, tuple(...) of it is empty
                return res.tolist()
            res = getattr(np_, name)(*a_np, **kw_np)
        except Unknown:
            return None
        except Exception as ex:  # noqa: BLE001
            raise Unknown(f"np.{name}: {ex}") from None
        if isinstance(res, np_.ndarray) and res.dtype == object:
            return _from_np(res)
        if isinstance(res, np_.ndarray) and res.dtype.kind == "i":
            return res.tolist()
        if isinstance(res, tuple) and all(isinstance(x, np_.ndarray) and x.dtype.kind == "i" for x in res):
            return tuple(x.tolist() for x in res)
        return None

    def run_method(self, m: FunctionInfo, recv, args: list, kwargs: dict):
        m = self.prog.body_of(m)
        names = [x.arg for x in m.node.args.args]
        if m.is_staticmethod:
            # obj.helper(a, b) on a static method binds a, b to the parameters: there is no receiver
            env2 = dict(zip(names, args))
        elif m.is_classmethod:
            env2 = {names[0]: Opaque("the class")} if names else {}
            for nm, v in zip(names[1:], args):
                env2[nm] = v
        else:
            env2 = {names[0]: recv} if names else {}
            for nm, v in zip(names[1:], args):
                env2[nm] = v
        env2.update(kwargs)
        # parameters the call leaves out take their defaults
        a_ = m.node.args
        for nm, d in zip(names[len(names) - len(a_.defaults):], a_.defaults):
            if nm not in env2:
                try:
                    env2[nm] = self.ev(d, {})
                except (Unknown, NotPolynomial):
                    env2[nm] = Opaque("default")
        for kwarg, d in zip(a_.kwonlyargs, a_.kw_defaults):
            if kwarg.arg not in env2 and d is not None:
                try:
                    env2[kwarg.arg] = self.ev(d, {})
                except (Unknown, NotPolynomial):
                    env2[kwarg.arg] = Opaque("default")
        sub = Interp(self.prog, self.cls, self.assume)
        sub.depth = self.depth + 1
        sub.owner = m.cls  # the class whose method body runs: `super().name(...)` continues along its MRO
        sub.infinite, sub.quadric_ctors = self.infinite, self.quadric_ctors
        sub.trig, sub.rules, sub.hooks, sub.heights, sub.ratio_mode, sub.generic = self.trig, self.rules, self.hooks, self.heights, self.ratio_mode, self.generic
        sub.module_constants, sub._const_cache = self.module_constants, self._const_cache
        sub.complex_mode = self.complex_mode
        try:
            sub.block(m.node.body, env2)
        except _Done as d:
            return d.matrix
        except _Raise:
            if self.generic:
                raise
            return Opaque("the method raises")
        return None

    def sqrt_atom(self, inner: LP) -> LP:
        """sqrt(inner), the principal (non-negative) root, as an atom with the relation atom^2 = inner"""
        if inner.is_zero():
            return LP()
        if len(inner.t) == 1 and () in inner.t:
            c = inner.t[()]
            for k in range(0, 13):
                if Fraction(k * k) == c:
                    return LP.const(k)
        key = f"sqrt({inner.show()})"
        if key not in self.rules:
            self.rules[key] = (2, inner)
            self.resolve_all()
        return LP.sym(key)

    def resolve_all(self) -> None:
        for k in [k for k, (p_, _v) in self.rules.items() if p_ == 2 and k.startswith("sqrt(")]:
            self.resolve_atom(k)

    def resolve_atom(self, key: str) -> None:
        """a root whose radicand is the square of a quotient of OTHER non-negative atoms is that quotient (sqrt(1 - z^2/D^2) = N/D when D^2 - z^2 = N^2):
        both sides are non-negative and their squares agree. A radicand that is the square of a SIGNED quantity (z^2/D^2) is left alone: the root is |z|/D."""
        w = self.rules[key][1]
        others = [a for a in self.rules if a != key and a.startswith("sqrt(") and self.rules[a][0] == 2]
        cands = [LP.const(1)] + [LP.sym(a) for a in others]
        for num in cands:
            for den in cands:
                if num is den:
                    continue
                m = num * den.inverse()
                rules = {a: self.rules[a] for a in others}
                if zero_mod(w - m * m, rules):
                    self.rules[key] = (1, m)
                    return

    def call_helper(self, helper: FunctionInfo, e: ast.Call, env: dict):
        helper = self.prog.body_of(helper)
        a = helper.node.args
        names = [x.arg for x in a.args]
        env2: dict = {}
        extra: list = []
        positional: list = []
        for arg in e.args:
            if isinstance(arg, ast.Starred):
                try:
                    v_ = self.ev(arg.value, env)
                except (Unknown, NotPolynomial):
                    return Opaque("star arguments")
                if not isinstance(v_, (list, tuple)):
                    return Opaque("star arguments")
                positional += list(v_)  # f(*seq, x): the items of a known sequence take the positions in order
                continue
            try:
                positional.append(self.ev(arg, env))
            except (Unknown, NotPolynomial) as ex:
                if isinstance(ex, RaisedIn):
                    raise
                positional.append(Opaque(str(ex)))
        for i, val in enumerate(positional):
            if i < len(names):
                env2[names[i]] = val
            else:
                extra.append(val)
        if extra and a.vararg is None:
            return Opaque("too many arguments")
        if a.vararg is not None:
            env2[a.vararg.arg] = extra
        for k in e.keywords:
            if k.arg is None:
                return Opaque("star arguments")
            try:
                env2[k.arg] = self.ev(k.value, env)
            except (Unknown, NotPolynomial) as ex:
                env2[k.arg] = Opaque(str(ex))
        defaults = a.defaults
        for i, d in enumerate(defaults):
            nm = names[len(names) - len(defaults) + i]
            if nm not in env2:
                try:
                    env2[nm] = self.ev(d, {})
                except (Unknown, NotPolynomial):
                    env2[nm] = Opaque("default")
        for kwarg, d in zip(a.kwonlyargs, a.kw_defaults):
            if kwarg.arg not in env2 and d is not None:
                try:
                    env2[kwarg.arg] = self.ev(d, {})
                except (Unknown, NotPolynomial):
                    env2[kwarg.arg] = Opaque("default")
        sub = Interp(self.prog, self.cls, self.assume)
        sub.depth = self.depth + 1
        sub.infinite, sub.quadric_ctors = self.infinite, self.quadric_ctors
        sub.trig, sub.rules, sub.hooks, sub.heights, sub.generic = self.trig, self.rules, self.hooks, self.heights, self.generic
        sub.module_constants, sub._const_cache = self.module_constants, self._const_cache
        sub.complex_mode = self.complex_mode
        try:
            sub.block(helper.node.body, env2)
        except _Done as d:
            if sub.roots is not None:
                self.roots = sub.roots
            return d.matrix
        except _Raise:
            if self.generic:
                raise  # on symbolic arguments in general position every decided test is the test of the run: the helper's raise is the caller's
            return Opaque("the helper raises")
        return None

    # ---- tests
    def test(self, t: ast.expr, env: dict) -> bool:
        """decides the tests that select the case under analysis (self.assume): `isinf(height)`, `isinf(opening)`, `axis != new_axis`"""
        if isinstance(t, ast.UnaryOp) and isinstance(t.op, ast.Not):
            return not self.test(t.operand, env)
        if isinstance(t, ast.BoolOp):
            vals = [self.test(v, env) for v in t.values]
            return all(vals) if isinstance(t.op, ast.And) else any(vals)
        if isinstance(t, ast.Compare) and len(t.ops) == 1 and isinstance(t.ops[0], (ast.Eq, ast.NotEq)) and self.assume.get("distinct"):
            # the objects handed to the function are pairwise different by assumption: `a == b` between two of them is false
            try:
                l_, r_ = self.ev(t.left, env), self.ev(t.comparators[0], env)
            except (Unknown, NotPolynomial):
                l_ = r_ = None
            if isinstance(l_, (SymObject, PointSym)) and isinstance(r_, (SymObject, PointSym)):
                return (l_ is r_) != isinstance(t.ops[0], ast.NotEq)  # ... and an object is equal to itself
        is_isinf = isinstance(t, ast.Call) and (t.func.attr if isinstance(t.func, ast.Attribute) else getattr(t.func, "id", "")) == "isinf"
        if isinstance(t, (ast.Name, ast.Attribute, ast.Compare)) or (isinstance(t, ast.Call) and not is_isinf):
            try:
                v = self.ev(t, env)
            except (Unknown, NotPolynomial):
                v = None
            if isinstance(v, bool):
                return v
        if isinstance(t, (ast.BinOp, ast.Name, ast.Constant)):
            # the truth of a python integer / None the code computes itself (`if power & 1:`, `while n:`)
            try:
                v = self.ev(t, env)
            except (Unknown, NotPolynomial):
                v = Opaque("")
            if v is None or (isinstance(v, int) and not isinstance(v, bool)):
                return bool(v)
        if isinstance(t, ast.Call) and (t.func.attr if isinstance(t.func, ast.Attribute) else getattr(t.func, "id", "")) == "isinf" and len(t.args) == 1:
            v = self.ev(t.args[0], env)
            if isinstance(v, LP) and len(v.t) == 1:
                (k, _c), = v.t.items()
                hs = [(s_, e_) for s_, e_ in k if s_ in self.heights]
                if len(k) == 1 and hs and hs[0][1] == 1 and "h_infinite" in self.assume:
                    if self.assume["h_infinite"]:
                        self.infinite.add(hs[0][0])
                    return self.assume["h_infinite"]
                if hs and hs[0][1] < 0:
                    return False  # infinite only for height 0: a degenerate cone, not the case under analysis
                if hs and hs[0][1] > 0 and "h_infinite" in self.assume:
                    return self.assume["h_infinite"]
        if isinstance(t, ast.Compare) and len(t.ops) == 1 and isinstance(t.ops[0], (ast.Eq, ast.NotEq)) and "rotate" in self.assume:
            l, r = self.ev(t.left, env), self.ev(t.comparators[0], env)
            if isinstance(l, Opaque) and isinstance(r, Opaque):
                return self.assume["rotate"] if isinstance(t.ops[0], ast.NotEq) else not self.assume["rotate"]
        self.undecided_tests.append(ast.unparse(t))
        raise Unknown(f"test `{ast.unparse(t)[:40]}`")

    # ---- statements
    def block(self, stmts: list, env: dict) -> None:
        for st in stmts:
            self.stmt(st, env)

    def stmt(self, st: ast.stmt, env: dict) -> None:
        if isinstance(st, ast.Expr):
            if isinstance(st.value, ast.Constant):
                return
            if isinstance(st.value, ast.Call):
                c = st.value
                if (isinstance(c.func, ast.Attribute) and c.func.attr == "__init__" and isinstance(c.func.value, ast.Call)
                        and isinstance(c.func.value.func, ast.Name) and c.func.value.func.id == "super"):
                    self.super_init(c, env)
                    return
                # a call for its effect (a helper that fills the buffer in place): interpreted; what is not read invalidates the tables it was handed
                try:
                    self.ev(c, env)
                except (Unknown, NotPolynomial) as ex_:
                    if isinstance(ex_, RaisedIn):
                        raise
                    pass
            return
        if isinstance(st, (ast.Import, ast.ImportFrom, ast.Pass)):
            return
        if isinstance(st, ast.With) and all(isinstance(i_.context_expr, ast.Call) and (getattr(i_.context_expr.func, "attr", "") == "errstate") for i_ in st.items):
            self.block(st.body, env)  # np.errstate only silences warnings
            return
        if isinstance(st, (ast.Raise, ast.Return)) and self.uncertain_flow is not None:
            raise Unknown(f"leaves the function after the undecided test `{self.uncertain_flow}`")
        if isinstance(st, ast.Raise):
            exc = st.exc.func if isinstance(st.exc, ast.Call) else st.exc
            raise _Raise(exc.id if isinstance(exc, ast.Name) else exc.attr if isinstance(exc, ast.Attribute) else "")
        if isinstance(st, ast.Return):
            try:
                v = self.ev(st.value, env) if st.value is not None else Opaque("returns None")
            except (Unknown, NotPolynomial) as ex:
                if isinstance(ex, RaisedIn):
                    raise  # a definite raise of interpreted library code is the raise of this statement
                v = Opaque(str(ex))
            raise _Done(v.matrix if isinstance(v, QuadricSym) else v)
        if isinstance(st, ast.If):
            # `if <validation>: raise`: the constructor is analysed for parameters that pass the validation
            if len(st.body) == 1 and isinstance(st.body[0], ast.Raise) and not st.orelse:
                if self.generic:
                    # symbolic arguments (E19.join / E19.act): a validation whose test is decided and true does raise
                    try:
                        if self.test(st.test, env) is True:
                            self.block(st.body, env)
                    except (Unknown, NotPolynomial) as ex_:
                        if isinstance(ex_, RaisedIn):
                            raise
                        pass
                return
            try:
                t = self.test(st.test, env)
            except Unknown as ex_t:
                if isinstance(ex_t, RaisedIn):
                    raise
                # both arms: whatever either may write is no longer known
                self.forget_written(st, env, "written under an undecided test")
                if any(isinstance(x, (ast.Return, ast.Raise)) for x in ast.walk(st)):
                    # ... and an arm that leaves the function may or may not have been taken: no later return or raise is the function's for certain
                    self.uncertain_flow = ast.unparse(st.test)[:40]
                return
            self.block(st.body if t else st.orelse, env)
            return
        if isinstance(st, ast.Assign):
            try:
                v = self.ev(st.value, env)
            except (Unknown, NotPolynomial) as ex:
                if isinstance(ex, RaisedIn):
                    raise  # a definite raise of interpreted library code is the raise of this statement
                v = Opaque(str(ex))
            for t in st.targets:
                self.assign(t, v, env)
            return
        if isinstance(st, ast.AnnAssign):
            if st.value is not None:
                try:
                    v = self.ev(st.value, env)
                except (Unknown, NotPolynomial) as ex:
                    if isinstance(ex, RaisedIn):
                        raise  # a definite raise of interpreted library code is the raise of this statement
                    v = Opaque(str(ex))
                self.assign(st.target, v, env)
            return  # a bare annotation binds nothing
        if isinstance(st, ast.AugAssign) and isinstance(st.target, ast.Name) and isinstance(env.get(st.target.id), int) and not isinstance(env.get(st.target.id), bool) \
                and type(st.op) in _INT_OPS:
            # a python integer (a counter, an exponent) updated with an integer: computed
            try:
                v_ = self.ev(st.value, env)
            except (Unknown, NotPolynomial):
                v_ = None
            if isinstance(v_, int) and not isinstance(v_, bool):
                try:
                    env[st.target.id] = _INT_OPS[type(st.op)](env[st.target.id], v_)
                except (ValueError, ZeroDivisionError, OverflowError):
                    env[st.target.id] = Opaque("integer operation")
                return
        if isinstance(st, ast.While) and not st.orelse and not any(isinstance(x, (ast.Break, ast.Continue)) for x in ast.walk(st)):
            # a loop whose test is decided each time round (an integer counting down): unrolled, at most 64 times
            for _round in range(65):
                try:
                    go = self.test(st.test, env)
                except Unknown as ex_t:
                    if isinstance(ex_t, RaisedIn):
                        raise
                    go = None
                if go is False:
                    return
                if go is None or _round == 64:
                    break
                self.block(st.body, env)
            self.forget_written(st, env, "written in a loop whose test is not decided")
            if any(isinstance(x, (ast.Return, ast.Raise)) for x in ast.walk(st)):
                self.uncertain_flow = f"while statement at line {st.lineno}"
            return
        if isinstance(st, ast.AugAssign):
            ops = {ast.Add: lambda a, b: a + b, ast.Sub: lambda a, b: a - b, ast.Mult: lambda a, b: a * b, ast.Div: _div}
            if type(st.op) not in ops:
                self.forget_written(st, env, "augmented assignment that is not read")
                return
            try:
                v = self.num(self.ev(st.value, env))
                if isinstance(st.target, ast.Name):
                    cur0 = env.get(st.target.id, Opaque())
                    res = _binop(ops[type(st.op)], self.num(cur0), v)
                    if isinstance(cur0, Table) and isinstance(res, Table) and res.shape == cur0.shape:
                        cur0.data = res.data  # in place: every alias of the array sees it
                        if cur0.base is not None:
                            self.invalidate_object(cur0.base, env, "written through a view")
                    else:
                        env[st.target.id] = res
                elif isinstance(st.target, ast.Subscript) and isinstance(st.target.value, ast.Name) and isinstance(env.get(st.target.value.id), Table):
                    buf = env[st.target.value.id]
                    if buf.base is not None:
                        self.invalidate_object(buf.base, env, "written through a view")
                    idx = self.index(st.target.slice, env)
                    cur = buf.get(idx)
                    buf.set(idx, _binop(ops[type(st.op)], cur, v))
                else:
                    self.forget_written(st, env, "augmented assignment through a target that is not read")
            except (Unknown, NotPolynomial) as ex:
                if isinstance(ex, RaisedIn):
                    raise  # a definite raise of interpreted library code is the raise of this statement
                name = st.target.id if isinstance(st.target, ast.Name) else st.target.value.id if isinstance(st.target, ast.Subscript) and isinstance(st.target.value, ast.Name) else None
                if name:
                    env[name] = Opaque(str(ex))
            return
        if isinstance(st, ast.For) and not st.orelse and not any(isinstance(x, (ast.Break, ast.Continue)) for x in ast.walk(st)):
            # a loop over a sequence that is known: unrolled
            try:
                seq = self.ev(st.iter, env)
            except (Unknown, NotPolynomial) as ex_:
                if isinstance(ex_, RaisedIn):
                    raise
                seq = None
            if isinstance(seq, Table) and len(seq.shape) >= 1:
                seq = [seq.get(i) for i in range(seq.shape[0])]
            if isinstance(seq, (list, tuple, range)) and len(seq) <= 32:
                for item in seq:
                    self.assign(st.target, item, env)
                    self.block(st.body, env)
                return
        # loops, with, try, del ...: whatever they may write is no longer known
        self.forget_written(st, env, "written in a statement outside the vocabulary")
        if any(isinstance(x, (ast.Return, ast.Raise)) for x in ast.walk(st)):
            self.uncertain_flow = f"{type(st).__name__.lower()} statement at line {st.lineno}"

    def assign(self, t: ast.expr, v, env: dict) -> None:
        if isinstance(t, ast.Name):
            env[t.id] = v
            return
        if isinstance(t, (ast.Tuple, ast.List)):
            if isinstance(v, Table) and len(v.shape) >= 1 and v.shape[0] == len(t.elts):
                v = [v.get(i) for i in range(v.shape[0])]
            vals = v if isinstance(v, (list, tuple)) and len(v) == len(t.elts) else [Opaque("unpacking")] * len(t.elts)
            for x, y in zip(t.elts, vals):
                self.assign(x, y, env)
            return
        if isinstance(t, ast.Subscript) and isinstance(t.value, ast.Name):
            buf = env.get(t.value.id)
            if isinstance(buf, Table) and buf.base is not None:
                self.invalidate_object(buf.base, env, "written through a view")
            if isinstance(buf, Table):
                try:
                    if isinstance(v, Opaque):
                        raise Unknown(v.why)
                    buf.set(self.index(t.slice, env), self.num(v))
                except (Unknown, NotPolynomial) as ex:
                    env[t.value.id] = Opaque(f"item assignment not read: {ex}")
            elif isinstance(buf, TensorSym):
                # item assignment on a library tensor (Tensor.__setitem__ writes into its array). The mask of a single object is one truth value:
                # true replaces the coordinates, false writes nothing; anything else is not read and the coordinates are no longer known
                try:
                    idx_ = self.index(t.slice, env)
                except (Unknown, NotPolynomial):
                    idx_ = None
                if idx_ is False:
                    return
                if idx_ is True and isinstance(v, TensorSym) and isinstance(v.array, Table) and isinstance(buf.array, Table) and v.array.shape == buf.array.shape:
                    buf.array = v.array.copy()
                elif idx_ is True and isinstance(v, Table) and isinstance(buf.array, Table) and v.shape == buf.array.shape:
                    buf.array = v.copy()
                else:
                    buf.array = Opaque("item assignment on a tensor that is not read")
            return
        if isinstance(t, ast.Attribute) and isinstance(t.value, ast.Name) and isinstance(env.get(t.value.id), SymObject):
            obj_ = env[t.value.id]
            if isinstance(obj_, ObjSym):
                obj_._attrs[t.attr] = v
            else:
                obj_.__dict__[t.attr] = v
            return
        # any other target (attribute of a table, nested subscripts): the tables it mentions are no longer known
        for x in ast.walk(t):
            if isinstance(x, ast.Name) and isinstance(env.get(x.id), Table):
                env[x.id] = Opaque("assignment through a target that is not read")

    @staticmethod
    def invalidate_object(obj, env: dict, why: str) -> None:
        for k_, v_ in list(env.items()):
            if v_ is obj:
                env[k_] = Opaque(why)

    def forget_written(self, st: ast.AST, env: dict, why: str) -> None:
        """everything a statement that is not interpreted may write: names it binds, buffers it indexes on the left, tables it hands to calls"""
        for x in ast.walk(st):
            if isinstance(x, ast.Name) and isinstance(x.ctx, ast.Store):
                env[x.id] = Opaque(why)
            elif isinstance(x, (ast.Subscript, ast.Attribute)) and isinstance(x.ctx, ast.Store):
                for y in ast.walk(x):
                    if isinstance(y, ast.Name) and isinstance(env.get(y.id), Table):
                        if env[y.id].base is not None:
                            self.invalidate_object(env[y.id].base, env, why)
                        env[y.id] = Opaque(why)
            elif isinstance(x, ast.Call):
                self.invalidate_args(x, env)

    def super_init(self, c: ast.Call, env: dict) -> None:
        args = []
        for a in c.args:
            try:
                args.append(self.ev(a, env))
            except (Unknown, NotPolynomial) as ex:
                args.append(Opaque(str(ex)))
        kwargs = {}
        for k in c.keywords:
            if k.arg is not None:
                try:
                    kwargs[k.arg] = self.ev(k.value, env)
                except (Unknown, NotPolynomial) as ex:
                    kwargs[k.arg] = Opaque(str(ex))
        # the next __init__ along the MRO
        mro = self.prog.mro(self.cls)
        nxt = None
        for k in mro[1:]:
            if "__init__" in k.methods:
                nxt = k
                break
        if nxt is None:
            raise _Done(Opaque("no base constructor"))
        fn = nxt.methods["__init__"]
        params = [a.arg for a in fn.node.args.args][1:]
        if params and params[0] == "matrix":
            raise _Done(args[0] if args else kwargs.get("matrix", Opaque("no matrix")))
        # a parametrised base class (Circle -> Ellipse, Cylinder -> Cone): interpret its constructor with the evaluated arguments
        sub = Interp(self.prog, nxt, self.assume)
        sub.infinite = self.infinite
        env2 = {}
        defaults = fn.node.args.defaults
        for i, p in enumerate(params):
            if i < len(args):
                env2[p] = args[i]
            elif p in kwargs:
                env2[p] = kwargs[p]
            else:
                env2[p] = Opaque("default argument")
        _ = defaults
        sub.block(fn.node.body, env2)
        raise _Done(Opaque("base constructor does not reach QuadricTensor.__init__"))


def run_ctor(prog: Program, cls: ClassInfo, env: dict, assume: dict[str, bool]):
    """the matrix handed to QuadricTensor.__init__ (a Table or Opaque), and the interpreter (for the infinite symbols of the path)"""
    it = Interp(prog, cls, assume)
    it.trig = True
    it.hooks = library_hooks(it)
    fn = prog.lookup(cls, "__init__")
    try:
        it.block(fn.node.body, env)
    except _Done as d:
        return d.matrix, it
    except _Raise:
        return Opaque("the path raises"), it
    return Opaque("QuadricTensor.__init__ is not reached"), it


def limit_infinite(t: Table, symbols: set[str]) -> Table:
    """h -> inf: monomials with a negative power of an infinite symbol vanish; a positive power is not a limit we take"""
    out = {}
    for k, v in t.data.items():
        terms = {}
        for mono, c in v.t.items():
            exps = [e for s_, e in mono if s_ in symbols]
            if any(e > 0 for e in exps):
                raise Unknown("a positive power of an infinite quantity")
            if any(e < 0 for e in exps):
                continue
            terms[mono] = c
        out[k] = LP(terms)
    return Table(t.shape, out)


def proportional_mod(got: Table, want: Table, rules: dict) -> tuple[bool, str]:
    """got = lambda * want entry by entry, modulo the relations of the atoms (norms, distances)"""
    if got.shape != want.shape:
        return False, f"shape {got.shape}, expected {want.shape}"
    pivot = next((k for k in sorted(want.data) if not want.data[k].is_zero()), None)
    if pivot is None or zero_mod(got.data[pivot], rules):
        return False, f"entry {pivot} vanishes"
    for k in sorted(want.data):
        if k[0] > k[1] and (k[1], k[0]) in want.data and (want.data[k] - want.data[(k[1], k[0])]).is_zero() and (got.data[k] - got.data[(k[1], k[0])]).is_zero():
            continue  # symmetric pair already compared
        if not zero_mod(got.data[k] * want.data[pivot] - want.data[k] * got.data[pivot], rules):
            return False, f"entry {k} is not in the ratio of the locus to entry {pivot}"
    return True, ""


def general_cone_matrix(v: list, d: list, r: LP) -> Table:
    """(x - v)^T (|d|^4 I - (|d|^2 + r^2) d d^T) (x - v) = 0: the double cone with apex v, axis direction d and opening r / |d|"""
    dd = LP()
    for x in d:
        dd = dd + x * x
    q = [[(dd * dd if i == j else LP()) - (dd + r * r) * d[i] * d[j] for j in range(3)] for i in range(3)]
    return _bordered(q, v, LP())


def general_cylinder_matrix(b: list, e: list, r: LP) -> Table:
    """(x - b)^T (|e|^2 I - e e^T) (x - b) = r^2 |e|^2: the cylinder of radius r about the line through b with direction e"""
    ee = LP()
    for x in e:
        ee = ee + x * x
    q = [[(ee if i == j else LP()) - e[i] * e[j] for j in range(3)] for i in range(3)]
    return _bordered(q, b, r * r * ee)


def _bordered(q: list, p: list, offset: LP) -> Table:
    qp = [sum((q[i][j] * p[j] for j in range(3)), LP()) for i in range(3)]
    corner = sum((p[i] * qp[i] for i in range(3)), LP()) - offset
    rows = [[q[i][j] for j in range(3)] + [-qp[i]] for i in range(3)] + [[-qp[j] for j in range(3)] + [corner]]
    return Table((4, 4), {(i, j): rows[i][j] for i in range(4) for j in range(4)})


def proportional(got: Table, want: Table) -> tuple[bool, str]:
    if got.shape != want.shape:
        return False, f"shape {got.shape}, expected {want.shape}"
    pivot = next((k for k in sorted(want.data) if not want.data[k].is_zero()), None)
    if pivot is None:
        return False, "reference is zero"
    if got.data[pivot].is_zero():
        return False, f"entry {pivot} is 0, the locus has {want.data[pivot].show()} there"
    for k in sorted(want.data):
        lhs = got.data[k] * want.data[pivot]
        rhs = want.data[k] * got.data[pivot]
        if not (lhs - rhs).is_zero():
            ratio_note = f"entry {k} is {got.data[k].show()[:70]} where entry {pivot} is {got.data[pivot].show()[:50]}; the locus has {want.data[k].show()[:70]} against {want.data[pivot].show()[:50]}"
            return False, ratio_note
    return True, ""


def _sym(name: str) -> LP:
    return LP.sym(name)


def sphere_matrix(n: int, centre: list[LP], r: LP) -> Table:
    def entry(idx):
        i, j = idx
        if i < n and j < n:
            return LP.const(1 if i == j else 0)
        if i == n and j == n:
            out = -(r * r)
            for c in centre:
                out = out + c * c
            return out
        return -centre[min(i, j)]
    return Table.full((n + 1, n + 1), entry)


def ellipse_matrix(cx: LP, cy: LP, h: LP, v: LP) -> Table:
    h2, v2 = h * h, v * v
    rows = [[v2, LP.const(0), -(v2 * cx)], [LP.const(0), h2, -(h2 * cy)], [-(v2 * cx), -(h2 * cy), v2 * cx * cx + h2 * cy * cy - h2 * v2]]
    return Table((3, 3), {(i, j): rows[i][j] for i in range(3) for j in range(3)})


def cone_matrix(vx: LP, vy: LP, vz: LP, c: LP) -> Table:
    z = LP.const(0)
    rows = [[LP.const(1), z, z, -vx], [z, LP.const(1), z, -vy], [z, z, -c, c * vz], [-vx, -vy, c * vz, vx * vx + vy * vy - c * vz * vz]]
    return Table((4, 4), {(i, j): rows[i][j] for i in range(4) for j in range(4)})


def cylinder_matrix(bx: LP, by: LP, r: LP) -> Table:
    z = LP.const(0)
    rows = [[LP.const(1), z, z, -bx], [z, LP.const(1), z, -by], [z, z, z, z], [-bx, -by, z, bx * bx + by * by - r * r]]
    return Table((4, 4), {(i, j): rows[i][j] for i in range(4) for j in range(4)})


def rule_quadrics(run: Run, prog: Program) -> int:
    run.rule("E19", "the matrix that Circle / Ellipse / Sphere / Cone hand to QuadricTensor.__init__, read off the constructor as a table of polynomials "
                    "in the centre coordinates and the radii, is proportional entry by entry to the matrix of the Cartesian locus the parameters describe")
    n = 0
    cases = []
    r, h, v = _sym("r"), _sym("hr"), _sym("vr")
    for name, dims in (("Sphere", (2, 3)), ("Circle", (2,)), ("Ellipse", (2,)), ("Cone", (3,))):
        cls = prog.find_cls(name)
        if cls is None or prog.lookup(cls, "__init__") is None:
            run.add("E19", name, "locus", UNDECIDED, f"{name}.__init__ not found", "")
            continue
        fn = prog.lookup(cls, "__init__")
        params = [a.arg for a in fn.node.args.args][1:]
        for dim in dims:
            if name == "Sphere" and len(params) >= 2:
                env = {params[0]: PointSym("c", dim), params[1]: r}
                want = sphere_matrix(dim, [_sym(f"c{i}") for i in range(dim)], r)
                cases.append((cls, fn, f"Sphere in dimension {dim}", env, {}, want, None))
            elif name == "Circle" and len(params) >= 2:
                env = {params[0]: PointSym("c", 2), params[1]: r}
                cases.append((cls, fn, "Circle", env, {}, ellipse_matrix(_sym("c0"), _sym("c1"), r, r), None))
            elif name == "Ellipse" and len(params) >= 3:
                env = {params[0]: PointSym("c", 2), params[1]: h, params[2]: v}
                cases.append((cls, fn, "Ellipse", env, {}, ellipse_matrix(_sym("c0"), _sym("c1"), h, v), None))
            elif name == "Cone" and len(params) >= 3:
                env = {params[0]: PointSym("v", 3), params[1]: PointSym("b", 3), params[2]: r}
                vs, bs = [_sym(f"v{i}") for i in range(3)], [_sym(f"b{i}") for i in range(3)]
                hh = LP()
                for x_, y_ in zip(vs, bs):
                    hh = hh + (x_ - y_) * (x_ - y_)
                hatom = LP.sym(f"sqrt({hh.show()})")
                c = r * r * hatom.power(-2)
                cases.append((cls, fn, "Cone with the base centre above the vertex (finite height)", dict(env), {"h_infinite": False, "rotate": False},
                              cone_matrix(vs[0], vs[1], vs[2], c), None))
                cases.append((cls, fn, "Cone with the vertex at infinity on the z-axis (cylinder)", dict(env), {"h_infinite": True, "rotate": False},
                              cylinder_matrix(bs[0], bs[1], r), "h"))
                ds = [_sym(f"d{i}") for i in range(3)]  # the base centre is written as vertex + d: the polynomials stay small
                env_g = {params[0]: PointSym("v", 3), params[1]: PointSym("b", 3, coords=[x_ + y_ for x_, y_ in zip(vs, ds)]), params[2]: r}
                cases.append((cls, fn, "Cone with a general axis direction (finite height)", env_g, {"h_infinite": False, "rotate": True},
                              general_cone_matrix(vs, ds, r), None))
                env_c = {params[0]: PointSym("e", 3, at_infinity=True), params[1]: PointSym("b", 3), params[2]: r}
                cases.append((cls, fn, "Cone with the vertex at infinity in a general direction (cylinder)", env_c, {"h_infinite": True, "rotate": True},
                              general_cylinder_matrix(bs, [_sym(f"e{i}") for i in range(3)], r), "h"))
    for cls, fn, label, env, assume, want, _inf in cases:
        n += 1
        loc = f"{fn.module.rel}:{fn.node.lineno}"
        try:
            got, it = run_ctor(prog, cls, env, assume)
            if isinstance(got, Opaque):
                run.add("E19", f"{cls.name}.__init__", label, UNDECIDED, f"the matrix is not read as a table of polynomials: {got.why[:120]}", loc)
                continue
            if not isinstance(got, Table):
                run.add("E19", f"{cls.name}.__init__", label, UNDECIDED, "the matrix is not an array built in the constructor", loc)
                continue
            it.resolve_all()
            if it.infinite:
                got = limit_infinite(got, it.infinite)
            ok, why = proportional_mod(got, want, it.rules) if it.rules else proportional(got, want)
        except (Unknown, NotPolynomial, RecursionError) as ex:
            run.add("E19", f"{cls.name}.__init__", label, UNDECIDED, f"not read: {str(ex)[:120]}", loc)
            continue
        if ok:
            run.add("E19", f"{cls.name}.__init__", label, PROVEN, f"the {want.shape[0]}x{want.shape[1]} matrix is proportional to the matrix of the locus", loc)
        else:
            run.add("E19", f"{cls.name}.__init__", label, VIOLATION, f"the matrix is not a multiple of the matrix of the locus: {why}", loc)
    return n


# ---------------------------------------------------------------------------------------------- conics through points; degenerate quadrics; the pencil
def run_function(prog: Program, fn: FunctionInfo, cls: ClassInfo, env: dict, body: list | None = None):
    """the value a classmethod / method returns for symbolic arguments (a Table, an LP, Opaque ...) and the interpreter"""
    it = Interp(prog, cls, {})
    it.quadric_ctors = {c.name for c in prog.classes.values() if prog.find_cls("QuadricTensor") is not None and prog.is_subclass(c, prog.find_cls("QuadricTensor"))}
    try:
        it.block(body if body is not None else fn.node.body, env)
    except _Done as d:
        return d.matrix, it
    except _Raise:
        return Opaque("the path raises"), it
    return Opaque("no value is returned"), it


def _quadratic_form(m: Table, p: Table) -> LP:
    out = LP()
    n = p.shape[0]
    for i in range(n):
        for j in range(n):
            out = out + p.data[(i,)] * m.data[(i, j)] * p.data[(j,)]
    return out


def rule_conics(run: Run, prog: Program) -> int:
    run.rule("E19.pts", "Conic.from_points and Conic.from_crossratio, read as tables of polynomials in the coordinates of their points, contain those points: "
                        "p^T M p vanishes identically for each of the five (four) points - also when one of them is a point at infinity")
    conic = prog.find_cls("Conic")
    n = 0
    if conic is None:
        return 0
    for name, npts, lead in (("from_points", 5, 0), ("from_crossratio", 4, 1)):
        fn = conic.methods.get(name)
        if fn is None:
            run.add("E19.pts", f"Conic.{name}", "contains its points", UNDECIDED, f"Conic.{name} not found", "")
            continue
        fn = prog.body_of(fn)
        params = [a.arg for a in fn.node.args.args][1:]
        if len(params) != npts + lead:
            run.add("E19.pts", fn.short, "contains its points", UNDECIDED, "signature changed", fn.loc)
            continue
        for at_inf in (None, npts - 1):
            env: dict = {}
            if lead:
                env[params[0]] = LP.sym("cr")
            pts = []
            for k, p in enumerate(params[lead:]):
                env[p] = PointSym(f"p{k}_", 2, at_infinity=(k == at_inf))
                pts.append(env[p])
            n += 1
            label = "contains its points" + ("" if at_inf is None else " (the last one at infinity)")
            try:
                m, _it = run_function(prog, fn, conic, env)
                if not isinstance(m, Table) or m.shape != (3, 3):
                    run.add("E19.pts", fn.short, label, UNDECIDED, f"the matrix is not read as a 3x3 table of polynomials: {getattr(m, 'why', type(m).__name__)[:100]}", fn.loc)
                    continue
                bad = []
                for k, p in enumerate(pts):
                    # judged on the normalised representative: the statement is projective, and fewer symbols keep the polynomials small
                    q = _quadratic_form(m, p.normalized() if name == "from_points" else p.raw())
                    if not q.is_zero():
                        bad.append((k, q))
            except (Unknown, NotPolynomial, RecursionError) as ex:
                run.add("E19.pts", fn.short, label, UNDECIDED, f"not read: {str(ex)[:100]}", fn.loc)
                continue
            sym = all((m.data[(i, j)] - m.data[(j, i)]).is_zero() for i in range(3) for j in range(3))
            if bad:
                k, q = bad[0]
                run.add("E19.pts", fn.short, label, VIOLATION,
                        f"argument {lead + k + 1} (`{params[lead + k]}`) does not lie on the conic: p^T M p is a polynomial with {len(q.t)} term(s), e.g. "
                        f"{LP(dict(list(q.t.items())[:2])).show()[:100]}, not 0 ({len(bad)} of {npts} points fail)", fn.loc)
            elif not sym:
                run.add("E19.pts", fn.short, label, VIOLATION, "the matrix is not symmetric: tangent, polar and dual read M as the symmetric matrix of the form", fn.loc)
            else:
                run.add("E19.pts", fn.short, label, PROVEN, f"p^T M p = 0 identically for all {npts} points; M is symmetric", fn.loc)
    return n


def rule_degenerate(run: Run, prog: Program) -> int:
    run.rule("E19.deg", "Conic.from_lines / QuadricTensor.from_planes build g h^T + h g^T (the quadric whose points are exactly the points of g and of h), and the "
                        "cubic whose root Conic.intersect(conic) takes is det(s A + B) for the member s A + B of the pencil it then decomposes")
    n = 0
    for cname, mname, dim in (("Conic", "from_lines", 2), ("QuadricTensor", "from_planes", 3), ("QuadricTensor", "from_planes", 2)):
        cls = prog.find_cls(cname)
        fn = cls.methods.get(mname) if cls else None
        if fn is None:
            run.add("E19.deg", f"{cname}.{mname}", "pair of hyperplanes", UNDECIDED, f"{cname}.{mname} not found", "")
            continue
        fn = prog.body_of(fn)
        params = [a.arg for a in fn.node.args.args][1:]
        if len(params) != 2:
            continue
        n += 1
        g = Table((dim + 1,), {(i,): LP.sym(f"g{i}") for i in range(dim + 1)})
        h = Table((dim + 1,), {(i,): LP.sym(f"h{i}") for i in range(dim + 1)})
        env = {params[0]: QuadricSym(g), params[1]: QuadricSym(h)}  # any object with an `.array`
        label = f"pair of hyperplanes (dimension {dim})"
        try:
            m, _it = run_function(prog, fn, cls, env)
            if not isinstance(m, Table) or m.shape != (dim + 1, dim + 1):
                run.add("E19.deg", fn.short, label, UNDECIDED, f"the matrix is not read as a table: {getattr(m, 'why', type(m).__name__)[:100]}", fn.loc)
                continue
            want = Table.full((dim + 1, dim + 1), lambda idx: g.data[(idx[0],)] * h.data[(idx[1],)] + h.data[(idx[0],)] * g.data[(idx[1],)])
            ok, why = proportional(m, want)
        except (Unknown, NotPolynomial) as ex:
            run.add("E19.deg", fn.short, label, UNDECIDED, f"not read: {str(ex)[:100]}", fn.loc)
            continue
        run.add("E19.deg", fn.short, label, PROVEN if ok else VIOLATION,
                "M = g h^T + h g^T: x^T M x = 2 (g.x)(h.x)" if ok else f"the matrix is not a multiple of g h^T + h g^T: {why}", fn.loc)
    # the pencil
    conic = prog.find_cls("Conic")
    fn = conic.methods.get("intersect") if conic else None
    if fn is not None:
        fn = prog.body_of(fn)
        block = None
        for node in ast.walk(fn.node):
            for field_ in ("body", "orelse"):
                stmts = getattr(node, field_, None)
                if isinstance(stmts, list) and any(isinstance(s_, ast.Assign) and any(isinstance(c, ast.Call) and (getattr(c.func, "id", None) == "roots" or getattr(c.func, "attr", None) == "roots")
                                                                                      for c in ast.walk(s_.value)) for s_ in stmts):
                    block = stmts
        params = [a.arg for a in fn.node.args.args]
        if block is None or len(params) < 2:
            run.add("E19.deg", fn.short, "pencil", UNDECIDED, "the cubic handed to roots() was not found", fn.loc)
        else:
            n += 1
            a_ = Table.full((3, 3), lambda idx: LP.sym(f"A{min(idx)}{max(idx)}"))
            b_ = Table.full((3, 3), lambda idx: LP.sym(f"B{min(idx)}{max(idx)}"))
            env = {params[0]: QuadricSym(a_), params[1]: QuadricSym(b_)}
            it = Interp(prog, conic, {})
            it.quadric_ctors = {"Conic"}
            member = None
            try:
                for st in block:
                    it.stmt(st, env)
                    if it.roots is not None and member is None:
                        for v in env.values():
                            if isinstance(v, QuadricSym) and v.matrix is not a_ and v.matrix is not b_:
                                member = v.matrix
                if it.roots is None or member is None:
                    run.add("E19.deg", fn.short, "pencil", UNDECIDED, "the member of the pencil built from the root was not read", fn.loc)
                else:
                    s_ = LP.sym("s")
                    poly = LP()
                    deg = len(it.roots.coeffs) - 1
                    for k, c in enumerate(it.roots.coeffs):
                        poly = poly + c * s_.power(deg - k)
                    resid = _det_table(member) - poly
                    if resid.is_zero():
                        run.add("E19.deg", fn.short, "pencil", PROVEN, "det(member of the pencil built from the root s) = the cubic handed to roots(), coefficient by coefficient: "
                                                                       "the member is degenerate", fn.loc)
                    else:
                        by_power: dict = {}
                        for mono, c in resid.t.items():
                            e_ = dict(mono).get("s", 0)
                            by_power[int(e_)] = by_power.get(int(e_), 0) + 1
                        run.add("E19.deg", fn.short, "pencil", VIOLATION,
                                f"det of the conic built from the root differs from the cubic handed to roots() in the coefficient(s) of s^{sorted(by_power)}: the "
                                f"conic that is decomposed into two lines is not degenerate", fn.loc)
            except (Unknown, NotPolynomial) as ex:
                run.add("E19.deg", fn.short, "pencil", UNDECIDED, f"not read: {str(ex)[:100]}", fn.loc)
    return n


# ---------------------------------------------------------------------------------------------- cross ratio (C11)
def _cr_repeated(run: Run, prog: Program, fn, label: str, env: dict, params: list) -> int:
    """crossratio(a, a, c, d) = 1 (the value given by the parameters for x1 = x2): the same object passed as the first two arguments"""
    env[params[1]] = env[params[0]]
    label = label + ", the first two arguments the same object"
    it = Interp(prog, None, {})
    it.ratio_mode = True
    it.generic = True
    it.hooks = {"matvec": lambda a_, k_: _dot(a_[0], a_[1]) if len(a_) == 2 and isinstance(a_[0], Table) and isinstance(a_[1], Table) else Opaque("matvec"),
                "is_collinear": lambda a_, k_: True, "is_concurrent": lambda a_, k_: True,
                "from_array": lambda a_, k_: LineObj(a_[-1]) if a_ and isinstance(a_[-1], Table) and a_[-1].shape == (3,) else Opaque("from_array")}
    it.assume = {"distinct": True}
    try:
        got = None
        try:
            it.block(fn.node.body, env)
        except _Done as d:
            got = d.matrix
        except _Raise as r:
            run.add("E19.cr", fn.short, label, VIOLATION, f"raises {r.name}: the cross ratio for x1 = x2 is 1", fn.loc)
            return 1
        one = None
        if isinstance(got, LP):
            one = (got - LP.const(1)).is_zero()
        elif isinstance(got, Table):
            one = all((v - LP.const(1)).is_zero() for v in got.data.values())
        elif isinstance(got, Ratio) and not got.den.is_zero():
            one = (got.num - got.den).is_zero()
        elif isinstance(got, Ratio):
            run.add("E19.cr", fn.short, label, VIOLATION, "the returned quotient is 0/0 (nan): the cross ratio for x1 = x2 is 1", fn.loc)
            return 1
        if one is None:
            run.add("E19.cr", fn.short, label, UNDECIDED, f"the returned value is not read: {getattr(got, 'why', type(got).__name__)[:90]}", fn.loc)
        else:
            run.add("E19.cr", fn.short, label, PROVEN if one else VIOLATION, "the returned value is 1" if one else "the returned value is not 1", fn.loc)
    except RaisedIn as r:
        run.add("E19.cr", fn.short, label, VIOLATION, f"raises {r.name}: the cross ratio for x1 = x2 is 1", fn.loc)
    except (Unknown, NotPolynomial, RecursionError) as ex:
        run.add("E19.cr", fn.short, label, UNDECIDED, f"not read: {str(ex)[:100]}", fn.loc)
    return 1


def rule_crossratio(run: Run, prog: Program) -> int:
    run.rule("E19.cr", "crossratio(a, b, c, d) of four points P + x_i Q of one line - in the plane, in the plane seen from a fifth point, and in 3-space - is "
                       "(x1 - x3)(x2 - x4) / ((x1 - x4)(x2 - x3)): the returned quotient of determinants, read as polynomials in P, Q and the parameters, "
                       "equals the closed form after cross-multiplication")
    fn = prog.find_func("crossratio")
    if fn is None:
        run.add("E19.cr", "crossratio", "closed form", UNDECIDED, "crossratio not found", "")
        return 0
    fn = prog.body_of(fn)
    params = [a.arg for a in fn.node.args.args]
    if len(params) < 4:
        run.add("E19.cr", fn.short, "closed form", UNDECIDED, "signature changed", fn.loc)
        return 0
    xs = [LP.sym(f"x{i}") for i in range(1, 5)]
    want_num = (xs[0] - xs[2]) * (xs[1] - xs[3])
    want_den = (xs[0] - xs[3]) * (xs[1] - xs[2])
    n = 0
    for label, dim, with_from in (("four points of a line in the plane", 2, False), ("four points of a line in the plane, seen from a fifth point", 2, True),
                                  ("four points of a line in 3-space", 3, False), ("four lines of the plane through one point, with slopes x_i", 2, "lines"),
                                  ("four parallel lines of the plane (a pencil with its vertex at infinity), with offsets x_i", 2, "parallel")):
        n += 1
        base = [LP.sym(f"p{i}") for i in range(dim)] + [LP.const(1)]
        direction = [LP.sym(f"q{i}") for i in range(dim)] + [LP.const(0)]
        env: dict = {}
        for k, x in enumerate(xs):
            if with_from == "lines":
                # the line through (p0, p1) with direction (1, x): x X - Y + (p1 - x p0) = 0
                env[params[k]] = LineObj(Table((3,), {(0,): x, (1,): LP.const(-1), (2,): base[1] - x * base[0]}))
                continue
            if with_from == "parallel":
                # l0 X + l1 Y + x = 0: the cross ratio of four lines of this pencil is the cross ratio of their offsets
                env[params[k]] = LineObj(Table((3,), {(0,): LP.sym("l0"), (1,): LP.sym("l1"), (2,): x}))
                continue
            coords = [b_ + x * d_ for b_, d_ in zip(base, direction)]
            pt = PointSym(f"pt{k}", dim, coords=coords[:-1])
            env[params[k]] = pt
        if len(params) > 4:
            env[params[4]] = PointSym("o", 2) if with_from is True else None
        n += _cr_repeated(run, prog, fn, label, dict(env), params)
        it = Interp(prog, None, {})
        it.ratio_mode = True
        it.generic = True  # the configuration is in general position within its family: a coordinate is zero only when it is the zero polynomial
        it.hooks = {"matvec": lambda a_, k_: _dot(a_[0], a_[1]) if len(a_) == 2 and isinstance(a_[0], Table) and isinstance(a_[1], Table) else Opaque("matvec"),
                    "is_collinear": lambda a_, k_: True, "is_concurrent": lambda a_, k_: True,
                    "from_array": lambda a_, k_: LineObj(a_[-1]) if a_ and isinstance(a_[-1], Table) and a_[-1].shape == (3,) else Opaque("from_array")}
        # the arguments are distinct points: `a == b` is false
        it.assume = {"distinct": True}
        loc = fn.loc
        try:
            got = None
            try:
                it.block(fn.node.body, env)
            except _Done as d:
                got = d.matrix
            except _Raise:
                got = Opaque("the path raises")
            if isinstance(got, Ratio):
                num, den = got.num, got.den
            elif isinstance(got, LP):
                num, den = got, LP.const(1)
            else:
                run.add("E19.cr", fn.short, label, UNDECIDED, f"the returned value is not read as a quotient of polynomials: {getattr(got, 'why', type(got).__name__)[:100]}", loc)
                continue
            resid = num * want_den - den * want_num
        except (Unknown, NotPolynomial, RecursionError) as ex:
            run.add("E19.cr", fn.short, label, UNDECIDED, f"not read: {str(ex)[:100]}", loc)
            continue
        if den.is_zero():
            run.add("E19.cr", fn.short, label, VIOLATION, "the denominator of the returned quotient vanishes identically for collinear points", loc)
        elif resid.is_zero():
            # the implementation must not be 0/0 on a whole coordinate hyperplane of legal configurations (base point or vertex on an axis)
            degenerate = []
            for sym_ in sorted({s_ for mono in den.t for s_, _e in mono if not s_.startswith("w_")} - {f"x{i}" for i in range(1, 5)}):
                d0 = LP({k_: v_ for k_, v_ in den.t.items() if sym_ not in dict(k_)})
                if d0.is_zero():
                    degenerate.append(sym_)
            if degenerate:
                run.add("E19.cr", fn.short, label, VIOLATION,
                        f"the quotient is the cross ratio for generic positions, but numerator and denominator both vanish whenever `{degenerate[0]}` = 0 "
                        f"(a coordinate of the base point / vertex): 0/0 = nan for every such configuration", loc)
            else:
                run.add("E19.cr", fn.short, label, PROVEN, "the quotient of determinants equals (x1 - x3)(x2 - x4) / ((x1 - x4)(x2 - x3)) identically, and its denominator "
                                                             "vanishes on no coordinate hyperplane of the configurations", loc)
        else:
            # which classical value is it, if any: the six values of the cross ratio under permutations
            lam_n, lam_d = want_num, want_den
            others = {"1/cr (c and d exchanged)": (lam_d, lam_n), "1 - cr (b and c exchanged)": (lam_d - lam_n, lam_d), "cr/(cr - 1)": (lam_n, lam_n - lam_d),
                      "1/(1 - cr)": (lam_d, lam_d - lam_n), "(cr - 1)/cr": (lam_n - lam_d, lam_n)}
            which = next((k_ for k_, (a_, b_) in others.items() if (num * b_ - den * a_).is_zero()), None)
            run.add("E19.cr", fn.short, label, VIOLATION,
                    "the returned quotient is not the cross ratio of the parameters" + (f": it is {which}" if which else f" (residual with {len(resid.t)} terms)"), loc)
    return n


# ---------------------------------------------------------------------------------------------- polygon measures (C17)
def rule_polygon_measures(run: Run, prog: Program) -> int:
    run.rule("E19.poly", "PolygonTensor.area and Polygon.centroid of a planar polygon with symbolic vertices (x_i, y_i), n = 3, 4, 5: the area is 1/2 |shoelace sum| and the "
                         "centroid is the area centroid (sum (p_i + p_{i+1}) cross_i : 3 sum cross_i), as polynomial identities in the vertex coordinates")
    n_ob = 0
    tensor = prog.find_cls("PolygonTensor")
    poly = prog.find_cls("Polygon")
    if tensor is None or poly is None:
        run.add("E19.poly", "Polygon", "measures", UNDECIDED, "Polygon / PolygonTensor not found", "")
        return 0
    for n in (3, 4, 5):
        xs, ys = [LP.sym(f"x{i}") for i in range(n)], [LP.sym(f"y{i}") for i in range(n)]
        pts = Table((n, 3), {(i, j): (xs[i] if j == 0 else ys[i] if j == 1 else LP.const(1)) for i in range(n) for j in range(3)})
        cross = [xs[i] * ys[(i + 1) % n] - xs[(i + 1) % n] * ys[i] for i in range(n)]
        shoelace = sum(cross, LP())
        cx = sum(((xs[i] + xs[(i + 1) % n]) * cross[i] for i in range(n)), LP())
        cy = sum(((ys[i] + ys[(i + 1) % n]) * cross[i] for i in range(n)), LP())
        for member, owner in (("area", tensor), ("centroid", poly)):
            fn = prog.lookup(owner, member)
            if fn is None:
                continue
            fn = prog.body_of(fn)
            n_ob += 1
            label = f"{member} of a planar polygon with {n} vertices"
            loc = fn.loc
            me = ObjSym(owner, array=pts, normalized_array=pts, dim=2, shape=(n, 3), free_indices=0)
            it = Interp(prog, owner, {})
            it.ratio_mode = True
            it.hooks = {**library_hooks(it), "_normalize_array": lambda a_, k_: a_[-1]}
            try:
                got = it.run_method(fn, me, [], {})
            except (Unknown, NotPolynomial, RecursionError) as ex:
                run.add("E19.poly", fn.short, label, UNDECIDED, f"not read: {str(ex)[:100]}", loc)
                continue
            if member == "area":
                if not isinstance(got, AbsVal):
                    run.add("E19.poly", fn.short, label, UNDECIDED, f"the returned value is not read as a multiple of an absolute value ({getattr(got, 'why', type(got).__name__)[:80]})", loc)
                    continue
                # scale * |inner| = 1/2 |shoelace|
                ok = any((got.inner * got.scale - shoelace * LP.const(Fraction(s_, 2))).is_zero() for s_ in (1, -1))
                if ok:
                    run.add("E19.poly", fn.short, label, PROVEN, "1/2 |sum of x_i y_{i+1} - x_{i+1} y_i|", loc)
                else:
                    run.add("E19.poly", fn.short, label, VIOLATION,
                            f"the area is {got.scale.show()} * |polynomial with {len(got.inner.t)} terms|, not 1/2 |shoelace sum| ({2 * n} terms): "
                            f"{'a vertex or a triangle of the fan is missing' if len(got.inner.t) < 2 * n else 'the sum is not the shoelace sum'}", loc)
            else:
                if not isinstance(got, PointObj) or got.array.shape != (3,):
                    run.add("E19.poly", fn.short, label, UNDECIDED, f"the returned value is not read as a point ({getattr(got, 'why', type(got).__name__)[:80]})", loc)
                    continue
                g = [got.array.data[(i,)] for i in range(3)]
                w = [cx, cy, shoelace * LP.const(3)]
                try:
                    ok = all(zero_mod(g[i] * w[j] - g[j] * w[i], it.rules) for i in range(3) for j in range(i + 1, 3)) and not g[2].is_zero()
                except NotPolynomial as ex:
                    run.add("E19.poly", fn.short, label, UNDECIDED, f"not read: {str(ex)[:100]}", loc)
                    continue
                if ok:
                    run.add("E19.poly", fn.short, label, PROVEN, "(sum (x_i + x_{i+1}) c_i : sum (y_i + y_{i+1}) c_i : 3 sum c_i), c_i = x_i y_{i+1} - x_{i+1} y_i", loc)
                else:
                    has_abs = any("abs(" in s_ for k_ in g for mono in k_.t for s_, _e in mono)
                    run.add("E19.poly", fn.short, label, VIOLATION,
                            "the returned point is not the area centroid of the polygon"
                            + (": the triangles of the fan are weighted by ABSOLUTE areas - right for convex polygons only, a reflex vertex makes a triangle of the fan negative" if has_abs else ""), loc)
    return n_ob


def rule_simplex_volume(run: Run, prog: Program) -> int:
    run.rule("E19.simplex", "Simplex.volume for symbolic vertices: with as many vertices as homogeneous coordinates it is |det| / (n-1)!, otherwise the Cayley-Menger "
                            "expression, whose radicand must be the squared length (2 vertices) or the squared area 1/4 (|u|^2 |v|^2 - (u.v)^2) (3 vertices in 3-space)")
    cls = prog.find_cls("Simplex")
    fn = prog.lookup(cls, "volume") if cls else None
    if fn is None:
        run.add("E19.simplex", "Simplex.volume", "volume", UNDECIDED, "Simplex.volume not found", "")
        return 0
    fn = prog.body_of(fn)
    n_ob = 0
    for n, k in ((2, 3), (2, 4), (3, 3), (3, 4), (4, 4)):
        n_ob += 1
        label = f"{n} vertices with {k} homogeneous coordinates"
        coords = [[LP.sym(f"{'abcd'[i]}{j}") for j in range(k - 1)] + [LP.const(1)] for i in range(n)]
        verts = [PointObj(Table((k,), {(j,): c for j, c in enumerate(row)})) for row in coords]
        me = ObjSym(cls, vertices=verts, dim=k - 1)
        it = Interp(prog, cls, {})
        it.ratio_mode = True
        it.hooks = {**library_hooks(it), "_normalize_array": lambda a_, k_: a_[-1]}
        try:
            got = it.run_method(fn, me, [], {})
        except (Unknown, NotPolynomial, RecursionError) as ex:
            run.add("E19.simplex", fn.short, label, UNDECIDED, f"not read: {str(ex)[:100]}", fn.loc)
            continue
        diffs = [[coords[i][j] - coords[0][j] for j in range(k - 1)] for i in range(1, n)]

        def dotp(u, v):
            return sum((a_ * b_ for a_, b_ in zip(u, v)), LP())
        if n == k:
            m = Table((n, n), {(i, j): coords[i][j] for i in range(n) for j in range(n)})
            fact = 1
            for q in range(2, n):
                fact *= q
            want = _det_table(m) * LP.const(Fraction(1, fact))
            if isinstance(got, AbsVal) and any((got.inner * got.scale - want * LP.const(s_)).is_zero() for s_ in (1, -1)):
                run.add("E19.simplex", fn.short, label, PROVEN, f"|det of the vertices| / {fact}", fn.loc)
            elif isinstance(got, AbsVal):
                run.add("E19.simplex", fn.short, label, VIOLATION, f"the volume is {got.scale.show()} * |det|, the simplex with {n} vertices has |det| / {fact}", fn.loc)
            else:
                run.add("E19.simplex", fn.short, label, UNDECIDED, f"the returned value is not read as a multiple of |det| ({getattr(got, 'why', type(got).__name__)[:80]})", fn.loc)
            continue
        if n == 2:
            want2 = dotp(diffs[0], diffs[0])
            what = "the squared distance of the two vertices"
        else:
            u, v = diffs
            want2 = (dotp(u, u) * dotp(v, v) - dotp(u, v) * dotp(u, v)) * LP.const(Fraction(1, 4))
            what = "the squared area 1/4 (|u|^2 |v|^2 - (u.v)^2) of the triangle"
        if isinstance(got, SqrtVal):
            if (got.inner - want2).is_zero():
                run.add("E19.simplex", fn.short, label, PROVEN, f"the radicand of the Cayley-Menger expression is {what}", fn.loc)
            else:
                ratio = None
                for c_ in (2, 4, Fraction(1, 2), Fraction(1, 4), -1, 8, Fraction(1, 8), 16, Fraction(1, 16)):
                    if (got.inner - want2 * LP.const(c_)).is_zero():
                        ratio = c_
                run.add("E19.simplex", fn.short, label, VIOLATION,
                        f"the radicand of the Cayley-Menger expression is not {what}" + (f": it is {ratio} times that" if ratio is not None else ""), fn.loc)
        else:
            run.add("E19.simplex", fn.short, label, UNDECIDED, f"the returned value is not read as a square root ({getattr(got, 'why', type(got).__name__)[:80]})", fn.loc)
    return n_ob


# ---------------------------------------------------------------------------------------------- components of a pair of hyperplanes (C15)
def _proportional_vec(u: Table, v: list, rules: dict) -> bool:
    n = len(v)
    if u.shape != (n,):
        return False
    if all(zero_mod(u.data[(i,)], rules) for i in range(n)):
        return False
    return all(zero_mod(u.data[(i,)] * v[j] - u.data[(j,)] * v[i], rules) for i in range(n) for j in range(i + 1, n))


def rule_components(run: Run, prog: Program) -> int:
    run.rule("E19.comp", "QuadricTensor.components of the matrix g h^T + h g^T of two symbolic hyperplanes (lines of the plane, planes of 3-space), interpreted for "
                         "every pivot the two argmax calls can select and for both signs of every square root of a perfect square: the two returned coefficient "
                         "vectors are multiples of g and h")
    cls = prog.find_cls("QuadricTensor")
    fn = prog.lookup(cls, "components") if cls else None
    if fn is None:
        run.add("E19.comp", "QuadricTensor.components", "pair of hyperplanes", UNDECIDED, "components not found", "")
        return 0
    fn = prog.body_of(fn)
    n_ob = 0
    for dim in (2, 3):
        n = dim + 1
        label = f"two {'lines of the plane' if dim == 2 else 'planes of 3-space'}"
        g = [LP.sym(f"g{i}") for i in range(n)]
        h = [LP.sym(f"h{i}") for i in range(n)]
        m = Table.full((n, n), lambda idx: g[idx[0]] * h[idx[1]] + h[idx[0]] * g[idx[1]])
        plucker = [g[a] * h[b] - g[b] * h[a] for a in range(n) for b in range(a + 1, n)]
        n_ob += 1
        cases = failures = unread = 0
        first_fail = first_unread = None
        # how many pivots the first argmax can choose from is not known before the code is read: try indices until one is out of range
        for pivot in range(n * (n - 1) // 2 if dim == 3 else n):
            if failures >= 40:
                break  # enough evidence; the count in the report is a lower bound
            for flat in range(n * n):
                picks = [pivot, flat]

                def argmax(_a, _k, picks=picks):
                    return picks.pop(0) if picks else Opaque("a third argmax")
                me = ObjSym(cls, array=m.copy(), shape=(n, n), dim=dim, is_dual=False, free_indices=0)
                it = Interp(prog, cls, {})
                it.trig = True
                it.generic = True
                it.hooks = {"argmax": argmax, "is_multiple": lambda a_, k_: True, "from_array": lambda a_, k_: a_[-1]}
                try:
                    got = it.run_method(fn, me, [], {})
                except (Unknown, NotPolynomial, RecursionError, IndexError) as ex:
                    unread += 1
                    first_unread = first_unread or str(ex)[:90]
                    continue
                if not (isinstance(got, list) and len(got) == 2 and all(isinstance(x, Table) and x.shape == (n,) for x in got)):
                    unread += 1
                    first_unread = first_unread or f"the returned value is not a pair of coefficient vectors ({getattr(got, 'why', type(got).__name__)[:60]})"
                    continue
                # the square roots of perfect squares: both signs occur
                roots_ = []
                for atom, (pw, val) in it.rules.items():
                    if pw == 2 and atom.startswith("sqrt("):
                        s_ = next((c for c in plucker if (c * c - val).is_zero()), None)
                        if s_ is None:
                            roots_ = None
                            break
                        roots_.append((atom, s_))
                if roots_ is None or len(roots_) > 6:
                    unread += 1
                    first_unread = first_unread or "a square root whose radicand is not the square of a Pluecker coordinate"
                    continue
                for signs in itertools.product((1, -1), repeat=len(roots_)):
                    rules = dict(it.rules)
                    for (atom, s_), sg in zip(roots_, signs):
                        rules[atom] = (1, s_ * LP.const(sg))
                    p_, q_ = got
                    # a pivot that is zero for this sign pattern cannot have been chosen by argmax
                    if all(zero_mod(x, rules) for x in p_.data.values()) and all(zero_mod(x, rules) for x in q_.data.values()):
                        continue
                    cases += 1
                    ok = (_proportional_vec(p_, g, rules) and _proportional_vec(q_, h, rules)) or (_proportional_vec(p_, h, rules) and _proportional_vec(q_, g, rules))
                    if not ok:
                        failures += 1
                        first_fail = first_fail or (f"pivot {pivot}, largest entry at {divmod(flat, n)}, signs of the roots {signs}: the returned vectors are not multiples of g and h")
        loc = fn.loc
        if failures:
            run.add("E19.comp", fn.short, label, VIOLATION,
                    f"{failures} of the first {cases} cases (pivot x position of the largest entry x signs of the square roots) do not return the two hyperplanes, e.g. {first_fail}. "
                    f"A square root of a perfect square is the ABSOLUTE value of its root: signs taken from several such roots are inconsistent", loc)
        elif cases and not unread:
            run.add("E19.comp", fn.short, label, PROVEN, f"{cases} cases: the two returned coefficient vectors are multiples of g and h", loc)
        else:
            run.add("E19.comp", fn.short, label, UNDECIDED, f"{unread} case(s) not read ({first_unread}); {cases} decided", loc)
    return n_ob


# ---------------------------------------------------------------------------------------------- the distance of two points of the plane (C09)
def rule_point_dist(run: Run, prog: Program) -> int:
    run.rule("E19.dist", "_point_dist for two points of the plane given by ARBITRARY representatives (x, y, w): the squared value of the returned expression "
                         "4 |sqrt([p,q,I][p,q,J]) / ([p,I,J][q,I,J])|, with the circular points read from the module and i^2 = -1, is the squared Euclidean "
                         "distance ((x_p/w_p - x_q/w_q)^2 + (y_p/w_p - y_q/w_q)^2) as a polynomial identity")
    fn = prog.find_func("_point_dist") or prog.find_func("geometer.operators._point_dist")
    if fn is None:
        run.add("E19.dist", "_point_dist", "Euclidean distance in the plane", UNDECIDED, "_point_dist not found", "")
        return 0
    fn = prog.body_of(fn)
    params = [a.arg for a in fn.node.args.args]
    if len(params) != 2:
        return 0
    label, loc = "Euclidean distance in the plane", fn.loc
    it = Interp(prog, None, {})
    it.rules["i"] = (2, LP.const(-1))
    it.hooks = library_hooks(it)
    env: dict = {params[0]: PointSym("p", 2), params[1]: PointSym("q", 2)}
    # the circular points as the module defines them
    for name in ("I", "J"):
        gv = prog.global_value(f"geometer.point.{name}")
        if gv is None:
            run.add("E19.dist", fn.short, label, UNDECIDED, f"module constant {name} not found", loc)
            return 1
        try:
            env[name] = it.ev(gv[1], {})
        except (Unknown, NotPolynomial) as ex:
            env[name] = Opaque(str(ex))
        if not isinstance(env[name], PointObj):
            run.add("E19.dist", fn.short, label, UNDECIDED, f"module constant {name} is not read as a point with constant coordinates", loc)
            return 1
    ret = None

    def walk(stmts):
        nonlocal ret
        for st in stmts:
            if ret is not None:
                return
            if isinstance(st, ast.Return):
                ret = st.value
                return
            if isinstance(st, ast.With):
                walk(st.body)
                continue
            it.stmt(st, env)
    try:
        walk(fn.node.body)
    except (_Done, _Raise):
        pass
    except (Unknown, NotPolynomial) as ex:
        run.add("E19.dist", fn.short, label, UNDECIDED, f"not read: {str(ex)[:100]}", loc)
        return 1
    if ret is None:
        run.add("E19.dist", fn.short, label, UNDECIDED, "no return expression found", loc)
        return 1

    def sq(e: ast.expr) -> tuple[LP, LP]:
        """(numerator, denominator) of the SQUARE of the magnitude of e"""
        if isinstance(e, ast.BinOp) and isinstance(e.op, ast.Mult):
            a, b = sq(e.left), sq(e.right)
            return a[0] * b[0], a[1] * b[1]
        if isinstance(e, ast.BinOp) and isinstance(e.op, ast.Div):
            a, b = sq(e.left), sq(e.right)
            return a[0] * b[1], a[1] * b[0]
        if isinstance(e, ast.Call):
            f_ = e.func
            nm = f_.attr if isinstance(f_, ast.Attribute) else getattr(f_, "id", "")
            if nm in ("abs", "absolute") and len(e.args) == 1:
                return sq(e.args[0])
            if nm in ("sqrt", "csqrt") and len(e.args) == 1:
                v = it.lp(it.ev(e.args[0], env))
                return v, LP.const(1)
        v = it.lp(it.ev(e, env))
        return v * v, LP.const(1)
    try:
        num, den = sq(ret)
        num, den = num.rewrite(it.rules), den.rewrite(it.rules)
    except (Unknown, NotPolynomial) as ex:
        run.add("E19.dist", fn.short, label, UNDECIDED, f"the returned expression is not read as c |sqrt(A) / B|: {str(ex)[:80]}", loc)
        return 1
    px, py, pw = [LP.sym("p0") * LP.sym("w_p"), LP.sym("p1") * LP.sym("w_p"), LP.sym("w_p")]
    qx, qy, qw = [LP.sym("q0") * LP.sym("w_q"), LP.sym("q1") * LP.sym("w_q"), LP.sym("w_q")]
    ref_num = (px * qw - qx * pw) * (px * qw - qx * pw) + (py * qw - qy * pw) * (py * qw - qy * pw)
    ref_den = pw * pw * qw * qw
    imaginary = any(s_ == "i" for poly in (num, den) for mono in poly.t for s_, _e in mono)
    resid = (num * ref_den - den * ref_num).rewrite(it.rules)
    if den.is_zero():
        run.add("E19.dist", fn.short, label, VIOLATION, "the denominator of the returned expression vanishes identically", loc)
    elif resid.is_zero() and not imaginary:
        run.add("E19.dist", fn.short, label, PROVEN, "the square of the returned expression is the squared Euclidean distance of the dehomogenised points, for every representative", loc)
    else:
        ratio = None
        for c_ in (2, 4, 16, Fraction(1, 2), Fraction(1, 4), Fraction(1, 16), -1):
            if (num * ref_den - den * ref_num * LP.const(c_)).rewrite(it.rules).is_zero():
                ratio = c_
        run.add("E19.dist", fn.short, label, VIOLATION,
                "the square of the returned expression is not the squared Euclidean distance" + (f": it is {ratio} times that" if ratio is not None else "")
                + (" (an imaginary part is left)" if imaginary else ""), loc)
    return 1


# ---------------------------------------------------------------------------------------------- join and meet of 1-tensors (C01)
class TensorSym(SymObject):
    """a tensor of the library with a symbolic array: index types as (covariant count, contravariant count), covariant indices stored first"""

    def __init__(self, table: Table, n_cov: int, n_con: int, kinds: set[str] | None = None, eps: bool = False):
        self.array = table
        self.tensor_shape = (n_cov, n_con)
        self._covariant_indices = set(range(n_cov))  # (sets, as in the library: code under interpretation compares and unites them)
        self._contravariant_indices = set(range(n_cov, n_cov + n_con))
        self.rank = n_cov + n_con
        self.free_indices = 0
        self.shape = table.shape
        self.dim = table.shape[0] - 1 if table.shape else 0
        self.kinds = kinds or {"Tensor"}
        self.eps = eps

    def copy(self):
        return TensorSym(self.array, self.tensor_shape[0], self.tensor_shape[1], self.kinds, self.eps)

    def is_zero(self, *a, **k):
        # for arguments in general position a contraction is zero exactly when it vanishes identically
        if not isinstance(self.array, Table):
            raise Unknown("is_zero of a tensor whose coordinates are not read")
        return all(x.is_zero() for x in self.array.data.values())


def levi_civita(n: int, covariant: bool) -> TensorSym:
    def sign(perm):
        if len(set(perm)) != len(perm):
            return 0
        return -1 if sum(1 for i in range(len(perm)) for j in range(i + 1, len(perm)) if perm[i] > perm[j]) % 2 else 1
    t = Table((n,) * n, {idx: LP.const(sign(idx)) for idx in itertools.product(range(n), repeat=n)})
    return TensorSym(t, n if covariant else 0, 0 if covariant else n, {"Tensor", "LeviCivitaTensor"}, eps=True)


class RaisedIn(Unknown):
    """the interpreted function raised the named exception (an Unknown for callers that only want a value)"""

    def __init__(self, name: str):
        super().__init__(f"the path raises {name}")
        self.name = name


class SymDiagram(SymObject):
    """TensorDiagram(*edges).calculate() on symbolic tensors, as C05 states it (and E14 verifies for the library's bookkeeping): an edge (a, b) sums the
    first unused covariant index of a with the first unused contravariant index of b; the result carries the uncontracted covariant indices in node
    order, then the uncontracted contravariant ones"""

    def __init__(self, edges: list):
        self.edges = edges

    def add_edge(self, a, b):
        self.edges.append((a, b))

    def calculate(self):
        nodes: list = []
        unused: dict = {}
        pairs = []
        for a, b in self.edges:
            if not isinstance(a, TensorSym) or not isinstance(b, TensorSym):
                raise Unknown("diagram node that is not a symbolic tensor")
            for x in (a, b):
                if id(x) not in unused:
                    unused[id(x)] = (sorted(x._covariant_indices), sorted(x._contravariant_indices))
                    nodes.append(x)
            fs, ft = unused[id(a)][0], unused[id(b)][1]
            if not fs or not ft:
                raise RaisedIn("TensorIndexError")  # add_edge raises it when a node has no free index of the needed type (C05, E7)
            i, j = fs.pop(0), ft.pop(0)
            if a.array.shape[i] != b.array.shape[j]:
                raise Unknown("dimension mismatch")
            pairs.append(((id(a), i), (id(b), j)))
        # label every axis: contracted pairs share a label
        label: dict = {}
        nxt = 0
        for pa, pb in pairs:
            label[pa] = label[pb] = nxt
            nxt += 1
        out_cov, out_con = [], []
        for x in nodes:
            for ax in unused[id(x)][0]:
                label[(id(x), ax)] = nxt
                out_cov.append(nxt)
                nxt += 1
        for x in nodes:
            for ax in unused[id(x)][1]:
                label[(id(x), ax)] = nxt
                out_con.append(nxt)
                nxt += 1
        out = out_cov + out_con
        sizes = {}
        for x in nodes:
            for ax in range(x.rank):
                sizes[label[(id(x), ax)]] = x.array.shape[ax]
        summed = [l for l in range(nxt) if l not in out]
        # sparse evaluation: start from the Levi-Civita node (few non-zero entries) when there is one
        order = sorted(nodes, key=lambda x: 0 if x.eps else 1)
        data: dict = {}
        all_labels = out + summed
        if len(all_labels) > 9:
            raise Unknown("diagram too large")

        def rec(k: int, assign: dict, coef: LP):
            if coef.is_zero():
                return
            if k == len(order):
                key = tuple(assign[l] for l in out)
                data[key] = data.get(key, LP()) + coef
                return
            x = order[k]
            labs = [label[(id(x), ax)] for ax in range(x.rank)]
            free = [l for l in dict.fromkeys(labs) if l not in assign]
            for vals in itertools.product(*[range(sizes[l]) for l in free]):
                a2 = dict(assign)
                a2.update(zip(free, vals))
                entry = x.array.data[tuple(a2[l] for l in labs)]
                if entry.is_zero():
                    continue
                rec(k + 1, a2, coef * entry)
        rec(0, {}, LP.const(1))
        shape = tuple(sizes[l] for l in out)
        table = Table(shape, {idx: data.get(idx, LP()) for idx in itertools.product(*[range(s_) for s_ in shape])})
        return TensorSym(table, len(out_cov), len(out_con))


def rule_join_meet(run: Run, prog: Program, part: str = "span") -> int:
    if part == "degenerate":
        run.rule("E19.join", "degenerate arguments of join / meet, interpreted through _join_meet_duality on symbolic tensors: a contraction that vanishes identically (equal "
                             "points, collinear triples, a point on the line, planes of one pencil) raises LinearDependenceError, two skew lines of 3-space raise NotCoplanar")
    else:
        run.rule("E19.join", "join and meet of points / lines / planes given as 1-tensors with symbolic coordinates, interpreted through _join_meet_duality and the tensor "
                         "diagram it builds: the result is incident with every argument, does not vanish identically, changes only by a sign with the order of the "
                         "arguments, and the round trips meet(join(p,q), join(p,r)) ~ p and join(meet(l,m), meet(l,n)) ~ l hold - polynomial identities")
    scratch = Run(prop=run.prop, quiet=True, write_evidence=False)
    span_run, deg_run = (run, scratch) if part == "span" else (scratch, run)
    fn = prog.find_func("_join_meet_duality")
    if fn is None:
        run.add("E19.join", "_join_meet_duality", "1-tensors", UNDECIDED, "_join_meet_duality not found", "")
        return 0
    fn = prog.body_of(fn)
    params = fn.node.args
    if params.vararg is None:
        run.add("E19.join", fn.short, "1-tensors", UNDECIDED, "the dispatcher no longer takes *args", fn.loc)
        return 0
    point_kinds = {"PointTensor", "Point", "PointLikeTensor", "Tensor", "ProjectiveTensor"}
    plane_kinds = {"SubspaceTensor", "Subspace", "Tensor", "ProjectiveTensor", "PlaneTensor", "Plane", "LineTensor", "Line"}

    def obj(name: str, n: int, point: bool) -> TensorSym:
        t = Table((n,), {(i,): LP.sym(f"{name}{i}") for i in range(n)})
        kinds = set(point_kinds) if point else ({"SubspaceTensor", "Subspace", "Tensor", "ProjectiveTensor"} | ({"LineTensor", "Line"} if n == 3 else {"PlaneTensor", "Plane"}))
        return TensorSym(t, 1 if point else 0, 0 if point else 1, kinds)

    def tensor_ctor(a_, k_):
        t = a_[0] if a_ else None
        if not isinstance(t, Table):
            return Opaque("tensor")
        cov = k_.get("covariant", True)
        rank = len(t.shape)
        if cov is True:
            return TensorSym(t, rank, 0)
        if cov is False:
            return TensorSym(t, 0, rank)
        return Opaque("tensor with mixed index types")

    def call(args: list, pivots: list | None = None, flags: dict | None = None) -> TensorSym:
        pivots = list(pivots or [])
        it = Interp(prog, None, {})
        it.generic = True
        it.hooks = {"LeviCivitaTensor": lambda a_, k_: levi_civita(a_[0], a_[1] if len(a_) > 1 else k_.get("covariant", True))
                    if a_ and isinstance(a_[0], int) and isinstance(a_[1] if len(a_) > 1 else k_.get("covariant", True), bool) else Opaque("eps"),
                    "TensorDiagram": lambda a_, k_: SymDiagram([tuple(x) for x in a_]) if all(isinstance(x, (list, tuple)) and len(x) == 2 for x in a_) else Opaque("diagram"),
                    "from_tensor": lambda a_, k_: a_[-1], "_divide_by_power_of_two": lambda a_, k_: a_[0], "max": lambda a_, k_: Opaque("max"), "frexp": lambda a_, k_: Opaque("frexp"),
                    "is_numerical_scalar": lambda a_, k_: isinstance(a_[0], (int, LP)) and not isinstance(a_[0], bool),
                    "Tensor": lambda a_, k_: tensor_ctor(a_, k_), "argmax": lambda a_, k_: pivots.pop(0) if pivots else Opaque("argmax"),
                    "isscalar": lambda a_, k_: isinstance(a_[0], (bool, int, LP))}
        env = {params.vararg.arg: list(args)}
        if flags:
            env.update(flags)
        for kwarg, d in zip(params.kwonlyargs, params.kw_defaults):
            if d is not None and kwarg.arg not in env:
                env[kwarg.arg] = it.ev(d, {})
        try:
            it.block(fn.node.body, env)
        except _Done as d:
            got = d.matrix
            if isinstance(got, TensorSym) and isinstance(got.array, Table):
                return got
            got = got.array if isinstance(got, TensorSym) else got
            raise Unknown(f"the result is not a tensor ({getattr(got, 'why', type(got).__name__)[:60]})") from None
        except _Raise as r:
            raise RaisedIn(r.name) from None
        raise Unknown("nothing is returned")

    def dot(a: TensorSym, b: TensorSym) -> LP:
        return sum((a.array.data[(i,)] * b.array.data[(i,)] for i in range(a.array.shape[0])), LP())

    def prop_to(a: TensorSym, b: TensorSym) -> bool:
        n_ = a.array.shape[0]
        return a.array.shape == b.array.shape and not all(a.array.data[(i,)].is_zero() for i in range(n_)) and all(
            (a.array.data[(i,)] * b.array.data[(j,)] - a.array.data[(j,)] * b.array.data[(i,)]).is_zero() for i in range(n_) for j in range(i + 1, n_))

    n_ob = 0
    cases = [("join of two points of the plane", 3, True, 2), ("meet of two lines of the plane", 3, False, 2),
             ("join of three points of 3-space", 4, True, 3), ("meet of three planes of 3-space", 4, False, 3)]
    for label, n, point, k in cases:
        n_ob += 1
        args = [obj("pqr"[i] if point else "lmn"[i], n, point) for i in range(k)]
        try:
            res = call(args)
            problems = []
            if res.array.shape != (n,) or res.tensor_shape != ((0, 1) if point else (1, 0)):
                problems.append(f"the result has index types {res.tensor_shape} and shape {res.array.shape}")
            else:
                if all(x.is_zero() for x in res.array.data.values()):
                    problems.append("the result vanishes identically")
                for a in args:
                    if not dot(res, a).is_zero():
                        problems.append(f"the result is not incident with argument `{next(iter(a.array.data[(0,)].t))[0][0][:-1]}`")
                swapped = call([args[1], args[0]] + args[2:])
                if not prop_to(swapped, res):
                    problems.append("exchanging two arguments changes the result by more than a scalar")
        except RaisedIn as ex:
            span_run.add("E19.join", fn.short, label, VIOLATION, f"raises {ex.name} for arguments in general position", fn.loc)
            continue
        except (Unknown, NotPolynomial, RecursionError) as ex:
            span_run.add("E19.join", fn.short, label, UNDECIDED, f"not read: {str(ex)[:110]}", fn.loc)
            continue
        if problems:
            span_run.add("E19.join", fn.short, label, VIOLATION, "; ".join(dict.fromkeys(problems)), fn.loc)
        else:
            span_run.add("E19.join", fn.short, label, PROVEN, "incident with every argument, not identically zero, independent of the order of the arguments up to a scalar", fn.loc)
    # two points / two planes of 3-space: the result is a line, a 2-tensor whose contraction with either argument vanishes
    for label, point in (("join of two points of 3-space", True), ("meet of two planes of 3-space", False)):
        n_ob += 1
        try:
            u_, v_ = obj("p" if point else "e", 4, point), obj("q" if point else "f", 4, point)
            res = call([u_, v_])
            problems = []
            if res.array.shape != (4, 4) or res.tensor_shape not in ((0, 2), (2, 0)):
                problems.append(f"the result has index types {res.tensor_shape} and shape {res.array.shape}")
            else:
                d_ = res.array.data
                if point != (res.tensor_shape == (0, 2)):
                    # a line is L_ij = eps_ijkl x^k y^l for two of its points (index types (0, 2)) or M^ij = eps^ijkl e_k f_l for two planes through it
                    # ((2, 0)); points are tested against the first form, planes against the second: the other form is the epsilon dual
                    eps_ = levi_civita(4, True).array.data
                    d_ = {(i, j): sum((eps_[(i, j, k, l)] * d_[(k, l)] for k in range(4) for l in range(4) if not eps_[(i, j, k, l)].is_zero()), LP()) for i in range(4) for j in range(4)}
                if all(x.is_zero() for x in d_.values()):
                    problems.append("the result vanishes identically")
                if not all((d_[(i, j)] + d_[(j, i)]).is_zero() for i in range(4) for j in range(4)):
                    problems.append("the result is not antisymmetric")
                for w_ in (u_, v_):
                    if not all(sum((d_[(i, j)] * w_.array.data[(j,)] for j in range(4)), LP()).is_zero() for i in range(4)):
                        problems.append(f"the contraction of the line with argument `{next(iter(w_.array.data[(0,)].t))[0][0][:-1]}` does not vanish: the argument is not incident with it")
                swapped = call([v_, u_])
                keys_ = sorted(d_)
                d_ = res.array.data
                if not all((swapped.array.data[k1] * d_[k2] - swapped.array.data[k2] * d_[k1]).is_zero() for i_, k1 in enumerate(keys_) for k2 in keys_[i_ + 1:]):
                    problems.append("exchanging the arguments changes the result by more than a scalar")
        except RaisedIn as ex:
            span_run.add("E19.join", fn.short, label, VIOLATION, f"raises {ex.name} for arguments in general position", fn.loc)
            continue
        except (Unknown, NotPolynomial, RecursionError) as ex:
            span_run.add("E19.join", fn.short, label, UNDECIDED, f"not read: {str(ex)[:110]}", fn.loc)
            continue
        span_run.add("E19.join", fn.short, label, VIOLATION if problems else PROVEN,
                     "; ".join(dict.fromkeys(problems)) if problems else "an antisymmetric 2-tensor, not identically zero, whose contraction with either argument vanishes; independent of the order up to a scalar", fn.loc)
    # a line of 3-space (the join of two points, a contravariant 2-tensor) cut with a plane
    n_ob += 1
    label = "meet of the line join(p, q) with a plane of 3-space"
    try:
        p_, q_ = obj("p", 4, True), obj("q", 4, True)
        plane = obj("e", 4, False)
        line = call([p_, q_])
        if line.tensor_shape != (0, 2):
            raise Unknown(f"join of two points of 3-space has index types {line.tensor_shape}")
        line.kinds = {"SubspaceTensor", "Subspace", "Tensor", "ProjectiveTensor", "LineTensor", "Line"}
        problems = []
        for first, second in ((line, plane), (plane, line)):
            x = call([first, second])
            if x.array.shape != (4,) or x.tensor_shape != (1, 0):
                problems.append(f"the result has index types {x.tensor_shape}")
                continue
            if all(v.is_zero() for v in x.array.data.values()):
                problems.append("the result vanishes identically")
            if not dot(x, plane).is_zero():
                problems.append("the point does not lie in the plane")
            rows = [x, p_, q_]
            m3 = Table((3, 4), {(i, j): rows[i].array.data[(j,)] for i in range(3) for j in range(4)})
            for cols in itertools.combinations(range(4), 3):
                minor = Table((3, 3), {(i, j): m3.data[(i, c)] for i in range(3) for j, c in enumerate(cols)})
                if not _det_table(minor).is_zero():
                    problems.append("the point is not on the line through p and q")
                    break
        if problems:
            span_run.add("E19.join", fn.short, label, VIOLATION, "; ".join(dict.fromkeys(problems)), fn.loc)
        else:
            span_run.add("E19.join", fn.short, label, PROVEN, "in both argument orders the point lies in the plane and on the line through p and q, and is not identically zero", fn.loc)
    except RaisedIn as ex:
        span_run.add("E19.join", fn.short, label, VIOLATION, f"raises {ex.name} for arguments in general position", fn.loc)
    except (Unknown, NotPolynomial, RecursionError) as ex:
        span_run.add("E19.join", fn.short, label, UNDECIDED, f"not read: {str(ex)[:110]}", fn.loc)
    line_kinds = {"SubspaceTensor", "Subspace", "Tensor", "ProjectiveTensor", "LineTensor", "Line"}

    def on_plane(plane: TensorSym, pts: list) -> bool:
        return plane.array.shape == (4,) and plane.tensor_shape == (0, 1) and not all(x.is_zero() for x in plane.array.data.values()) \
            and all(dot(plane, p__).is_zero() for p__ in pts)

    # the line join(p, q) of 3-space joined with a third point: the plane through the three points, in both argument orders
    n_ob += 1
    label = "join of the line join(p, q) with a point of 3-space"
    try:
        p_, q_, r_ = obj("p", 4, True), obj("q", 4, True), obj("r", 4, True)
        line = call([p_, q_])
        line.kinds = set(line_kinds)
        ok = on_plane(call([line, r_]), [p_, q_, r_]) and on_plane(call([r_, line]), [p_, q_, r_])
        span_run.add("E19.join", fn.short, label, PROVEN if ok else VIOLATION,
                "in both argument orders the result is a plane through p, q and r" if ok else "the result is not the plane through p, q and r", fn.loc)
    except RaisedIn as ex:
        span_run.add("E19.join", fn.short, label, VIOLATION, f"raises {ex.name} for arguments in general position", fn.loc)
    except (Unknown, NotPolynomial, RecursionError) as ex:
        span_run.add("E19.join", fn.short, label, UNDECIDED, f"not read: {str(ex)[:110]}", fn.loc)
    # two coplanar lines join(p, q), join(p, r) of 3-space (the branch after Blinn): for every pivot the argmax can select,
    # their meet is p and their join is the plane through p, q, r
    n_ob += 1
    label = "meet and join of the coplanar lines join(p, q), join(p, r) of 3-space"
    try:
        p_, q_, r_ = obj("p", 4, True), obj("q", 4, True), obj("r", 4, True)
        l1, l2 = call([p_, q_]), call([p_, r_])
        l1.kinds, l2.kinds = set(line_kinds), set(line_kinds)
        decided = 0
        problems = []
        for flat in range(64):
            for intersect in (True, False):
                try:
                    res = call([l1, l2], pivots=[flat], flags={"intersect_lines": intersect})
                except Unknown:
                    continue
                if all(x.is_zero() for x in res.array.data.values()):
                    continue  # a pivot whose entry vanishes cannot have been the largest one
                decided += 1
                if intersect:
                    if not (res.array.shape == (4,) and res.tensor_shape == (1, 0) and prop_to(res, p_)):
                        problems.append(f"pivot {flat}: the meet is not the common point p")
                elif not on_plane(res, [p_, q_, r_]):
                    problems.append(f"pivot {flat}: the join is not the plane through p, q and r")
        if problems:
            span_run.add("E19.join", fn.short, label, VIOLATION, f"{len(problems)} of {decided} cases: " + "; ".join(problems[:2]), fn.loc)
        elif decided:
            span_run.add("E19.join", fn.short, label, PROVEN, f"{decided} cases (every pivot the argmax can select, meet and join): the meet is p, the join is the plane through p, q and r", fn.loc)
        else:
            span_run.add("E19.join", fn.short, label, UNDECIDED, "no pivot gave a result that could be read", fn.loc)
    except RaisedIn as ex:
        span_run.add("E19.join", fn.short, label, VIOLATION, f"raises {ex.name} for arguments in general position", fn.loc)
    except (Unknown, NotPolynomial, RecursionError) as ex:
        span_run.add("E19.join", fn.short, label, UNDECIDED, f"not read: {str(ex)[:110]}", fn.loc)
    # round trips in the plane
    for label, point in (("meet(join(p, q), join(p, r)) is p", True), ("join(meet(l, m), meet(l, n)) is l", False)):
        n_ob += 1
        a, b, c = (obj(x, 3, point) for x in ("pqr" if point else "lmn"))
        try:
            first, second = call([a, b]), call([a, c])
            for x in (first, second):
                x.kinds = {"SubspaceTensor", "Subspace", "Tensor", "ProjectiveTensor", "LineTensor", "Line"} if point else set(point_kinds)
            back = call([first, second])
            ok = prop_to(back, a)
        except RaisedIn as ex:
            span_run.add("E19.join", fn.short, label, VIOLATION, f"raises {ex.name} for arguments in general position", fn.loc)
            continue
        except (Unknown, NotPolynomial, RecursionError) as ex:
            span_run.add("E19.join", fn.short, label, UNDECIDED, f"not read: {str(ex)[:110]}", fn.loc)
            continue
        span_run.add("E19.join", fn.short, label, PROVEN if ok else VIOLATION,
                "the round trip returns a multiple of the common argument" if ok else "the round trip does not return a multiple of the common argument", fn.loc)
    n_span = n_ob
    # degenerate arguments raise the documented error (the value-level half of C02): a contraction that vanishes identically is a dependence
    def expect(label_: str, args_: list, want: str, **kw) -> None:
        nonlocal n_ob
        n_ob += 1
        try:
            res_ = call(args_, **kw)
            deg_run.add("E19.join", fn.short, label_, VIOLATION,
                    f"no error is raised, the documented one is {want}: a tensor with {sum(1 for x in res_.array.data.values() if not x.is_zero())} non-zero polynomial entries is returned", fn.loc)
        except RaisedIn as r_:
            deg_run.add("E19.join", fn.short, label_, PROVEN if r_.name == want else VIOLATION,
                    f"raises {r_.name}" + ("" if r_.name == want else f", the documented error is {want}"), fn.loc)
        except (Unknown, NotPolynomial, RecursionError) as ex_:
            deg_run.add("E19.join", fn.short, label_, UNDECIDED, f"not read: {str(ex_)[:100]}", fn.loc)

    def combo(name: str, a: TensorSym, b: TensorSym, point: bool) -> TensorSym:
        al, be = LP.sym("alpha"), LP.sym("beta")
        t = Table(a.array.shape, {k_: al * a.array.data[k_] + be * b.array.data[k_] for k_ in a.array.data})
        return TensorSym(t, a.tensor_shape[0], a.tensor_shape[1], set(a.kinds))

    p2, q2 = obj("p", 3, True), obj("q", 3, True)
    expect("join of a point of the plane with itself", [p2, p2.copy()], "LinearDependenceError")
    l2, m2 = obj("l", 3, False), obj("m", 3, False)
    expect("meet of a line of the plane with itself", [l2, l2.copy()], "LinearDependenceError")
    p4, q4, r4 = obj("p", 4, True), obj("q", 4, True), obj("r", 4, True)
    expect("join of three collinear points of 3-space", [p4, q4, combo("c", p4, q4, True)], "LinearDependenceError")
    e4, f4 = obj("e", 4, False), obj("f", 4, False)
    expect("meet of three planes of one pencil", [e4, f4, combo("g", e4, f4, False)], "LinearDependenceError")
    try:
        line_pq = call([p4, q4])
        line_pq.kinds = set(line_kinds)
        expect("join of the line join(p, q) with a point of that line", [line_pq, combo("c", p4, q4, True)], "LinearDependenceError")
        s4 = obj("s", 4, True)
        line_rs = call([r4, s4])
        line_rs.kinds = set(line_kinds)
        expect("meet of two skew lines of 3-space", [line_pq, line_rs], "NotCoplanar")
        expect("join of two skew lines of 3-space", [line_pq, line_rs], "NotCoplanar", flags={"intersect_lines": False})
    except (Unknown, NotPolynomial, RecursionError) as ex_:
        # the lines of 3-space these configurations start from could not be built: the configurations are listed as undecided, not dropped
        done_ = {o.stmt for o in deg_run.obligations if o.rule == "E19.join"}
        for label_ in ("join of the line join(p, q) with a point of that line", "meet of two skew lines of 3-space", "join of two skew lines of 3-space"):
            if label_ not in done_:
                n_ob += 1
                deg_run.add("E19.join", fn.short, label_, UNDECIDED, f"not read: the join of two points of 3-space is not read ({str(ex_)[:80]})", fn.loc)
    return n_span if part == "span" else n_ob - n_span


# ---------------------------------------------------------------------------------------------- parallels and mirror images (C10)
def _normalize_hook(a_, k_):
    """PointLikeTensor._normalize_array by its contract, for one vector: divided by the last coordinate unless that is zero. Only a MONOMIAL divisor is
    read (an exact Laurent quotient); a sum would leave an atom that no later identity could cancel"""
    t = a_[-1] if a_ else None
    if not isinstance(t, Table) or len(t.shape) != 1:
        return Opaque("_normalize_array")
    last = t.data[(t.shape[0] - 1,)]
    if last.is_zero():
        return t
    if len(last.t) != 1:
        raise Unknown("normalisation by a last coordinate that is a sum")
    inv_ = last.inverse()
    return Table(t.shape, {k: v * inv_ for k, v in t.data.items()})


def _called_on_point_class() -> bool:
    """PointCollection.from_array(...) / Point.from_array(...): the class the hooked constructor-like method was called on"""
    c = _CURRENT_CALL[0] if _CURRENT_CALL else None
    f = c.func if c is not None else None
    return isinstance(f, ast.Attribute) and isinstance(f.value, ast.Name) and f.value.id.startswith("Point")


def rule_metric_constructions(run: Run, prog: Program, part: str = "metric") -> int:
    if part in ("midpoint", "circumcenter"):
        pass
    elif part == "harmonic":
        run.rule("E19.harm", "harmonic_set(a, b, c) in the plane for symbolic a, b and c = alpha a + beta b, interpreted through the complete-quadrilateral construction "
                             "(join / meet through the duality dispatcher; the auxiliary point off the line is a free symbolic point, so the result must not depend on "
                             "it): the returned point is a non-zero multiple of alpha a - beta b, the point with cross ratio -1")
    else:
        run.rule("E19.metric", "SubspaceTensor.parallel for a line of the plane and a plane of 3-space, and LineTensor.mirror in the plane, interpreted on symbolic "
                               "coordinates (join / meet through the interpreted duality dispatcher, the circular points and the line at infinity read from the module, "
                               "i^2 = -1): the parallel passes through the point and has the direction resp. the normal of the subspace; the mirror image is the "
                               "Cartesian reflection (x, y) - 2 (a x + b y + c) / (a^2 + b^2) (a, b)")
    duality = prog.find_func("_join_meet_duality")
    sub = prog.find_cls("SubspaceTensor")
    line_cls = prog.find_cls("LineTensor")
    if duality is None or sub is None or line_cls is None:
        run.add("E19.metric", "SubspaceTensor", "constructions", UNDECIDED, "anchors not found", "")
        return 0
    duality = prog.body_of(duality)
    params = duality.node.args
    point_kinds = {"PointTensor", "Point", "PointLikeTensor", "Tensor", "ProjectiveTensor"}

    def kinds_for(t: TensorSym, n: int) -> set:
        if t.tensor_shape == (1, 0):
            return set(point_kinds)
        if isinstance(t.array, Table) and len(t.array.shape) == 2:
            return {"SubspaceTensor", "Subspace", "Tensor", "ProjectiveTensor", "LineTensor", "Line"}  # a 2-tensor of 3-space is a line
        return {"SubspaceTensor", "Subspace", "Tensor", "ProjectiveTensor"} | ({"LineTensor", "Line"} if n == 3 else {"PlaneTensor", "Plane"})

    def make_interp() -> "Interp":
        it = Interp(prog, None, {})
        it.generic = True
        it.rules["i"] = (2, LP.const(-1))
        it.module_constants = {"I", "J", "infty", "infty_plane"}

        def dual_call(args_, kw_):
            sub_it = make_interp()
            env = {params.vararg.arg: list(args_)}
            for kwarg, d in zip(params.kwonlyargs, params.kw_defaults):
                if d is not None:
                    env[kwarg.arg] = sub_it.ev(d, {})
            try:
                sub_it.block(duality.node.body, env)
            except _Done as d:
                got = d.matrix
                if isinstance(got, TensorSym):
                    got.kinds = kinds_for(got, got.array.shape[0])
                    return got
                raise Unknown("the result of join / meet is not a tensor") from None
            except _Raise:
                raise Unknown("join / meet raises") from None
            raise Unknown("join / meet returns nothing")

        def vec(args_, point: bool):
            flat = []
            for a_ in args_:
                if isinstance(a_, list):
                    flat += a_
                elif isinstance(a_, Table) and len(a_.shape) == 1:
                    flat += [a_.data[(i,)] for i in range(a_.shape[0])]
                else:
                    flat.append(a_)
            cs = [it.lp(x) for x in flat]
            if point and not (len(args_) == 1 and isinstance(args_[0], (list, Table))):
                cs.append(LP.const(1))
            t = TensorSym(Table((len(cs),), {(i,): c for i, c in enumerate(cs)}), 1 if point else 0, 0 if point else 1)
            t.kinds = kinds_for(t, len(cs))
            return t
        it.hooks = {"LeviCivitaTensor": lambda a_, k_: levi_civita(a_[0], a_[1] if len(a_) > 1 else k_.get("covariant", True))
                    if a_ and isinstance(a_[0], int) and isinstance(a_[1] if len(a_) > 1 else k_.get("covariant", True), bool) else Opaque("eps"),
                    "TensorDiagram": lambda a_, k_: SymDiagram([tuple(x) for x in a_]) if all(isinstance(x, (list, tuple)) and len(x) == 2 for x in a_) else Opaque("diagram"),
                    "from_tensor": lambda a_, k_: a_[-1], "_divide_by_power_of_two": lambda a_, k_: a_[0],
                    "is_numerical_scalar": lambda a_, k_: isinstance(a_[0], (int, LP)) and not isinstance(a_[0], bool),
                    "_normalize_array": _normalize_hook,
                    "from_array": lambda a_, k_: vec([a_[-1]], _called_on_point_class()) if a_ and isinstance(a_[-1], Table) and len(a_[-1].shape) == 1 else Opaque("from_array"),
                    "join": lambda a_, k_: dual_call(a_, k_), "meet": lambda a_, k_: dual_call(a_, k_),
                    "Point": lambda a_, k_: vec(a_, True), "Line": lambda a_, k_: vec(a_, False), "Plane": lambda a_, k_: vec(a_, False)}
        return it

    def obj(name: str, n: int, point: bool) -> TensorSym:
        t = TensorSym(Table((n,), {(i,): LP.sym(f"{name}{i}") for i in range(n)}), 1 if point else 0, 0 if point else 1)
        t.kinds = kinds_for(t, n)
        return t

    n_ob = 0
    if part == "midpoint":
        run.rule("E19.mid", "SegmentTensor.midpoint in the plane for symbolic end points a, b given by arbitrary representatives, interpreted through the meet of the "
                            "supporting line with the line at infinity and harmonic_set (with a free symbolic auxiliary point): the returned point is a non-zero multiple "
                            "of b_w a + a_w b, the point (a/a_w + b/b_w) / 2")
        seg = prog.find_cls("SegmentTensor")
        fn_m = prog.lookup(seg, "midpoint") if seg else None
        label = "midpoint of a segment of the plane"
        if fn_m is None:
            run.add("E19.mid", "SegmentTensor.midpoint", label, UNDECIDED, "SegmentTensor.midpoint not found", "")
            return 0
        fn_m = prog.body_of(fn_m)
        a_, b_ = obj("a", 3, True), obj("b", 3, True)
        it = make_interp()
        free_pt = obj("o", 3, True)
        inner_join = it.hooks["join"]

        def join_gp(args_, kw_):
            got = inner_join(args_, kw_)
            if isinstance(got, TensorSym):
                got.__dict__["general_point"] = free_pt
            return got
        it.hooks["join"] = join_gp
        try:
            line_ab = join_gp([a_, b_], {})
            me = ObjSym(seg, _line=line_ab, vertices=[a_, b_], dim=2, free_indices=0)
            res = it.run_method(fn_m, me, [], {})
            if not isinstance(res, TensorSym) or not isinstance(res.array, Table) or res.array.shape != (3,):
                raise Unknown(f"the result is not read ({getattr(res, 'why', type(res).__name__)[:80]})")
            aw, bw = a_.array.data[(2,)], b_.array.data[(2,)]
            want = [bw * a_.array.data[(i,)] + aw * b_.array.data[(i,)] for i in range(3)]
            got = [res.array.data[(i,)] for i in range(3)]
            ok = not all(zero_mod(g_, it.rules) for g_ in got) and all(zero_mod(got[i] * want[j] - got[j] * want[i], it.rules) for i in range(3) for j in range(i + 1, 3))
            run.add("E19.mid", fn_m.short, label, PROVEN if ok else VIOLATION,
                    "the returned point is a non-zero multiple of b_w a + a_w b for every representative of the end points and every auxiliary point" if ok else
                    "the returned point is not a multiple of b_w a + a_w b: it is not the midpoint (or depends on representatives / the auxiliary point)", fn_m.loc)
        except RaisedIn as r_:
            run.add("E19.mid", fn_m.short, label, VIOLATION, f"raises {r_.name} for end points in general position", fn_m.loc)
        except (Unknown, NotPolynomial, RecursionError, KeyError, IndexError, TypeError, AttributeError) as ex:
            run.add("E19.mid", fn_m.short, label, UNDECIDED, f"not read: {type(ex).__name__}: {str(ex)[:100]}", fn_m.loc)
        return 1
    if part == "circumcenter":
        run.rule("E19.circ", "Triangle.circumcenter in the plane for symbolic vertices given by arbitrary representatives, interpreted through the midpoints of two edges "
                             "(harmonic_set with a free auxiliary point), the perpendiculars of the supporting lines through them and their meet: the returned point has the "
                             "same squared distance from all three vertices")
        tri = prog.find_cls("Triangle")
        seg = prog.find_cls("SegmentTensor")
        fn_c = prog.lookup(tri, "circumcenter") if tri else None
        label = "circumcenter of a triangle of the plane"
        if fn_c is None or seg is None:
            run.add("E19.circ", "Triangle.circumcenter", label, UNDECIDED, "Triangle.circumcenter not found", "")
            return 0
        fn_c = prog.body_of(fn_c)
        vs = [obj(nm, 3, True) for nm in "abc"]
        it = make_interp()
        free_pt = obj("o", 3, True)
        inner_join = it.hooks["join"]

        def join_gp2(args_, kw_):
            got = inner_join(args_, kw_)
            if isinstance(got, TensorSym):
                got.__dict__["general_point"] = free_pt
            return got
        it.hooks["join"] = join_gp2
        # the midpoints of the edges by their contract b_w a + a_w b, which E19.mid proves for the property as it stands (for every auxiliary point): interpreting
        # harmonic_set twice more inside this construction only multiplies the size of the polynomials
        scratch_mid = Run(prop=run.prop, quiet=True, write_evidence=False)
        rule_metric_constructions(scratch_mid, prog, part="midpoint")
        if not any(o_.rule == "E19.mid" and o_.verdict == PROVEN for o_ in scratch_mid.obligations):
            run.add("E19.circ", fn_c.short, label, UNDECIDED, "Segment.midpoint is not proven on this tree (E19.mid): its contract cannot be used", fn_c.loc)
            return 1
        try:
            edges = []
            for i in range(3):
                u, v = vs[i], vs[(i + 1) % 3]
                ln = join_gp2([u, v], {})
                ln.__dict__["dim"] = 2
                uw, vw = u.array.data[(2,)], v.array.data[(2,)]
                mid = TensorSym(Table((3,), {(k,): vw * u.array.data[(k,)] + uw * v.array.data[(k,)] for k in range(3)}), 1, 0)
                mid.kinds = kinds_for(mid, 3)
                edges.append(ObjSym(seg, _line=ln, vertices=[u, v], dim=2, free_indices=0, midpoint=mid))
            me = ObjSym(tri, edges=edges, _plane=None, dim=2, free_indices=0)
            res = it.run_method(fn_c, me, [], {})
            if not isinstance(res, TensorSym) or not isinstance(res.array, Table) or res.array.shape != (3,):
                raise Unknown(f"the result is not read ({getattr(res, 'why', type(res).__name__)[:80]})")
            m = [res.array.data[(i,)] for i in range(3)]
            if all(zero_mod(x, it.rules) for x in m):
                run.add("E19.circ", fn_c.short, label, VIOLATION, "the result vanishes identically", fn_c.loc)
                return 1

            # equidistant from the vertices <=> on the perpendicular bisector of every edge: (2 u_w v_w M - M_w (v_w u + u_w v)) . (u_w v - v_w u) = 0 in the
            # affine coordinates - three conditions of low degree instead of squared distances
            def on_bisector(u, v) -> bool:
                ux, vx = [u.array.data[(i,)] for i in range(3)], [v.array.data[(i,)] for i in range(3)]
                tot = LP()
                for k in range(2):
                    tot = tot + (LP.const(2) * ux[2] * vx[2] * m[k] - m[2] * (vx[2] * ux[k] + ux[2] * vx[k])) * (ux[2] * vx[k] - vx[2] * ux[k])
                return zero_mod(tot, it.rules)
            ok = all(on_bisector(vs[i], vs[(i + 1) % 3]) for i in range(3))
            run.add("E19.circ", fn_c.short, label, PROVEN if ok else VIOLATION,
                    "the returned point is equidistant from the three vertices for every representative of the vertices and every auxiliary point" if ok else
                    "the returned point is not equidistant from the three vertices", fn_c.loc)
        except RaisedIn as r_:
            run.add("E19.circ", fn_c.short, label, VIOLATION, f"raises {r_.name} for vertices in general position", fn_c.loc)
        except (Unknown, NotPolynomial, RecursionError, KeyError, IndexError, TypeError, AttributeError) as ex:
            run.add("E19.circ", fn_c.short, label, UNDECIDED, f"not read: {type(ex).__name__}: {str(ex)[:100]}", fn_c.loc)
        return 1
    if part == "harmonic":
        fn_h = prog.find_func("harmonic_set")
        if fn_h is None:
            run.add("E19.harm", "harmonic_set", "harmonic conjugate in the plane", UNDECIDED, "harmonic_set not found", "")
            return 0
        fn_h = prog.body_of(fn_h)
        params_h = [a_.arg for a_ in fn_h.node.args.args]
        a_, b_ = obj("a", 3, True), obj("b", 3, True)
        al, be = LP.sym("alpha"), LP.sym("beta")
        c_ = TensorSym(Table((3,), {(i,): al * a_.array.data[(i,)] + be * b_.array.data[(i,)] for i in range(3)}), 1, 0)
        c_.kinds = kinds_for(c_, 3)
        it = make_interp()
        free_pt = obj("o", 3, True)
        inner_join = it.hooks["join"]

        def join_with_general_point(args_, kw_):
            got = inner_join(args_, kw_)
            if isinstance(got, TensorSym):
                got.__dict__["general_point"] = free_pt  # "a point not on the line": any point, the construction must not depend on which
            return got
        it.hooks["join"] = join_with_general_point
        label = "harmonic conjugate of c = alpha a + beta b with respect to a, b in the plane"
        try:
            it.block(fn_h.node.body, dict(zip(params_h, [a_, b_, c_])))
            run.add("E19.harm", fn_h.short, label, UNDECIDED, "no value is returned on the path of the plane", fn_h.loc)
        except _Done as d:
            res = d.matrix
            if not isinstance(res, TensorSym) or not isinstance(res.array, Table) or res.array.shape != (3,):
                run.add("E19.harm", fn_h.short, label, UNDECIDED, f"the result is not read ({getattr(res, 'why', type(res).__name__)[:80]})", fn_h.loc)
                return 1
            want = [al * a_.array.data[(i,)] - be * b_.array.data[(i,)] for i in range(3)]
            got = [res.array.data[(i,)] for i in range(3)]
            ok = not all(zero_mod(g_, it.rules) for g_ in got) and all(zero_mod(got[i] * want[j] - got[j] * want[i], it.rules) for i in range(3) for j in range(i + 1, 3))
            run.add("E19.harm", fn_h.short, label, PROVEN if ok else VIOLATION,
                    "the returned point is a non-zero multiple of alpha a - beta b for every auxiliary point: cr(a, b; c, d) = -1" if ok else
                    "the returned point is not a multiple of alpha a - beta b: it is not the harmonic conjugate (or it depends on the auxiliary point)", fn_h.loc)
        except _Raise as r_:
            run.add("E19.harm", fn_h.short, label, VIOLATION, f"raises {r_.name} for collinear points in general position", fn_h.loc)
        except RaisedIn as r_:
            run.add("E19.harm", fn_h.short, label, VIOLATION, f"raises {r_.name} for collinear points in general position", fn_h.loc)
        except (Unknown, NotPolynomial, RecursionError, KeyError, IndexError, TypeError, AttributeError) as ex:
            run.add("E19.harm", fn_h.short, label, UNDECIDED, f"not read: {type(ex).__name__}: {str(ex)[:100]}", fn_h.loc)
        return 1
    fn_par = prog.lookup(sub, "parallel")
    if fn_par is not None:
        fn_par = prog.body_of(fn_par)
        for n, what in ((3, "line of the plane"), (4, "plane of 3-space")):
            n_ob += 1
            label = f"parallel to a {what} through a point"
            s_, p_ = obj("s", n, False), obj("p", n, True)
            it = make_interp()
            try:
                s_.__dict__["dim"] = n - 1
                res = it.run_method(fn_par, s_, [p_], {})
                if not isinstance(res, TensorSym) or res.array.shape != (n,) or res.tensor_shape != (0, 1):
                    raise Unknown(f"the result is not a hyperplane ({getattr(res, 'why', type(res).__name__)[:60]})")
                problems = []
                if all(zero_mod(x, it.rules) for x in res.array.data.values()):
                    problems.append("the result vanishes identically")
                inc = sum((res.array.data[(i,)] * p_.array.data[(i,)] for i in range(n)), LP())
                if not zero_mod(inc, it.rules):
                    problems.append("the parallel does not pass through the point")
                if not all(zero_mod(res.array.data[(i,)] * s_.array.data[(j,)] - res.array.data[(j,)] * s_.array.data[(i,)], it.rules)
                           for i in range(n - 1) for j in range(i + 1, n - 1)):
                    problems.append("the normal of the result is not a multiple of the normal of the subspace: not parallel")
            except (Unknown, NotPolynomial, RecursionError) as ex:
                run.add("E19.metric", fn_par.short, label, UNDECIDED, f"not read: {str(ex)[:110]}", fn_par.loc)
                continue
            run.add("E19.metric", fn_par.short, label, VIOLATION if problems else PROVEN,
                    "; ".join(problems) if problems else "passes through the point; its normal is a multiple of the normal of the subspace", fn_par.loc)
    # the perpendicular of a line of the plane through a point (off the line: through the mirror image; on the line: through the normal direction),
    # the foot of the perpendicular (project), and the perpendicular of a plane of 3-space through a point
    fn_perp = prog.lookup(line_cls, "perpendicular")
    fn_proj = prog.lookup(sub, "project")
    plane_cls = prog.find_cls("PlaneTensor")
    fn_pperp = prog.lookup(plane_cls, "perpendicular") if plane_cls else None
    a, b, c = (LP.sym(f"l{i}") for i in range(3))

    def planar(label: str, fn_, on_line: bool, foot: bool) -> None:
        nonlocal n_ob
        n_ob += 1
        fn_ = prog.body_of(fn_)
        l_ = obj("l", 3, False)
        l_.__dict__["dim"] = 2
        if on_line:
            # a point of the line: the line joined... l x (u0, u1, u2) for a free vector u lies on l
            u = [LP.sym(f"u{i}") for i in range(3)]
            coords = [b * u[2] - c * u[1], c * u[0] - a * u[2], a * u[1] - b * u[0]]
            p_ = TensorSym(Table((3,), {(i,): coords[i] for i in range(3)}), 1, 0)
            p_.kinds = kinds_for(p_, 3)
        else:
            p_ = obj("p", 3, True)
        x, y, w = (p_.array.data[(i,)] for i in range(3))
        it = make_interp()
        try:
            res = it.run_method(fn_, l_, [p_], {})
            if not isinstance(res, TensorSym) or not isinstance(res.array, Table) or res.array.shape != (3,):
                raise Unknown(f"the result is not read ({getattr(res, 'why', type(res).__name__)[:60]})")
            got = [res.array.data[(i,)] for i in range(3)]
            if all(zero_mod(g_, it.rules) for g_ in got):
                run.add("E19.metric", fn_.short, label, VIOLATION, "the result vanishes identically", fn_.loc)
                return
            if foot:
                # the foot F of the perpendicular: on the line, and F/F_w - P/P_w parallel to the normal (a, b)
                on = zero_mod(a * got[0] + b * got[1] + c * got[2], it.rules)
                par = zero_mod((got[0] * w - x * got[2]) * b - (got[1] * w - y * got[2]) * a, it.rules)
                ok, bad = on and par, "the projected point does not lie on the line" if not on else "the projected point is not the foot of the perpendicular through the point"
                good = "the projected point lies on the line and its connection with the point has the direction of the normal"
            else:
                # the perpendicular g: through the point, and its normal orthogonal to the normal of the line
                thr = zero_mod(got[0] * x + got[1] * y + got[2] * w, it.rules)
                orth = zero_mod(got[0] * a + got[1] * b, it.rules)
                ok, bad = thr and orth, "the perpendicular does not pass through the point" if not thr else "the constructed line is not orthogonal to the line"
                good = "the constructed line passes through the point and its normal is orthogonal to the normal of the line"
            run.add("E19.metric", fn_.short, label, PROVEN if ok else VIOLATION, good if ok else bad, fn_.loc)
        except RaisedIn as r_:
            run.add("E19.metric", fn_.short, label, VIOLATION, f"raises {r_.name} for a line and a point in general position", fn_.loc)
        except (Unknown, NotPolynomial, RecursionError, KeyError, IndexError, TypeError, AttributeError) as ex:
            run.add("E19.metric", fn_.short, label, UNDECIDED, f"not read: {type(ex).__name__}: {str(ex)[:100]}", fn_.loc)

    if fn_perp is not None:
        planar("perpendicular to a line of the plane through a point off the line", fn_perp, False, False)
        planar("perpendicular to a line of the plane through a point of the line", fn_perp, True, False)
    if fn_proj is not None and fn_perp is not None:
        planar("foot of the perpendicular from a point to a line of the plane (project)", fn_proj, False, True)
    if fn_pperp is not None:
        n_ob += 1
        fn_ = prog.body_of(fn_pperp)
        label = "perpendicular to a plane of 3-space through a point"
        e_, p_ = obj("e", 4, False), obj("p", 4, True)
        e_.__dict__["dim"] = 3
        it = make_interp()
        try:
            res = it.run_method(fn_, e_, [p_], {})
            if not isinstance(res, TensorSym) or not isinstance(res.array, Table) or res.array.shape != (4, 4):
                raise Unknown(f"the result is not a line of 3-space ({getattr(res, 'why', type(res).__name__)[:60]})")
            x = [p_.array.data[(i,)] for i in range(4)]
            nrm = [e_.array.data[(i,)] for i in range(3)] + [LP()]
            # a line of 3-space is stored as the covariant-free 2-tensor L_ij = eps_ijkl x^k n^l (the dual of the wedge of two of its points)
            eps = levi_civita(4, True).array.data
            wedge = {(i, j): sum((eps[(i, j, k, l)] * x[k] * nrm[l] for k in range(4) for l in range(4) if not eps[(i, j, k, l)].is_zero()), LP()) for i in range(4) for j in range(4)}
            keys = sorted(wedge)
            got = res.array.data
            ok = res.tensor_shape == (0, 2) and not all(got[k].is_zero() for k in keys) and all(
                (got[k1] * wedge[k2] - got[k2] * wedge[k1]).is_zero() for i_, k1 in enumerate(keys) for k2 in keys[i_ + 1:])
            run.add("E19.metric", fn_.short, label, PROVEN if ok else VIOLATION,
                    "the constructed line is the join of the point with the point at infinity in the direction of the normal (a, b, c) of the plane" if ok else
                    "the constructed line is not the join of the point with the point at infinity of the normal of the plane", fn_.loc)
        except RaisedIn as r_:
            run.add("E19.metric", fn_.short, label, VIOLATION, f"raises {r_.name} for a plane and a point in general position", fn_.loc)
        except (Unknown, NotPolynomial, RecursionError, KeyError, IndexError, TypeError, AttributeError) as ex:
            run.add("E19.metric", fn_.short, label, UNDECIDED, f"not read: {type(ex).__name__}: {str(ex)[:100]}", fn_.loc)
    if fn_pperp is not None and fn_proj is not None:
        n_ob += 1
        fn_ = prog.body_of(fn_proj)
        label = "foot of the perpendicular from a point to a plane of 3-space (project)"
        e_, p_ = obj("e", 4, False), obj("p", 4, True)
        e_.__dict__["dim"] = 3
        it = make_interp()
        try:
            res = it.run_method(fn_, e_, [p_], {})
            if not isinstance(res, TensorSym) or not isinstance(res.array, Table) or res.array.shape != (4,) or res.tensor_shape != (1, 0):
                raise Unknown(f"the result is not a point ({getattr(res, 'why', type(res).__name__)[:60]})")
            f_ = [res.array.data[(i,)] for i in range(4)]
            x = [p_.array.data[(i,)] for i in range(4)]
            nrm = [e_.array.data[(i,)] for i in range(3)]
            on = sum((e_.array.data[(i,)] * f_[i] for i in range(4)), LP()).is_zero()
            diff = [f_[i] * x[3] - x[i] * f_[3] for i in range(3)]  # F/F_w - P/P_w up to the factor F_w P_w
            par = all((diff[i] * nrm[j] - diff[j] * nrm[i]).is_zero() for i in range(3) for j in range(i + 1, 3))
            nonzero = not all(v.is_zero() for v in f_)
            ok = on and par and nonzero
            run.add("E19.metric", fn_.short, label, PROVEN if ok else VIOLATION,
                    "the projected point lies on the plane and its connection with the point has the direction of the normal" if ok else
                    ("the result vanishes identically" if not nonzero else "the projected point does not lie on the plane" if not on else
                     "the projected point is not the foot of the perpendicular through the point"), fn_.loc)
        except RaisedIn as r_:
            run.add("E19.metric", fn_.short, label, VIOLATION, f"raises {r_.name} for a plane and a point in general position", fn_.loc)
        except (Unknown, NotPolynomial, RecursionError, KeyError, IndexError, TypeError, AttributeError) as ex:
            run.add("E19.metric", fn_.short, label, UNDECIDED, f"not read: {type(ex).__name__}: {str(ex)[:100]}", fn_.loc)
    fn_mir = prog.lookup(line_cls, "mirror")
    if fn_mir is not None:
        fn_mir = prog.body_of(fn_mir)
        n_ob += 1
        label = "mirror image of a point at a line of the plane"
        l_, p_ = obj("l", 3, False), obj("p", 3, True)
        it = make_interp()
        try:
            l_.__dict__["dim"] = 2
            res = it.run_method(fn_mir, l_, [p_], {})
            if not isinstance(res, TensorSym) or res.array.shape != (3,) or res.tensor_shape != (1, 0):
                raise Unknown(f"the result is not a point ({getattr(res, 'why', type(res).__name__)[:60]})")
            a, b, c = (LP.sym(f"l{i}") for i in range(3))
            x, y, w = (LP.sym(f"p{i}") for i in range(3))
            nn, t = a * a + b * b, a * x + b * y + c * w
            want = [nn * x - LP.const(2) * a * t, nn * y - LP.const(2) * b * t, nn * w]
            got = [res.array.data[(i,)] for i in range(3)]
            ok = (not all(zero_mod(g_, it.rules) for g_ in got)) and all(zero_mod(got[i] * want[j] - got[j] * want[i], it.rules) for i in range(3) for j in range(i + 1, 3))
        except (Unknown, NotPolynomial, RecursionError) as ex:
            run.add("E19.metric", fn_mir.short, label, UNDECIDED, f"not read: {str(ex)[:110]}", fn_mir.loc)
            return n_ob
        run.add("E19.metric", fn_mir.short, label, PROVEN if ok else VIOLATION,
                "the constructed point is the Cartesian reflection for every representative of point and line (a complex factor from the circular points cancels)" if ok else
                "the constructed point is not the Cartesian reflection of the point at the line", fn_mir.loc)
    return n_ob


# ---------------------------------------------------------------------------------------------- the action of a transformation, as values (C07, C06)
def rule_action_values(run: Run, prog: Program, part: str = "incidence") -> int:
    """part 'incidence' (C07): images of incident objects are incident, join commutes with the action, a point on a conic maps onto the image conic.
    part 'inverse' (C06): applying t and then the matrix that inverse() builds (up to its scalar det) gives back a multiple of x."""
    if part == "incidence":
        run.rule("E19.act", "Tensor.__apply__ interpreted on symbolic points, lines, planes and conics under a symbolic matrix T (the inverse is read as the adjugate, "
                            "which differs from it by the scalar det T): (t*l).(t*p) = det T (l.p), t*join(p, q) ~ join(t*p, t*q), t*meet(l, m) ~ meet(t*l, t*m), and "
                            "(t*p)^T (t*Q) (t*p) = det T^2 (p^T Q p) for a conic and its dual - polynomial identities in the entries of T")
    else:
        run.rule("E19.act", "the inverse undoes the action: with the inverse read as the adjugate of the symbolic matrix T, inverse applied to t*x is a non-zero "
                            "polynomial multiple of x for points, lines and planes")
    tcls = prog.find_cls("Tensor")
    ap = prog.lookup(tcls, "__apply__") if tcls else None
    duality = prog.find_func("_join_meet_duality")
    if ap is None or duality is None:
        run.add("E19.act", "Tensor.__apply__", "action", UNDECIDED, "anchors not found", "")
        return 0
    ap = prog.body_of(ap)
    duality = prog.body_of(duality)
    dparams = duality.node.args

    def hooks_for(it: "Interp") -> dict:
        def dual_call(args_, kw_):
            sub_it = Interp(prog, None, {})
            sub_it.generic = True
            sub_it.hooks = hooks_for(sub_it)
            env = {dparams.vararg.arg: list(args_)}
            for kwarg, d in zip(dparams.kwonlyargs, dparams.kw_defaults):
                if d is not None:
                    env[kwarg.arg] = sub_it.ev(d, {})
            try:
                sub_it.block(duality.node.body, env)
            except _Done as d:
                if isinstance(d.matrix, TensorSym):
                    return d.matrix
                raise Unknown("join / meet does not return a tensor") from None
            except _Raise as r:
                raise RaisedIn(r.name) from None
            raise Unknown("join / meet returns nothing")
        return {"LeviCivitaTensor": lambda a_, k_: levi_civita(a_[0], a_[1] if len(a_) > 1 else k_.get("covariant", True))
                if a_ and isinstance(a_[0], int) and isinstance(a_[1] if len(a_) > 1 else k_.get("covariant", True), bool) else Opaque("eps"),
                "TensorDiagram": lambda a_, k_: SymDiagram([tuple(x) for x in a_]) if all(isinstance(x, (list, tuple)) and len(x) == 2 for x in a_) else Opaque("diagram"),
                "from_tensor": lambda a_, k_: a_[-1], "_divide_by_power_of_two": lambda a_, k_: a_[0], "join": dual_call, "meet": dual_call,
                "is_numerical_scalar": lambda a_, k_: isinstance(a_[0], (int, LP)) and not isinstance(a_[0], bool),
                "matvec": _matvec_hook, "matrix_power": _matrix_power_hook}

    class TransSym(TensorSym):
        def __init__(self, table: Table):
            super().__init__(table, 1, 1, {"Tensor", "TransformationTensor", "Transformation", "ProjectiveTensor"})

        def copy(self):
            return TransSym(self.array)

        def rebuild(self, args_, kw_):
            a0 = args_[0].array if args_ and isinstance(args_[0], TensorSym) else args_[0] if args_ else None
            return TransSym(a0) if isinstance(a0, Table) and len(a0.shape) == 2 else Opaque("transformation")

        def inverse(self):
            # TransformationTensor.inverse is interpreted from the source; `inv` is read as the adjugate (the inverse up to the scalar det T,
            # which the projective statements do not see; that the closed forms of inv are adjugate / det is decided under C20)
            tt = prog.find_cls("TransformationTensor")
            m_ = prog.lookup(tt, "inverse") if tt else None
            if m_ is None:
                raise Unknown("TransformationTensor.inverse not found")
            it_ = Interp(prog, None, {})
            it_.generic = True
            it_.hooks = {**hooks_for(it_), "inv": lambda a_, k_: _adjugate_table(a_[0]) if a_ and isinstance(a_[0], Table) else Opaque("inv")}
            res_ = it_.run_method(m_, self, [], {})
            if not isinstance(res_, TransSym):
                raise Unknown(f"inverse() does not return a transformation ({getattr(res_, 'why', type(res_).__name__)[:50]})")
            return res_

    def apply(x: TensorSym, t: TransSym) -> TensorSym:
        it = Interp(prog, None, {})
        it.generic = True
        it.hooks = hooks_for(it)
        res = it.run_method(ap, x, [t], {})
        if not isinstance(res, TensorSym) or not isinstance(res.array, Table):
            raise Unknown(f"the action does not return a tensor ({getattr(res, 'why', type(res).__name__)[:60]})")
        return res

    def dual(args: list) -> TensorSym:
        it = Interp(prog, None, {})
        it.generic = True
        return hooks_for(it)["join"](args, {})

    def vec(name: str, n: int, point: bool) -> TensorSym:
        return TensorSym(Table((n,), {(i,): LP.sym(f"{name}{i}") for i in range(n)}), 1 if point else 0, 0 if point else 1,
                         {"PointTensor", "Point", "Tensor"} if point else {"SubspaceTensor", "Tensor", "LineTensor" if n == 3 else "PlaneTensor"})

    def dot(a: TensorSym, b: TensorSym) -> LP:
        return sum((a.array.data[(i,)] * b.array.data[(i,)] for i in range(a.array.shape[0])), LP())

    def prop(a: Table, b: Table) -> bool:
        keys = sorted(a.data)
        if a.shape == b.shape and max(len(v.t) for v in a.data.values()) * max(len(v.t) for v in b.data.values()) > 400000:
            raise Unknown("the polynomials are too large to compare")
        return a.shape == b.shape and not all(a.data[k].is_zero() for k in keys) and all(
            (a.data[k1] * b.data[k2] - a.data[k2] * b.data[k1]).is_zero() for i_, k1 in enumerate(keys) for k2 in keys[i_ + 1:])

    # Every identity is first evaluated at one integer point (the same interpretation on constant tables): a polynomial identity that fails at a
    # point is not an identity, so a failure there is already the VIOLATION, at no symbolic cost; PROVEN needs the symbolic expansion.
    _READ = (Unknown, NotPolynomial, RecursionError, IndexError, KeyError, TypeError, ValueError, AttributeError, ZeroDivisionError)
    _ints = {}

    def mk_sym(numeric: bool):
        def sym(name: str) -> LP:
            if not numeric:
                return LP.sym(name)
            if name not in _ints:
                h = 0
                for ch in name:
                    h = (h * 131 + ord(ch)) % 1000003
                _ints[name] = Fraction(h % 19 - 9 or 11)  # a fixed point: small non-zero integers, a function of the name only
            return LP.const(_ints[name])
        return sym

    class _BadDivisor(Exception):
        pass

    def judge(label: str, compute, good: str, bad: str, n_: int, deep: bool = False) -> None:
        try:
            return _judge(label, compute, good, bad, n_, deep)
        except _BadDivisor as ex:
            run.add("E19.act", ap.short, label, VIOLATION,
                    f"the composition divides by `{ex}`, which is not a power of the determinants: it vanishes for invertible matrices too (0/0 = nan for every such pair)", loc)

    def _judge(label: str, compute, good: str, bad: str, n_: int, deep: bool = False) -> None:
        try:
            if compute(mk_sym(True), n_) is False:
                run.add("E19.act", ap.short, label, VIOLATION, bad + " (already at an integer point)", loc)
                return
            if deep and run.tier != "thorough":
                # the symbolic expansion of this identity takes minutes: the quick tier stops after the integer point (which already refutes a wrong identity)
                run.add("E19.act", ap.short, label, INFO, "holds at the integer point; expanded as a polynomial identity in the thorough tier only (cost)", loc)
                return
            ok = compute(mk_sym(False), n_)
            run.add("E19.act", ap.short, label, PROVEN if ok else VIOLATION, good if ok else bad, loc)
        except _READ as ex:
            run.add("E19.act", ap.short, label, UNDECIDED, f"not read: {type(ex).__name__}: {str(ex)[:100]}", loc)

    def vec_(sym, name: str, n_: int, point: bool) -> TensorSym:
        return TensorSym(Table((n_,), {(i,): sym(f"{name}{i}") for i in range(n_)}), 1 if point else 0, 0 if point else 1,
                         {"PointTensor", "Point", "Tensor"} if point else {"SubspaceTensor", "Tensor", "LineTensor" if n_ == 3 else "PlaneTensor"})

    def trans_(sym, n_: int, name: str = "t"):
        tm_ = Table.full((n_, n_), lambda idx: sym(f"{name}{idx[0]}{idx[1]}"))
        return TransSym(tm_), _det_table(tm_)

    def compose(s_: "TransSym", t_: "TransSym") -> "TransSym":
        """s * t as the library computes it: TransformationTensor.__apply__ of t, handed s"""
        tt = prog.find_cls("TransformationTensor")
        m_ = prog.lookup(tt, "__apply__") if tt else None
        if m_ is None or prog.body_of(m_) is ap:
            raise Unknown("TransformationTensor.__apply__ not found")
        it_ = Interp(prog, None, {})
        it_.generic = True
        it_.hooks = {**hooks_for(it_), "from_array": lambda a_, k_: TransSym(a_[-1]) if a_ and isinstance(a_[-1], Table) and len(a_[-1].shape) == 2 else Opaque("from_array")}
        res_ = it_.run_method(m_, t_, [s_], {})
        if not isinstance(res_, TransSym) or not isinstance(res_.array, Table):
            raise Unknown(f"the composition does not return a transformation ({getattr(res_, 'why', type(res_).__name__)[:50]})")
        return res_

    def power(t_: "TransSym", k: int) -> "TransSym":
        tt = prog.find_cls("TransformationTensor")
        m_ = prog.lookup(tt, "__pow__") if tt else None
        if m_ is None:
            raise Unknown("TransformationTensor.__pow__ not found")
        it_ = Interp(prog, None, {})
        it_.generic = True
        it_.hooks = {**hooks_for(it_), "inv": lambda a_, k_: _adjugate_table(a_[0]) if a_ and isinstance(a_[0], Table) else Opaque("inv"),
                     "identity": lambda a_, k_: TransSym(Table.full((a_[0] + 1, a_[0] + 1), lambda idx: LP.const(1 if idx[0] == idx[1] else 0)))
                     if a_ and isinstance(a_[0], int) and len(a_) == 1 and not k_ else Opaque("identity")}
        res_ = it_.run_method(m_, t_, [k, None], {})
        if not isinstance(res_, TransSym) or not isinstance(res_.array, Table):
            raise Unknown(f"the power does not return a transformation ({getattr(res_, 'why', type(res_).__name__)[:60]})")
        return res_

    def c_power(k: int):
        def compute(sym, n_):
            t_, _ = trans_(sym, n_)
            x_ = vec_(sym, "p", n_, True)
            t_.__dict__["dim"] = n_ - 1
            t_.__dict__["free_indices"] = 0
            left = apply(x_, power(t_, k))
            right = x_
            for _ in range(abs(k)):
                right = apply(right, t_)
            if k < 0:
                # t**-k undoes k applications: compare t**k applied to t^|k| x with x
                return prop(apply(right, power(t_, k)).array, x_.array)
            return prop(left.array, right.array)
        return compute

    def c_compose(point: bool):
        def compute(sym, n_):
            s_, det_s = trans_(sym, n_, "s")
            t_, det_t = trans_(sym, n_, "t")
            x_ = vec_(sym, "p" if point else "h", n_, point)
            del _DIVISORS[:]
            st = compose(s_, t_)
            divisors = list(_DIVISORS)
            for d_ in divisors:
                # a divisor may vanish only where one of the matrices is singular: it is then c det S^i det T^j (det is irreducible)
                mono = next(iter(d_.t))
                i_ = sum(e_ for s__, e_ in mono if s__.startswith("s")) / n_
                j_ = sum(e_ for s__, e_ in mono if s__.startswith("t")) / n_
                ref = det_s.power(int(i_)) * det_t.power(int(j_)) if i_ == int(i_) and j_ == int(j_) and i_ >= 0 and j_ >= 0 else None
                k0 = next(iter(ref.t)) if ref is not None and ref.t else None
                c_ = d_.t.get(k0, 0) / ref.t[k0] if k0 is not None else 0
                if ref is None or not c_ or not (d_ - ref * LP.const(c_)).is_zero():
                    raise _BadDivisor(d_.show()[:80])
            left = apply(x_, st)
            right = apply(apply(x_, t_), s_)
            return prop(left.array, right.array)
        return compute

    def c_incidence(sym, n_):
        t, det_t = trans_(sym, n_)
        p_, h_ = vec_(sym, "p", n_, True), vec_(sym, "h", n_, False)
        tp, th = apply(p_, t), apply(h_, t)
        return tp.tensor_shape == (1, 0) and th.tensor_shape == (0, 1) and (dot(th, tp) - det_t * dot(h_, p_)).is_zero()

    def c_commute(point: bool, k: int = 2):
        def compute(sym, n_):
            t, _ = trans_(sym, n_)
            objs = [vec_(sym, "abc"[i], n_, point) for i in range(k)]
            joined = dual(objs)
            if len(joined.array.shape) == 2:
                joined.kinds = {"SubspaceTensor", "LineTensor", "Tensor", "ProjectiveTensor"}
            left = apply(joined, t)
            right = dual([apply(o_, t) for o_ in objs])
            return prop(left.array, right.array)
        return compute

    def c_conic(is_dual: bool):
        def compute(sym, n_):
            t, det_t = trans_(sym, n_)
            q = Table.full((n_, n_), lambda idx: sym(f"q{min(idx)}{max(idx)}"))
            conic = TensorSym(q, 2 if is_dual else 0, 0 if is_dual else 2, {"Tensor", "QuadricTensor"})
            x_ = vec_(sym, "l" if is_dual else "p", n_, not is_dual)
            tq, tx = apply(conic, t), apply(x_, t)

            def form(m_: Table, v_: Table) -> LP:
                return sum((v_.data[(i,)] * m_.data[(i, j)] * v_.data[(j,)] for i in range(n_) for j in range(n_)), LP())
            return (form(tq.array, tx.array) - det_t * det_t * form(q, x_.array)).is_zero()
        return compute

    def c_inverse(point: bool):
        def compute(sym, n_):
            t, _ = trans_(sym, n_)
            x_ = vec_(sym, "p" if point else "h", n_, point)
            x0 = x_.array  # (an action that writes into its receiver is C06's aliasing clause, E6.K4: the comparison here is with the coordinates x had)
            back = apply(apply(x_, t), t.inverse())
            # a point comes back as det T x, a hyperplane as det T^(n-1) x (the adjugate of the adjugate): a non-zero polynomial multiple in both cases
            return prop(back.array, x0)
        return compute

    n_ob = 0
    loc = ap.loc
    for n in (3, 4):
        space = "the plane" if n == 3 else "3-space"
        if part == "incidence":
            n_ob += 1
            judge(f"a point and a {'line' if n == 3 else 'plane'} of {space}", c_incidence,
                  "(t*h).(t*p) = det T (h.p): the image of the point lies on the image of the hyperplane exactly when the point lies on the hyperplane",
                  "(t*h).(t*p) is not det T (h.p): incidence is not preserved", n)
            if n == 3:
                for label, point in (("t * join(p, q) and join(t * p, t * q) in the plane", True), ("t * meet(l, m) and meet(t * l, t * m) in the plane", False)):
                    n_ob += 1
                    judge(label, c_commute(point), "both sides are multiples of each other", "the two sides are not multiples of each other", 3)
            if n == 4:
                for label, point, k in (("t * join(p, q, r) and join(t * p, t * q, t * r) in 3-space", True, 3), ("t * meet(e, f, g) and meet(t * e, t * f, t * g) in 3-space", False, 3),
                                        ("t * join(p, q) and join(t * p, t * q): a line of 3-space", True, 2)):
                    n_ob += 1
                    judge(label, c_commute(point, k), "both sides are multiples of each other", "the two sides are not multiples of each other", 4, deep=not (point and k == 3))
            if n == 3:
                for label, is_dual in (("a point on a conic", False), ("a line tangent to a conic, through the dual conic", True)):
                    n_ob += 1
                    judge(label, c_conic(is_dual), "(t*x)^T (t*Q) (t*x) = det T^2 (x^T Q x)",
                          "(t*x)^T (t*Q) (t*x) is not det T^2 (x^T Q x): the image does not lie on the image conic", 3)
        else:
            for label, point in ((f"a point of {space}", True), (f"a {'line' if n == 3 else 'plane'} of {space}", False)):
                n_ob += 1
                judge(label, c_inverse(point), "the matrix of inverse() applied to t*x is a non-zero polynomial multiple of x",
                      "the matrix of inverse() applied to t*x is not a multiple of x: the inverse does not undo the action", n)
            if n == 3:
                # 5, 6, 7: every pattern of odd / even steps an exponentiation by squaring can take (the chain of the tree is uniform in k)
                for k in (0, 1, 2, 3, -1, -2, 5, 6, 7, -7):
                    n_ob += 1
                    judge(f"t**{k} on a point of {space}", c_power(k), f"t**{k} acts like {abs(k)} application(s) of t" + (" undone" if k < 0 else ""),
                          f"t**{k} does not act like {abs(k)} application(s) of t" + (" undone" if k < 0 else ""), n, deep=abs(k) > 3)
            for label, point in ((f"(s * t) * x and s * (t * x) for a point of {space}", True), (f"(s * t) * x and s * (t * x) for a line of {space}", False)):
                if n == 4 and not point:
                    continue  # (the adjugate of a product of two symbolic 4x4 matrices: out of budget)
                n_ob += 1
                judge(label, c_compose(point), "both sides are multiples of each other, and the composition divides by nothing that can vanish for invertible matrices",
                      "(s * t) * x is not a multiple of s * (t * x): the composition is not compatible with the action", n)
    return n_ob


# ---------------------------------------------------------------------------------------------- tangent, polar, dual of a quadric, as values (C14)
def _matvec_hook(a_, k_):
    """matvec(m, v, transpose_a=, adjoint_a=) on tables"""
    if len(a_) == 2 and isinstance(a_[0], Table) and isinstance(a_[1], Table) and len(a_[0].shape) == 2 and set(k_) <= {"transpose_a", "adjoint_a"} \
            and all(isinstance(x, bool) for x in k_.values()):
        m_ = a_[0]
        if k_.get("transpose_a") or k_.get("adjoint_a"):
            m_ = Table((m_.shape[1], m_.shape[0]), {(j, i): x for (i, j), x in m_.data.items()})
        if k_.get("adjoint_a"):
            m_ = _conj(m_)
        return _dot(m_, a_[1])
    return Opaque("matvec")


def _matrix_power_hook(a_, k_):
    if len(a_) == 2 and isinstance(a_[0], Table) and len(a_[0].shape) == 2 and a_[0].shape[0] == a_[0].shape[1] and isinstance(a_[1], int) and 0 <= a_[1] <= 6 and not k_:
        n_ = a_[0].shape[0]
        out = Table.full((n_, n_), lambda idx: LP.const(1 if idx[0] == idx[1] else 0))
        for _ in range(a_[1]):
            out = _dot(out, a_[0])
        return out
    return Opaque("matrix_power")


class Tested(SymObject):
    """the value a predicate compares with zero (np.isclose(value, 0, atol=...)): the predicate holds exactly where the polynomial vanishes"""

    def __init__(self, value):
        self.value = value


def rule_quadric_duality(run: Run, prog: Program) -> int:
    run.rule("E19.polar", "QuadricTensor.tangent, contains, dual and is_tangent interpreted on a symbolic symmetric matrix Q and symbolic points (complex symbols: "
                          "conjugation is an operation on them): the tangent at p is incident with p exactly where p lies on Q; the polar of p contains q exactly "
                          "when the polar of q contains p; the value is_tangent tests for the hyperplane Q p is det Q (p^T Q p) up to a constant, so the tangent "
                          "at a point of the quadric is tangent; dual(dual(Q)) is a non-zero multiple of Q with the dual flag restored")
    quad = prog.find_cls("QuadricTensor")
    if quad is None:
        run.add("E19.polar", "QuadricTensor", "anchors", UNDECIDED, "QuadricTensor not found", "")
        return 0
    meth = {nm: prog.lookup(quad, nm) for nm in ("tangent", "contains", "dual", "is_tangent")}
    if any(v is None for v in meth.values()):
        run.add("E19.polar", "QuadricTensor", "anchors", UNDECIDED, f"not found: {[k for k, v in meth.items() if v is None]}", "")
        return 0
    family = {c.name for c in prog.classes.values() if any(b is quad for b in prog.mro(c))}

    class ConicSym(TensorSym):
        def __init__(self, table: Table, is_dual: bool = False):
            super().__init__(table, 2 if is_dual else 0, 0 if is_dual else 2, {"Tensor", "ProjectiveTensor", "QuadricTensor"})
            self.is_dual = is_dual

        def copy(self):
            return ConicSym(self.array, self.is_dual)

        def rebuild(self, args_, kw_):
            return build(args_, kw_)

        @property
        def dual(self):
            return run_m("dual", self, [])

    def build(args_, kw_):
        a0 = args_[0].array if args_ and isinstance(args_[0], TensorSym) else args_[0] if args_ else None
        flag = kw_.get("is_dual", args_[1] if len(args_) > 1 else False)
        if isinstance(a0, Table) and len(a0.shape) == 2 and isinstance(flag, bool):
            return ConicSym(a0, flag)
        return Opaque("quadric constructor")

    def vecsym(args_, kw_, point: bool):
        a0 = args_[-1] if args_ else None
        if isinstance(a0, Table) and len(a0.shape) == 1:
            return TensorSym(a0, 1 if point else 0, 0 if point else 1, {"PointTensor", "Point", "Tensor"} if point else {"SubspaceTensor", "PlaneTensor", "LineTensor", "Tensor"})
        return Opaque("from_array")

    def matvec_hook(a_, k_):
        if len(a_) == 2 and isinstance(a_[0], Table) and isinstance(a_[1], Table) and len(a_[0].shape) == 2 and set(k_) <= {"transpose_a", "adjoint_a"} \
                and all(isinstance(x, bool) for x in k_.values()):
            m_ = a_[0]
            if k_.get("transpose_a") or k_.get("adjoint_a"):
                m_ = Table((m_.shape[1], m_.shape[0]), {(j, i): x for (i, j), x in m_.data.items()})
            if k_.get("adjoint_a"):
                m_ = _conj(m_)
            return _dot(m_, a_[1])
        return Opaque("matvec")

    def make_interp() -> "Interp":
        it = Interp(prog, None, {})
        it.generic = True
        it.complex_mode = True
        hooks = {"LeviCivitaTensor": lambda a_, k_: levi_civita(a_[0], a_[1] if len(a_) > 1 else k_.get("covariant", True))
                 if a_ and isinstance(a_[0], int) and isinstance(a_[1] if len(a_) > 1 else k_.get("covariant", True), bool) else Opaque("eps"),
                 "TensorDiagram": lambda a_, k_: SymDiagram([tuple(x) for x in a_]) if all(isinstance(x, (list, tuple)) and len(x) == 2 for x in a_) else Opaque("diagram"),
                 "matvec": matvec_hook,
                 "inv": lambda a_, k_: _adjugate_table(a_[0]) if a_ and isinstance(a_[0], Table) else Opaque("inv"),
                 "solve": lambda a_, k_: _dot(_adjugate_table(a_[0]), a_[1]) if len(a_) == 2 and isinstance(a_[0], Table) and isinstance(a_[1], Table) and len(a_[0].shape) == 2 else Opaque("solve"),
                 "isclose": lambda a_, k_: Tested(a_[0]) if len(a_) >= 2 and isinstance(a_[0], (LP, Table)) and (a_[1] == 0 or (isinstance(a_[1], LP) and a_[1].is_zero())) else Opaque("isclose"),
                 "from_array": lambda a_, k_: vecsym(a_, k_, False), "from_tensor": lambda a_, k_: a_[-1],
                 "cls": build}
        for nm in family:
            hooks[nm] = build
        it.hooks = hooks
        return it

    def run_m(name: str, recv, args: list):
        it = make_interp()
        m_ = meth[name]
        try:
            if m_.is_property:
                return it.run_method(m_, recv, [], {})
            return it.run_method(m_, recv, args, {})
        except _Raise as r:
            raise RaisedIn(r.name) from None

    def value_of(x) -> LP:
        if isinstance(x, Tested):
            v = x.value
            if isinstance(v, Table):
                if len(v.data) != 1:
                    raise Unknown("the tested value is not a single number")
                v = next(iter(v.data.values()))
            return v
        raise Unknown(f"the predicate does not test a value against zero ({getattr(x, 'why', type(x).__name__)[:60]})")

    def multiple_of(v: LP, ref: LP) -> bool:
        """v = c ref with a non-zero rational c"""
        if ref.is_zero() or v.is_zero():
            return False
        k0 = next(iter(ref.t))
        c = v.t.get(k0, 0) / ref.t[k0]
        return bool(c) and (v - ref * LP.const(c)).is_zero()

    n_ob = 0
    loc = meth["tangent"].loc
    for n in (3, 4):
        space = "the plane" if n == 3 else "3-space"
        q = Table.full((n, n), lambda idx: LP.sym(f"q{min(idx)}{max(idx)}"))
        conic = ConicSym(q)
        p_ = TensorSym(Table((n,), {(i,): LP.sym(f"p{i}") for i in range(n)}), 1, 0, {"PointTensor", "Point", "Tensor"})
        r_ = TensorSym(Table((n,), {(i,): LP.sym(f"r{i}") for i in range(n)}), 1, 0, {"PointTensor", "Point", "Tensor"})
        form = sum((p_.array.data[(i,)] * q.data[(i, j)] * p_.array.data[(j,)] for i in range(n) for j in range(n)), LP())
        det_q = _det_table(q)

        def dot(a: TensorSym, b: TensorSym) -> LP:
            return sum((a.array.data[(i,)] * b.array.data[(i,)] for i in range(n)), LP())

        def ob(label: str, fn_) -> None:
            nonlocal n_ob
            n_ob += 1
            try:
                ok, good, bad = fn_()
                run.add("E19.polar", "QuadricTensor", f"{label} ({space})", PROVEN if ok else VIOLATION, good if ok else bad, loc)
            except RaisedIn as r:
                run.add("E19.polar", "QuadricTensor", f"{label} ({space})", VIOLATION, f"raises {r.name} for a quadric and a point in general position", loc)
            except (Unknown, NotPolynomial, RecursionError, KeyError, IndexError, TypeError, AttributeError) as ex:
                run.add("E19.polar", "QuadricTensor", f"{label} ({space})", UNDECIDED, f"not read: {type(ex).__name__}: {str(ex)[:100]}", loc)

        def tangent_of(x):
            t = run_m("tangent", conic, [x])
            if not isinstance(t, TensorSym) or not isinstance(t.array, Table) or t.array.shape != (n,):
                raise Unknown(f"tangent does not return a hyperplane ({getattr(t, 'why', type(t).__name__)[:50]})")
            return t

        def c1():
            t = tangent_of(p_)
            v = value_of(run_m("contains", conic, [p_]))
            return (multiple_of(dot(t, p_), form) and multiple_of(v, form),
                    "tangent(p).p and the value contains(p) tests are both p^T Q p up to a constant: the tangent at p passes through p exactly when p lies on the quadric",
                    "tangent(p).p or the value tested by contains(p) is not a multiple of p^T Q p")
        ob("the tangent at a point is incident with the point", c1)

        def c2():
            return ((dot(tangent_of(p_), r_) - dot(tangent_of(r_), p_)).is_zero(), "polar(p).r = polar(r).p identically", "polar(p).r differs from polar(r).p: pole and polar are not reciprocal")
        ob("pole and polar are reciprocal", c2)

        def c3():
            h = tangent_of(p_)
            h.kinds = {"SubspaceTensor", "PlaneTensor", "LineTensor", "Tensor"}
            v = value_of(run_m("is_tangent", conic, [h]))
            return (multiple_of(v, det_q * form), "the value is_tangent tests for the hyperplane Q p is det Q (p^T Q p) up to a constant: it vanishes where p lies on the quadric",
                    "the value is_tangent tests for the hyperplane Q p is not a multiple of det Q (p^T Q p): the tangent at a point of the quadric is not recognised as tangent "
                    "(or hyperplanes that are not tangent are)")
        ob("the tangent at a point of the quadric is tangent", c3)

        def c4():
            d1 = run_m("dual", conic, [])
            if not isinstance(d1, ConicSym):
                raise Unknown(f"dual does not return a quadric ({getattr(d1, 'why', type(d1).__name__)[:50]})")
            d2 = d1.dual
            if not isinstance(d2, ConicSym):
                raise Unknown("dual of the dual is not a quadric")
            keys = sorted(q.data)
            prop = not all(d2.array.data[k].is_zero() for k in keys) and all(
                (d2.array.data[k1] * q.data[k2] - d2.array.data[k2] * q.data[k1]).is_zero() for i_, k1 in enumerate(keys) for k2 in keys[i_ + 1:])
            return (prop and d1.is_dual is True and d2.is_dual is False, "dual(dual(Q)) is a non-zero polynomial multiple of Q, the dual flag is set and restored",
                    "dual(dual(Q)) is not a multiple of Q, or the dual flag is not flipped each time")
        if n == 3:
            ob("dual is an involution", c4)
    return n_ob


class _Captured(Exception):
    def __init__(self, table, flag):
        super().__init__("captured")
        self.table, self.flag = table, flag


def rule_conic_line(run: Run, prog: Program) -> int:
    """C14, intersect(line) in the plane: the matrix whose components are returned is the point pair cut out of the conic by the line"""
    run.rule("E19.isect", "QuadricTensor.intersect(line) for a non-degenerate symbolic conic Q and the line through two symbolic points a, c, interpreted up to the call of "
                          "`components`: the matrix handed on is a non-zero polynomial multiple of C a a^T - B (a c^T + c a^T) + A c c^T with A = a^T Q a, B = a^T Q c, "
                          "C = c^T Q c - the symmetric product of the two points a + t c with A + 2 B t + C t^2 = 0 - and it is handed on as a quadric of the other kind "
                          "(a point pair); that `components` returns the two factors of such a matrix is E19.comp (C15)")
    quad = prog.find_cls("QuadricTensor")
    fn = prog.lookup(quad, "intersect") if quad else None
    if fn is None:
        run.add("E19.isect", "QuadricTensor.intersect", "conic and line", UNDECIDED, "intersect not found", "")
        return 0
    fn = prog.body_of(fn)
    family = {c.name for c in prog.classes.values() if any(b is quad for b in prog.mro(c))}
    q = Table.full((3, 3), lambda idx: LP.sym(f"q{min(idx)}{max(idx)}"))
    a = [LP.sym(f"a{i}") for i in range(3)]
    c = [LP.sym(f"c{i}") for i in range(3)]
    line = [a[1] * c[2] - a[2] * c[1], a[2] * c[0] - a[0] * c[2], a[0] * c[1] - a[1] * c[0]]

    def form(x, y):
        return sum((x[i] * q.data[(i, j)] * y[j] for i in range(3) for j in range(3)), LP())
    aa, bb, cc = form(a, a), form(a, c), form(c, c)
    ref = Table.full((3, 3), lambda idx: cc * a[idx[0]] * a[idx[1]] - bb * (a[idx[0]] * c[idx[1]] + c[idx[0]] * a[idx[1]]) + aa * c[idx[0]] * c[idx[1]])
    n_ob = 0
    for is_dual in (False,):
        n_ob += 1
        label = "a non-degenerate conic and the line through two points"
        conic = TensorSym(q, 0, 2, {"Tensor", "ProjectiveTensor", "QuadricTensor"})
        conic.is_dual = is_dual
        other = TensorSym(Table((3,), {(i,): line[i] for i in range(3)}), 0, 1, {"SubspaceTensor", "LineTensor", "Tensor", "ProjectiveTensor"})

        def capture(args_, kw_):
            t = args_[0].array if args_ and isinstance(args_[0], TensorSym) else args_[0] if args_ else None
            if isinstance(t, Table) and t.shape == (3, 3):
                raise _Captured(t, kw_.get("is_dual", args_[1] if len(args_) > 1 else False))
            return Opaque("quadric constructor")
        it = Interp(prog, None, {})
        it.generic = True
        it.hooks = {"from_array": capture, "cls": capture}
        for nm in family:
            it.hooks[nm] = capture
        got = None
        try:
            it.run_method(fn, conic, [other], {})
            run.add("E19.isect", fn.short, label, UNDECIDED, "no quadric is built from a 3x3 matrix on the path of a non-degenerate conic", fn.loc)
            continue
        except _Captured as cap:
            got = cap
        except RaisedIn as r:
            run.add("E19.isect", fn.short, label, VIOLATION, f"raises {r.name} for a conic and a line in general position", fn.loc)
            continue
        except (Unknown, NotPolynomial, RecursionError, KeyError, IndexError, TypeError, AttributeError) as ex:
            run.add("E19.isect", fn.short, label, UNDECIDED, f"not read: {type(ex).__name__}: {str(ex)[:100]}", fn.loc)
            continue
        keys = sorted(ref.data)
        t = got.table
        prop = not all(t.data[k].is_zero() for k in keys) and all(
            (t.data[k1] * ref.data[k2] - t.data[k2] * ref.data[k1]).is_zero() for i_, k1 in enumerate(keys) for k2 in keys[i_ + 1:])
        if not prop:
            run.add("E19.isect", fn.short, label, VIOLATION,
                    "the matrix whose components are returned is not a multiple of the symmetric product of the two intersection points: the returned points are "
                    "not the points of the conic on the line", fn.loc)
        elif got.flag is not (not is_dual):
            run.add("E19.isect", fn.short, label, VIOLATION,
                    "the point pair is handed to `components` as a quadric of the same kind as the conic: its components are then read as lines, not as points", fn.loc)
        else:
            run.add("E19.isect", fn.short, label, PROVEN, "the matrix handed to `components` is the symmetric product of the two intersection points, as a quadric of the other kind", fn.loc)
    return n_ob


# ---------------------------------------------------------------------------------------------- equality of polygons up to rotation / reversal (C17)
def rule_polytope_eq(run: Run, prog: Program) -> int:
    run.rule("E19.eq", "PolytopeTensor.__eq__ interpreted for a symbolic triangle and quadrilateral of the plane against every permutation of their vertices, each vertex "
                       "of the other operand given by a representative of its own (row k scaled by w_k): the answer is True exactly for the rotations of the vertex "
                       "cycle and of its reversal (all 6 permutations of a triangle, 8 of the 24 of a quadrilateral)")
    cls = prog.find_cls("PolytopeTensor")
    fn = prog.lookup(cls, "__eq__") if cls else None
    if fn is None:
        run.add("E19.eq", "PolytopeTensor.__eq__", "vertex cycles", UNDECIDED, "PolytopeTensor.__eq__ not found", "")
        return 0
    fn = prog.body_of(fn)
    kinds = {c.name for c in prog.classes.values() if any(b is cls for b in prog.mro(c))} | {"PolytopeTensor", "Tensor", "ProjectiveTensor"}

    def is_multiple(a_, k_):
        # rows that are multiples of each other, as polynomials (the arguments are in general position): one truth value per row
        if (len(a_) >= 2 and isinstance(a_[0], Table) and isinstance(a_[1], Table) and len(a_[0].shape) == 2 and len(a_[1].shape) == 2 and a_[0].shape[1] == a_[1].shape[1]
                and (a_[0].shape[0] == a_[1].shape[0] or 1 in (a_[0].shape[0], a_[1].shape[0])) and k_.get("axis", -1) in (-1, 1)):
            rows, cols = max(a_[0].shape[0], a_[1].shape[0]), a_[0].shape[1]
            out = {}
            for r in range(rows):
                x = [a_[0].data[(r if a_[0].shape[0] > 1 else 0, c)] for c in range(cols)]  # (a single row is broadcast against the rows of the other operand)
                y = [a_[1].data[(r if a_[1].shape[0] > 1 else 0, c)] for c in range(cols)]
                out[(r,)] = all((x[i] * y[j] - x[j] * y[i]).is_zero() for i in range(cols) for j in range(i + 1, cols))
            return Table((rows,), out)
        return Opaque("is_multiple")
    n_ob = 0
    for n in (3, 4):
        n_ob += 1
        label = "a triangle of the plane" if n == 3 else "a quadrilateral of the plane"
        verts = Table.full((n, 3), lambda idx: LP.sym(f"v{idx[0]}{idx[1]}"))
        dihedral = {tuple((s + d * k) % n for k in range(n)) for s in range(n) for d in (1, -1)}
        wrong, unread, first = [], 0, None
        for perm in itertools.permutations(range(n)):
            other_t = Table.full((n, 3), lambda idx: LP.sym(f"w{idx[0]}") * verts.data[(perm[idx[0]], idx[1])])
            me = ObjSym(cls, array=verts.copy(), shape=(n, 3), pdim=2, dim=2, free_indices=0)
            me.__dict__["kinds"] = kinds
            ot = ObjSym(cls, array=other_t, shape=(n, 3), pdim=2, dim=2, free_indices=0)
            ot.__dict__["kinds"] = kinds
            it = Interp(prog, cls, {})
            it.generic = True
            it.hooks = {"is_multiple": is_multiple}
            try:
                got = it.run_method(fn, me, [ot], {})
            except (Unknown, NotPolynomial, RecursionError, KeyError, IndexError, TypeError, AttributeError) as ex:
                unread += 1
                first = first or f"{type(ex).__name__}: {str(ex)[:80]}"
                continue
            if not isinstance(got, bool):
                unread += 1
                first = first or f"the answer is not a truth value ({getattr(got, 'why', type(got).__name__)[:60]})"
                continue
            if got != (perm in dihedral):
                wrong.append((perm, got))
        loc = fn.loc
        total = len(list(itertools.permutations(range(n))))
        if wrong:
            perm, got = wrong[0]
            run.add("E19.eq", fn.short, label, VIOLATION,
                    f"{len(wrong)} of {total} vertex orders are answered wrongly, e.g. the order {perm} of the same vertices compares {'equal' if got else 'unequal'}"
                    f" although it is {'not ' if got else ''}a rotation of the vertex cycle or of its reversal", loc)
        elif unread:
            run.add("E19.eq", fn.short, label, UNDECIDED, f"{unread} of {total} vertex orders not read ({first})", loc)
        else:
            run.add("E19.eq", fn.short, label, PROVEN, f"{total} vertex orders, each vertex with a representative of its own: equal exactly for the {len(dihedral)} rotations of the cycle and of its reversal", loc)
    return n_ob
