"""Mutation self-test: textual edits of the CURRENT tree held in memory (nothing is written to disk), one per rule instance.

A breaking variant must be reported with the named rule (and construct); a behaviour-preserving twin must be silent.
A variant whose anchor text is no longer present in the tree is skipped and counted, never an alarm.
"""

from __future__ import annotations

import os
from concurrent.futures import ProcessPoolExecutor
from dataclasses import dataclass, field

from geolint.model import Program, repo_root
from geolint.report import VIOLATION, Run


@dataclass
class Variant:
    name: str
    prop: str
    file: str  # path relative to the repository root
    old: str
    new: str
    expect: str  # rule id that must report a VIOLATION, or "silent"
    construct: str | None = None  # substring of the construct that must be named
    quick: bool = False
    count: int = 1  # how many occurrences of `old` are replaced (first `count`)
    extra: list[tuple[str, str, str]] = field(default_factory=list)  # further (file, old, new) edits of the same variant


VARIANTS: list[Variant] = []


def V(*a, **k) -> None:
    VARIANTS.append(Variant(*a, **k))


def apply_variant(v: Variant, root: str) -> dict[str, str] | None:
    out: dict[str, str] = {}
    for f, old, new in [(v.file, v.old, v.new)] + v.extra:
        path = os.path.join(root, f)
        if f in out:
            src = out[f]
        elif os.path.exists(path):
            with open(path, encoding="utf-8") as fh:
                src = fh.read()
        else:
            return None
        if old not in src:
            return None
        out[f] = src.replace(old, new, v.count)
    return out


def evaluate(v: Variant, root: str, baseline: frozenset = frozenset()) -> dict:
    """baseline: (rule, construct, statement) of the violations the tree under analysis has WITHOUT the variant - they are the tree's, not the variant's"""
    from geolint import checks

    srcs = apply_variant(v, root)
    if srcs is None:
        return {"variant": v.name, "expected": v.expect, "got": "skipped (anchor text not in the tree)", "ok": True, "skipped": True}
    import ast as _ast

    def _dups(tree_) -> set:
        out_ = set()
        for c_ in _ast.walk(tree_):
            if isinstance(c_, _ast.ClassDef):
                names_ = [f_.name for f_ in c_.body if isinstance(f_, (_ast.FunctionDef, _ast.AsyncFunctionDef)) and not any(
                    (getattr(d_, "id", None) or getattr(d_, "attr", None)) in ("overload", "setter", "getter", "deleter") for d_ in f_.decorator_list)]
                out_ |= {(c_.name, n_) for n_ in names_ if names_.count(n_) > 1}
        return out_

    for rel_, src_ in srcs.items():
        try:
            t_new = _ast.parse(src_)
            with open(os.path.join(root, rel_), encoding="utf-8") as fh_:
                t_old = _ast.parse(fh_.read())
            if _dups(t_new) - _dups(t_old):
                # the variant adds a method the analysed tree already defines (a later definition would shadow it): the control cannot be built here
                return {"variant": v.name, "expected": v.expect, "got": f"skipped (the tree already defines what the variant adds: {sorted(_dups(t_new) - _dups(t_old))[0]})", "ok": True, "skipped": True}
        except SyntaxError:
            pass
        try:
            _ast.parse(src_)
        except SyntaxError:
            # the textual edit does not fit the tree under analysis (it was refactored around the anchor): the control cannot be built
            return {"variant": v.name, "expected": v.expect, "got": f"skipped (edit does not give valid syntax on this tree: {rel_})", "ok": True, "skipped": True}
    try:
        prog = Program(root=root, sources=srcs)
        scratch = Run(prop=v.prop, quiet=True, write_evidence=False)
        # a breaking variant names the rule that must report it: the enumerating rules (E13-E15) are skipped when another rule is expected
        scratch.focus = v.expect if v.expect not in ("silent", "missed") else None
        checks.REGISTRY[v.prop](scratch, prog)
    except Exception as e:  # noqa: BLE001
        return {"variant": v.name, "expected": v.expect, "got": f"crashed: {type(e).__name__}: {e}", "ok": False}
    viols = scratch.new_violations()  # a finding that is recorded as open on the tree as it stands is not the variant's doing
    viols = [o for o in viols if (o.rule, o.construct, o.stmt) not in baseline]  # ... nor is a violation the tree has without the variant
    if v.expect == "missed":
        # a breaking variant that is known to be outside the reach of the rule (documented blind spot): recorded, never required
        got = "; ".join(f"{o.rule}@{o.construct}" for o in viols[:3]) or "no violation (UNDECIDED or invisible, as documented)"
        return {"variant": v.name, "expected": "missed (documented blind spot)", "got": got, "ok": True, "blind_spot": True}
    if v.expect == "silent":
        ok = not viols and not scratch.errors
        got = "silent" if ok else "; ".join(f"{o.rule}@{o.construct}" for o in viols[:4]) + ("; errors: " + "; ".join(scratch.errors[:2]) if scratch.errors else "")
    else:
        def names(o) -> bool:
            # the construct is named when every dotted part of the expected name occurs in the reported one (an implementation the public
            # function delegates to, `_intersect_impl`, still names `intersect`)
            if v.construct is None or v.construct in o.construct or v.construct in o.stmt:
                return True
            parts = [x for x in v.construct.split(".") if x]
            return len(parts) > 1 and all(x.strip("_") in o.construct for x in parts)

        hits = [o for o in viols if o.rule == v.expect and names(o)]
        ok = bool(hits)
        got = f"{hits[0].rule}@{hits[0].construct}" if hits else ("no violation" if not viols else "other: " + "; ".join(f"{o.rule}@{o.construct}" for o in viols[:4]))
        if not ok:
            from geolint.report import UNDECIDED as _U

            und = [o for o in scratch.obligations if o.verdict == _U and o.rule == v.expect]
            if und:
                # the tree under analysis was refactored out of the rule's vocabulary: the control cannot be evaluated, which is not a checker fault
                return {"variant": v.name, "expected": v.expect, "got": f"inconclusive: rule {v.expect} is UNDECIDED on this tree ({und[0].message[:80]})",
                        "ok": True, "skipped": True}
    return {"variant": v.name, "expected": v.expect + (f"@{v.construct}" if v.construct else ""), "got": got, "ok": ok}


def _eval_by_index(args) -> dict:
    i, root, baseline = args
    from geolint import variants  # noqa: F401  (fills VARIANTS)

    return evaluate(VARIANTS[i], root, baseline)


def run(run: Run, prog: Program, seed: int, quick_only: bool = False) -> None:
    from geolint import variants  # noqa: F401

    root = prog.root
    idx = [i for i, v in enumerate(VARIANTS) if v.prop == run.prop and (v.quick or not quick_only)]
    if not idx:
        return
    baseline = frozenset((o.rule, o.construct, o.stmt) for o in run.new_violations())
    jobs = min(16, len(idx), os.cpu_count() or 1)
    if jobs > 1 and len(idx) > 2:
        with ProcessPoolExecutor(max_workers=jobs) as ex:
            results = list(ex.map(_eval_by_index, [(i, root, baseline) for i in idx]))
    else:
        results = [evaluate(VARIANTS[i], root, baseline) for i in idx]
    for r in results:
        run.selftest.append(r)
        if not r["ok"]:
            run.error(f"self-test variant '{r['variant']}': expected {r['expected']}, got {r['got']}")
    run.stats["selftest_variants"] = len(results)
    run.stats["selftest_skipped"] = sum(1 for r in results if r.get("skipped"))
