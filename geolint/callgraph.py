"""Call resolution over the package: names, methods by annotation-derived receiver types (dynamic dispatch = union over
subclasses), super(), properties, operators on tensor-typed operands. Falls back to class-hierarchy analysis by name."""

from __future__ import annotations

import ast
from dataclasses import dataclass, field

from geolint.model import ClassInfo, FunctionInfo, Program, walk_no_nested
from geolint.typeval import EMPTY, TypeEval, TypeVal

BINOP_DUNDER = {ast.Add: "add", ast.Sub: "sub", ast.Mult: "mul", ast.Div: "truediv", ast.Pow: "pow", ast.MatMult: "matmul",
                ast.FloorDiv: "floordiv", ast.Mod: "mod"}


@dataclass
class CallSite:
    node: ast.AST
    callees: list[FunctionInfo]
    how: str  # 'name' | 'typed' | 'cha' | 'super' | 'property' | 'operator' | 'ctor' | 'unresolved' | 'external'


@dataclass
class CallGraph:
    prog: Program
    sites: dict[str, list[CallSite]] = field(default_factory=dict)  # function qualname -> sites
    envs: dict[str, dict[str, TypeVal]] = field(default_factory=dict)
    stats: dict[str, int] = field(default_factory=dict)

    def callees(self, fn: FunctionInfo) -> set[str]:
        out = set()
        for s in self.sites.get(fn.qualname, []):
            for c in s.callees:
                out.add(c.qualname)
        return out

    def reachable(self, start: FunctionInfo) -> set[str]:
        seen = {start.qualname}
        todo = [start.qualname]
        while todo:
            q = todo.pop()
            f = self.prog.functions.get(q)
            if f is None:
                continue
            for c in self.callees(f):
                if c not in seen:
                    seen.add(c)
                    todo.append(c)
        return seen


def local_env(prog: Program, te: TypeEval, fn: FunctionInfo) -> dict[str, TypeVal]:
    env = te.param_types(fn)
    # closure variables of nested functions
    if fn.parent is not None:
        outer = local_env(prog, te, fn.parent)
        for k, v in outer.items():
            env.setdefault(k, v)
    for _ in range(2):
        for st in walk_no_nested(fn.node):
            if isinstance(st, ast.Assign) and len(st.targets) == 1:
                tv = te.eval(fn, st.value, env)
                if tv:
                    _bind_join(te, st.targets[0], tv, env)
            elif isinstance(st, ast.AnnAssign) and isinstance(st.target, ast.Name):
                tv = te.from_annotation(fn.module, st.annotation, fn, fn.cls)
                if tv:
                    env[st.target.id] = tv.join(env.get(st.target.id))
            elif isinstance(st, ast.For):
                tv = te.iter_elem(te.eval(fn, st.iter, env))
                if tv:
                    _bind_join(te, st.target, tv, env)
            elif isinstance(st, ast.With):
                pass
            elif isinstance(st, ast.ExceptHandler) and st.name and st.type is not None:
                t = prog.resolve_expr_name(fn.module, st.type, fn)
                if t in prog.classes:
                    env[st.name] = TypeVal(frozenset({t}))
    return env


def _bind_join(te: TypeEval, target: ast.AST, tv: TypeVal, env: dict[str, TypeVal]) -> None:
    if isinstance(target, ast.Name):
        env[target.id] = tv.join(env.get(target.id))
    elif isinstance(target, (ast.Tuple, ast.List)):
        for t in target.elts:
            _bind_join(te, t.value if isinstance(t, ast.Starred) else t, tv.elem or EMPTY, env)


def methods_named(prog: Program, name: str) -> list[FunctionInfo]:
    out = []
    for c in prog.classes.values():
        if name in c.methods:
            out.append(c.methods[name])
    return out


def dispatch_targets(prog: Program, classes, name: str) -> list[FunctionInfo]:
    cache = prog.__dict__.setdefault("_dispatch_cache", {})
    key = (frozenset(q if isinstance(q, str) else q.qualname for q in classes), name)
    if key not in cache:
        cache[key] = _dispatch_targets(prog, classes, name)
    return list(cache[key])


def _dispatch_targets(prog: Program, classes, name: str) -> list[FunctionInfo]:
    seen: dict[str, FunctionInfo] = {}
    for q in classes:
        c = prog.classes[q] if isinstance(q, str) else q
        for k in [c] + prog.subclasses(c, strict=True):
            f = prog.lookup(k, name)
            if f is not None:
                seen[f.qualname] = f
    return list(seen.values())


def ctor_targets(prog: Program, c: ClassInfo, with_subclasses: bool = False) -> list[FunctionInfo]:
    out: dict[str, FunctionInfo] = {}
    ks = [c] + (prog.subclasses(c, strict=True) if with_subclasses else [])
    for k in ks:
        for nm in ("__init__", "__new__"):
            f = prog.lookup(k, nm)
            if f is not None:
                out[f.qualname] = f
    return list(out.values())


def _class_valued_locals(fn: FunctionInfo, selfn: str) -> set[str]:
    out = set()
    for st in walk_no_nested(fn.node):
        if isinstance(st, ast.Assign) and len(st.targets) == 1 and isinstance(st.targets[0], ast.Name):
            v = st.value
            if (isinstance(v, ast.Call) and isinstance(v.func, ast.Name) and v.func.id == "type" and len(v.args) == 1
                    and isinstance(v.args[0], ast.Name) and v.args[0].id == selfn):
                out.add(st.targets[0].id)
            if isinstance(v, ast.Attribute) and v.attr == "__class__" and isinstance(v.value, ast.Name) and v.value.id == selfn:
                out.add(st.targets[0].id)
    return out


def build(prog: Program) -> CallGraph:
    te = TypeEval(prog)
    cg = CallGraph(prog)
    stats = {"typed": 0, "name": 0, "cha": 0, "super": 0, "property": 0, "operator": 0, "ctor": 0, "unresolved": 0, "external": 0}
    tensor = prog.find_cls("Tensor")
    for fn in prog.package_functions():
        env = local_env(prog, te, fn)
        cg.envs[fn.qualname] = env
        sites: list[CallSite] = []
        selfn = fn.params()[0].arg if (fn.cls is not None and not fn.is_staticmethod and fn.params()) else None

        def add(node, callees, how):
            stats[how] = stats.get(how, 0) + 1
            sites.append(CallSite(node, callees, how))

        for node in walk_no_nested(fn.node):
            if isinstance(node, ast.Call):
                f = node.func
                # super().m(...)
                if isinstance(f, ast.Attribute) and isinstance(f.value, ast.Call) and isinstance(f.value.func, ast.Name) and f.value.func.id == "super":
                    tg: dict[str, FunctionInfo] = {}
                    if fn.cls is not None:
                        owner = fn.cls
                        if f.value.args:  # super(K, cls)
                            t = prog.resolve_expr_name(fn.module, f.value.args[0], fn)
                            owner = prog.classes.get(t, owner)
                        for s in prog.subclasses(fn.cls):
                            m = prog.lookup_after(s, owner, f.attr)
                            if m is not None:
                                tg[m.qualname] = m
                    add(node, list(tg.values()), "super")
                    continue
                # type(self)(...) / self.__class__(...) / cls(...) / self._element_class(...)
                if isinstance(f, ast.Call) and isinstance(f.func, ast.Name) and f.func.id == "type" and fn.cls is not None:
                    add(node, ctor_targets(prog, fn.cls, True), "ctor")
                    continue
                if isinstance(f, ast.Attribute) and f.attr == "__class__" and fn.cls is not None:
                    add(node, ctor_targets(prog, fn.cls, True), "ctor")
                    continue
                if isinstance(f, ast.Attribute) and f.attr == "_element_class" and fn.cls is not None:
                    tg = {}
                    for s in prog.subclasses(fn.cls):
                        e = te.element_class(s)
                        if e is not None:
                            for m in ctor_targets(prog, e):
                                tg[m.qualname] = m
                    add(node, list(tg.values()), "ctor")
                    continue
                if isinstance(f, ast.Name) and fn.cls is not None and selfn is not None and f.id in _class_valued_locals(fn, selfn):
                    add(node, ctor_targets(prog, fn.cls, True), "ctor")
                    continue
                if isinstance(f, ast.Name):
                    if fn.is_classmethod and fn.params() and f.id == fn.params()[0].arg and fn.cls is not None:
                        add(node, ctor_targets(prog, fn.cls, True), "ctor")
                        continue
                    t = prog.resolve_name(fn.module, f.id, fn)
                    if f.id in env and env[f.id].classes and t is None:
                        add(node, dispatch_targets(prog, env[f.id].classes, "__call__"), "typed")
                        continue
                    if t in prog.functions:
                        add(node, [prog.functions[t]], "name")
                    elif t in prog.classes:
                        add(node, ctor_targets(prog, prog.classes[t]), "ctor")
                    elif t is None:
                        # nested function defined in this function?
                        q = f"{fn.qualname}.<locals>.{f.id}"
                        if q in prog.functions:
                            add(node, [prog.functions[q]], "name")
                        elif f.id in __builtins__ if isinstance(__builtins__, dict) else hasattr(__builtins__, f.id):
                            add(node, [], "external")
                        else:
                            add(node, [], "unresolved")
                    else:
                        add(node, [], "external")
                    continue
                if isinstance(f, ast.Attribute) and isinstance(f.value, (ast.Constant, ast.JoinedStr)):
                    add(node, [], "external")
                    continue
                if isinstance(f, ast.Attribute):
                    # Class.method(...) / module.func(...)
                    t = prog.resolve_expr_name(fn.module, f, fn)
                    if t in prog.functions:
                        add(node, [prog.functions[t]], "name")
                        continue
                    base_t = prog.resolve_expr_name(fn.module, f.value, fn)
                    if base_t in prog.classes:
                        m = prog.lookup(prog.classes[base_t], f.attr)
                        if m is not None:
                            # classmethods called on a class: cls may be any subclass only if called via cls; here exact
                            add(node, [m], "name")
                            continue
                    if base_t is not None and base_t not in prog.classes and base_t not in prog.functions and prog.global_value(base_t) is None and not base_t.startswith("geometer"):
                        add(node, [], "external")
                        continue
                    recv = te.eval(fn, f.value, env)
                    if recv.classes:
                        tg = dispatch_targets(prog, recv.classes, f.attr)
                        add(node, tg, "typed" if tg else "unresolved")
                        continue
                    if recv.is_array or (recv.elem is not None):
                        add(node, [], "external")
                        continue
                    tg = methods_named(prog, f.attr)
                    add(node, tg, "cha" if tg else "external")
                    continue
                add(node, [], "unresolved")
            elif isinstance(node, ast.Attribute) and isinstance(node.ctx, ast.Load):
                recv = te.eval(fn, node.value, env)
                if recv.classes:
                    tg = [m for m in dispatch_targets(prog, recv.classes, node.attr) if m.is_property]
                    if tg:
                        add(node, tg, "property")
            elif isinstance(node, ast.BinOp) and type(node.op) in BINOP_DUNDER:
                core = BINOP_DUNDER[type(node.op)]
                l, r = te.eval(fn, node.left, env), te.eval(fn, node.right, env)
                tg = {}
                if l.classes:
                    for m in dispatch_targets(prog, l.classes, f"__{core}__"):
                        tg[m.qualname] = m
                if r.classes:
                    for m in dispatch_targets(prog, r.classes, f"__r{core}__"):
                        tg[m.qualname] = m
                if tg:
                    add(node, list(tg.values()), "operator")
            elif isinstance(node, ast.UnaryOp) and isinstance(node.op, ast.USub):
                o = te.eval(fn, node.operand, env)
                if o.classes:
                    add(node, dispatch_targets(prog, o.classes, "__neg__"), "operator")
            elif isinstance(node, ast.Compare) and len(node.ops) == 1 and isinstance(node.ops[0], (ast.Eq, ast.NotEq, ast.In, ast.NotIn)):
                l = te.eval(fn, node.left, env)
                r = te.eval(fn, node.comparators[0], env)
                if isinstance(node.ops[0], (ast.In, ast.NotIn)):
                    # x in list_of_tensors -> __eq__ of the elements
                    cl = (r.elem.classes if r.elem else frozenset()) | l.classes
                else:
                    cl = l.classes | r.classes
                if cl:
                    add(node, dispatch_targets(prog, cl, "__eq__"), "operator")
            elif isinstance(node, ast.Subscript):
                recv = te.eval(fn, node.value, env)
                if recv.classes:
                    nm = "__getitem__" if isinstance(node.ctx, ast.Load) else "__setitem__"
                    add(node, dispatch_targets(prog, recv.classes, nm), "operator")
            elif isinstance(node, (ast.For, ast.comprehension)):
                it = te.eval(fn, node.iter, env)
                if it.classes:
                    add(node.iter, dispatch_targets(prog, it.classes, "__iter__"), "operator")
        cg.sites[fn.qualname] = sites
    cg.stats = stats
    return cg
