"""E1 - interprocedural effect and alias analysis (purity). Serves C12 and the cache clause of C05.

Part 1: summaries, bindings and substitution."""

from __future__ import annotations

import ast
from dataclasses import dataclass, field, replace

from geolint import av as A
from geolint.av import AV, DEF, SOME, UNK
from geolint.model import ClassInfo, FunctionInfo, Program, norm_stmt
from geolint.typeval import TypeEval


@dataclass(frozen=True)
class Effect:
    kind: str  # 'mem' (in-place write into array memory) | 'attr' (attribute rebinding) | 'cont' (container mutation) | 'global'
    path: str
    attr: str = ""

    def key(self):
        return (self.kind, self.path, self.attr)


@dataclass
class EffectInfo:
    cert: int
    origin: tuple  # (rel, line, stmt text, function short)
    chain: tuple = ()  # call chain: ((caller short, rel, line), ...), outermost first
    value_fresh: bool = True  # for container stores: the stored value was fresh at the time of the store
    note: str = ""


@dataclass
class Summary:
    effects: dict = field(default_factory=dict)  # Effect -> EffectInfo
    ret: AV | None = None
    self_out: AV | None = None  # for __init__/__new__: the constructed object at exit
    undecided: list = field(default_factory=list)  # (rel, line, text, reason)

    def sig(self):
        return (frozenset((e, i.cert) for e, i in self.effects.items()), self.ret, self.self_out)


def add_effect(effects: dict, e: Effect, info: EffectInfo) -> None:
    old = effects.get(e)
    if old is None or info.cert > old.cert:
        effects[e] = info


class Binding:
    """Actual values of a callee's formal parameters at one call site."""

    def __init__(self, params: dict[str, AV]) -> None:
        self.params = params
        self._cache: dict[str, AV] = {}

    def resolve(self, engine: "Engine", path: str) -> AV | None:
        """Actual value denoted by a callee path P:name/sel/sel... ; None when the formal is unbound."""
        if path in self._cache:
            return self._cache[path]
        root, sels = A.split_path(path)
        if not root.startswith("P:"):
            return None
        cur = self.params.get(root[2:])
        if cur is None:
            return None
        for s in sels:
            cur = A.elem_of(cur) if s == "[]" else engine.load_attr(cur, s)
        self._cache[path] = cur
        return cur


def subst_av(engine: "Engine", v: AV | None, b: Binding, depth: int = 0) -> AV | None:
    if v is None:
        return None
    ident, share, mem, types = set(), set(), {}, set(v.types)
    kind = v.kind
    extra_attrs: tuple = ()
    extra_elem = None
    for p in v.ident:
        if p.startswith("P:"):
            r = b.resolve(engine, p)
            if r is None:
                continue
            ident |= r.ident
            share |= r.share
            types |= r.types
            if len(v.ident) == 1:
                if kind in (A.UNKN, A.ALIKE):
                    kind = r.kind if r.kind != A.BOTTOM else kind
                extra_attrs = r.attrs
                extra_elem = r.elem
                if r.const is not None and v.const is None and kind == A.IMM:
                    v = replace(v, const=r.const)
        else:
            ident.add(p)
    for p in v.share:
        if p.startswith("P:"):
            r = b.resolve(engine, p)
            if r is not None:
                share |= r.ident | r.share
        else:
            share.add(p)
    for p, c in v.mem:
        if p.startswith("P:"):
            r = b.resolve(engine, p)
            if r is not None:
                for q, c2 in r.mem:
                    mem[q] = max(mem.get(q, 0), min(c, c2))
        else:
            mem[p] = max(mem.get(p, 0), c)
    elem = subst_av(engine, v.elem, b, depth + 1) if depth < 3 else None
    if elem is None and extra_elem is not None:
        elem = extra_elem
    attrs = tuple((k, subst_av(engine, x, b, depth + 1)) for k, x in v.attrs) if depth < 3 else ()
    if not attrs and extra_attrs:
        attrs = extra_attrs
    return AV(kind=kind, ident=frozenset(ident), mem=frozenset(mem.items()), share=frozenset(share), elem=elem,
              types=frozenset(types), attrs=attrs, const=v.const)


PARAM_KIND_BY_ANN = (
    ("NDArray", A.ND), ("ndarray", A.ND), ("ArrayLike", A.ALIKE),
)


def kind_from_annotation(src: str, has_classes: bool) -> str:
    s = src.replace(" ", "")
    if not s:
        return A.UNKN
    parts = [p for p in s.replace("Union[", "").replace("Optional[", "").replace("]", "").split("|")]
    kinds = set()
    for p in parts:
        base = p.split("[")[0].split(".")[-1]
        if base in ("NDArray", "ndarray"):
            kinds.add(A.ND)
        elif base in ("ArrayLike",):
            kinds.add(A.ALIKE)
        elif base in ("int", "float", "bool", "str", "None", "complex", "Number", "bytes", "slice", "TensorIndex", "Shape", "DTypeLike",
                      "float64", "int_", "bool_", "Literal"):
            kinds.add(A.IMM)
        elif base in ("list", "List", "Sequence", "Iterable", "Iterator"):
            kinds.add(A.LIST)
        elif base in ("tuple", "Tuple"):
            kinds.add(A.TUPLE)
        elif base in ("dict", "Dict"):
            kinds.add(A.DICT)
        elif base in ("set", "Set", "frozenset"):
            kinds.add(A.SET)
        elif base in ("Any", "object", "ufunc", "Callable", "type"):
            kinds.add(A.UNKN)
        else:
            kinds.add(A.TENSOR if has_classes else A.UNKN)
    kinds.discard(A.IMM) if len(kinds) > 1 else None
    if len(kinds) == 1:
        return next(iter(kinds))
    if kinds <= {A.ND, A.ALIKE}:
        return A.ALIKE
    if kinds <= {A.TENSOR, A.ALIKE, A.ND}:
        return A.ALIKE if A.TENSOR not in kinds else A.UNKN
    return A.UNKN
