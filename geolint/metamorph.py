"""Semantics-preserving source transformations (metamorphic test of the checkers: a rule that fires on the rewritten tree but
not on the original one reads the shape of a statement instead of what it computes).

Every operator rewrites all eligible sites of a module and returns (new source, number of sites). The transformations are
chosen to be behaviour-preserving for ANY Python program, not just for this package:

  invert_if      if c: A else: B            ->  if not (c): B else: A        (plain if/else, no elif)
  elif_to_else   if a: A elif b: B ...       ->  if a: A else: (if b: B ...)
  return_local   return E                    ->  _ret = E; return _ret
  nest_and       if a and b: A   (no else)   ->  if a: (if b: A)
  else_after_return  if c: ...return; REST   ->  if c: ...return  else: REST     (inside function bodies)
  rename_locals  every function-local name x (not a parameter, global, nonlocal, or used in a nested scope) -> x_
  temp_test      if <call or compare>: ...   ->  _t = <test>; if _t: ...         (if statements without elif chains before them)
"""

from __future__ import annotations

import ast
import copy
import symtable


class _InvertIf(ast.NodeTransformer):
    n = 0

    def visit_If(self, node: ast.If):
        self.generic_visit(node)
        if node.orelse and not (len(node.orelse) == 1 and isinstance(node.orelse[0], ast.If)):
            self.n += 1
            test = node.test.operand if isinstance(node.test, ast.UnaryOp) and isinstance(node.test.op, ast.Not) else ast.UnaryOp(op=ast.Not(), operand=node.test)
            return ast.If(test=test, body=node.orelse, orelse=node.body)
        return node


class _ElifToElse(ast.NodeTransformer):
    n = 0

    def visit_If(self, node: ast.If):
        self.generic_visit(node)
        if len(node.orelse) == 1 and isinstance(node.orelse[0], ast.If):
            self.n += 1
            inner = node.orelse[0]
            # a `pass` in front makes ast.unparse print `else:` + nested `if` instead of `elif`
            node.orelse = [ast.Pass(), inner]
        return node


class _ReturnLocal(ast.NodeTransformer):
    n = 0

    def _block(self, stmts):
        out = []
        for st in stmts:
            if isinstance(st, ast.Return) and st.value is not None and not isinstance(st.value, (ast.Name, ast.Constant)):
                self.n += 1
                out.append(ast.Assign(targets=[ast.Name(id="_ret", ctx=ast.Store())], value=st.value, lineno=st.lineno))
                out.append(ast.Return(value=ast.Name(id="_ret", ctx=ast.Load())))
            else:
                out.append(st)
        return out

    def generic_visit(self, node):
        super().generic_visit(node)
        if isinstance(node, ast.Lambda):
            return node
        for f in ("body", "orelse", "finalbody"):
            v = getattr(node, f, None)
            if isinstance(v, list) and v and isinstance(v[0], ast.stmt):
                setattr(node, f, self._block(v))
        return node


class _NestAnd(ast.NodeTransformer):
    n = 0

    def visit_If(self, node: ast.If):
        self.generic_visit(node)
        if not node.orelse and isinstance(node.test, ast.BoolOp) and isinstance(node.test.op, ast.And):
            self.n += 1
            first, rest = node.test.values[0], node.test.values[1:]
            inner_test = rest[0] if len(rest) == 1 else ast.BoolOp(op=ast.And(), values=rest)
            return ast.If(test=first, body=[ast.If(test=inner_test, body=node.body, orelse=[])], orelse=[])
        return node


def _always_leaves(stmts) -> bool:
    if not stmts:
        return False
    last = stmts[-1]
    if isinstance(last, (ast.Return, ast.Raise)):
        return True
    if isinstance(last, ast.If) and last.orelse:
        return _always_leaves(last.body) and _always_leaves(last.orelse)
    return False


class _ElseAfterReturn(ast.NodeTransformer):
    n = 0

    def visit_FunctionDef(self, node: ast.FunctionDef):
        self.generic_visit(node)
        node.body = self._block(node.body)
        return node

    def _block(self, stmts):
        for i, st in enumerate(stmts):
            if isinstance(st, ast.If) and not st.orelse and _always_leaves(st.body) and i + 1 < len(stmts):
                rest = stmts[i + 1:]
                if any(isinstance(x, (ast.FunctionDef, ast.ClassDef, ast.Import, ast.ImportFrom)) for x in rest):
                    continue
                self.n += 1
                st.orelse = self._block(rest)
                return stmts[:i + 1]
        return stmts


class _TempTest(ast.NodeTransformer):
    n = 0

    def _block(self, stmts):
        out = []
        for st in stmts:
            if isinstance(st, ast.If) and isinstance(st.test, (ast.Call, ast.Compare, ast.UnaryOp)):
                self.n += 1
                out.append(ast.Assign(targets=[ast.Name(id=f"_t{self.n}", ctx=ast.Store())], value=st.test, lineno=st.lineno))
                st.test = ast.Name(id=f"_t{self.n}", ctx=ast.Load())
            out.append(st)
        return out

    def generic_visit(self, node):
        super().generic_visit(node)
        if isinstance(node, (ast.FunctionDef, ast.For, ast.While, ast.With, ast.Try)):
            for f in ("body", "finalbody"):
                v = getattr(node, f, None)
                if isinstance(v, list) and v and isinstance(v[0], ast.stmt):
                    setattr(node, f, self._block(v))
        if isinstance(node, ast.If):
            node.body = self._block(node.body)  # never the orelse: an `elif` test must stay where it is evaluated
        return node


class _SplitOr(ast.NodeTransformer):
    """if a or b: <leaves>   ->   if a: <leaves>  if b: <leaves>"""
    n = 0

    def _block(self, stmts):
        out = []
        for st in stmts:
            if isinstance(st, ast.If) and not st.orelse and isinstance(st.test, ast.BoolOp) and isinstance(st.test.op, ast.Or) \
                    and len(st.body) == 1 and isinstance(st.body[0], (ast.Return, ast.Raise)):
                self.n += 1
                for v in st.test.values:
                    out.append(ast.If(test=v, body=[copy.deepcopy(x) for x in st.body], orelse=[], lineno=st.lineno))
            else:
                out.append(st)
        return out

    def generic_visit(self, node):
        super().generic_visit(node)
        for f in ("body", "orelse", "finalbody"):
            v = getattr(node, f, None)
            if isinstance(v, list) and v and isinstance(v[0], ast.stmt):
                if f == "orelse" and isinstance(node, ast.If) and len(v) == 1 and isinstance(v[0], ast.If):
                    continue  # an elif chain: splitting would change which tests run
                setattr(node, f, self._block(v))
        return node


class _DeMorgan(ast.NodeTransformer):
    n = 0

    def visit_UnaryOp(self, node: ast.UnaryOp):
        self.generic_visit(node)
        if isinstance(node.op, ast.Not) and isinstance(node.operand, ast.BoolOp):
            self.n += 1
            op = ast.Or() if isinstance(node.operand.op, ast.And) else ast.And()
            return ast.BoolOp(op=op, values=[v.operand if isinstance(v, ast.UnaryOp) and isinstance(v.op, ast.Not) else ast.UnaryOp(op=ast.Not(), operand=v)
                                             for v in node.operand.values])
        return node


class _IfExpToIf(ast.NodeTransformer):
    """x = A if c else B   ->   if c: x = A  else: x = B        return A if c else B -> if c: return A else: return B"""
    n = 0

    def _block(self, stmts):
        out = []
        for st in stmts:
            if isinstance(st, ast.Assign) and isinstance(st.value, ast.IfExp) and len(st.targets) == 1 and isinstance(st.targets[0], ast.Name):
                self.n += 1
                v = st.value
                out.append(ast.If(test=v.test, body=[ast.Assign(targets=st.targets, value=v.body, lineno=st.lineno)],
                                  orelse=[ast.Assign(targets=copy.deepcopy(st.targets), value=v.orelse, lineno=st.lineno)], lineno=st.lineno))
            elif isinstance(st, ast.Return) and isinstance(st.value, ast.IfExp):
                self.n += 1
                v = st.value
                out.append(ast.If(test=v.test, body=[ast.Return(value=v.body)], orelse=[ast.Return(value=v.orelse)], lineno=st.lineno))
            else:
                out.append(st)
        return out

    def generic_visit(self, node):
        super().generic_visit(node)
        if isinstance(node, ast.ClassDef) or isinstance(node, ast.Module):
            return node
        for f in ("body", "orelse", "finalbody"):
            v = getattr(node, f, None)
            if isinstance(v, list) and v and isinstance(v[0], ast.stmt):
                setattr(node, f, self._block(v))
        return node


class _IfToIfExp(ast.NodeTransformer):
    n = 0

    def visit_If(self, node: ast.If):
        self.generic_visit(node)
        if len(node.body) == 1 and len(node.orelse) == 1:
            a, b = node.body[0], node.orelse[0]
            if isinstance(a, ast.Return) and isinstance(b, ast.Return) and a.value is not None and b.value is not None:
                self.n += 1
                return ast.Return(value=ast.IfExp(test=node.test, body=a.value, orelse=b.value), lineno=node.lineno)
            if isinstance(a, ast.Assign) and isinstance(b, ast.Assign) and len(a.targets) == 1 and len(b.targets) == 1 \
                    and isinstance(a.targets[0], ast.Name) and isinstance(b.targets[0], ast.Name) and a.targets[0].id == b.targets[0].id:
                self.n += 1
                return ast.Assign(targets=a.targets, value=ast.IfExp(test=node.test, body=a.value, orelse=b.value), lineno=node.lineno)
        return node


class _TupleSplit(ast.NodeTransformer):
    """a, b = E1, E2   ->   _s1 = E1; _s2 = E2; a = _s1; b = _s2"""
    n = 0

    def _block(self, stmts):
        out = []
        for st in stmts:
            if isinstance(st, ast.Assign) and len(st.targets) == 1 and isinstance(st.targets[0], ast.Tuple) and isinstance(st.value, ast.Tuple) \
                    and len(st.targets[0].elts) == len(st.value.elts) and not any(isinstance(x, ast.Starred) for x in st.targets[0].elts + st.value.elts):
                self.n += 1
                names = [f"_s{self.n}_{i}" for i in range(len(st.value.elts))]
                for nm, v in zip(names, st.value.elts):
                    out.append(ast.Assign(targets=[ast.Name(id=nm, ctx=ast.Store())], value=v, lineno=st.lineno))
                for nm, t in zip(names, st.targets[0].elts):
                    out.append(ast.Assign(targets=[t], value=ast.Name(id=nm, ctx=ast.Load()), lineno=st.lineno))
            else:
                out.append(st)
        return out

    def generic_visit(self, node):
        super().generic_visit(node)
        if isinstance(node, (ast.ClassDef, ast.Module)):
            return node
        for f in ("body", "orelse", "finalbody"):
            v = getattr(node, f, None)
            if isinstance(v, list) and v and isinstance(v[0], ast.stmt):
                setattr(node, f, self._block(v))
        return node


class _CompareFlip(ast.NodeTransformer):
    n = 0
    FLIP = {ast.Lt: ast.Gt, ast.Gt: ast.Lt, ast.LtE: ast.GtE, ast.GtE: ast.LtE}

    def visit_Compare(self, node: ast.Compare):
        self.generic_visit(node)
        if len(node.ops) == 1 and type(node.ops[0]) in self.FLIP:
            self.n += 1
            return ast.Compare(left=node.comparators[0], ops=[self.FLIP[type(node.ops[0])]()], comparators=[node.left])
        return node


class _HoistCalls(ast.NodeTransformer):
    """y = f(g(a), ...)  ->  _h = g(a); y = f(_h, ...)   (first positional argument of the outermost call only: it is evaluated first)"""
    n = 0

    def _block(self, stmts):
        out = []
        for st in stmts:
            val = st.value if isinstance(st, (ast.Assign, ast.Return)) else None
            if isinstance(val, ast.Call) and val.args and isinstance(val.args[0], ast.Call) and isinstance(val.func, (ast.Name, ast.Attribute)) \
                    and not (isinstance(val.func, ast.Attribute) and not isinstance(val.func.value, ast.Name)) \
                    and not (isinstance(val.func, ast.Name) and val.func.id in ("super", "cast", "isinstance", "type")):
                inner = val.args[0]
                if not any(isinstance(x, (ast.Starred,)) for x in [inner]) and not (isinstance(inner.func, ast.Name) and inner.func.id == "super"):
                    self.n += 1
                    nm = f"_h{self.n}"
                    out.append(ast.Assign(targets=[ast.Name(id=nm, ctx=ast.Store())], value=inner, lineno=st.lineno))
                    val.args[0] = ast.Name(id=nm, ctx=ast.Load())
            out.append(st)
        return out

    def generic_visit(self, node):
        super().generic_visit(node)
        if isinstance(node, (ast.ClassDef, ast.Module)):
            return node
        for f in ("body", "orelse", "finalbody"):
            v = getattr(node, f, None)
            if isinstance(v, list) and v and isinstance(v[0], ast.stmt):
                setattr(node, f, self._block(v))
        return node


def _rename_locals(src: str) -> tuple[str, int]:
    tree = ast.parse(src)
    table = symtable.symtable(src, "<m>", "exec")
    count = 0

    def collect(tab, acc):
        for ch in tab.get_children():
            acc.append(ch)
            collect(ch, acc)

    tabs: list = []
    collect(table, tabs)
    by_line: dict[tuple[str, int], symtable.SymbolTable] = {(t.get_name(), t.get_lineno()): t for t in tabs if t.get_type() == "function"}

    class R(ast.NodeTransformer):
        def visit_FunctionDef(self, node: ast.FunctionDef):
            nonlocal count
            tab = by_line.get((node.name, node.lineno))
            # decorators shift the lineno symtable reports on some versions: fall back to a search by name
            if tab is None:
                c = [t for (nm, _l), t in by_line.items() if nm == node.name]
                tab = c[0] if len(c) == 1 else None
            self.generic_visit(node)
            if tab is None:
                return node
            nested_uses = set()
            for ch in tab.get_children():
                stack = [ch]
                while stack:
                    t = stack.pop()
                    nested_uses |= set(t.get_identifiers())
                    stack += t.get_children()
            # symtable no longer lists comprehensions as child scopes from Python 3.12 on (PEP 709): collect the names used inside nested
            # functions, lambdas and comprehensions from the syntax tree as well (the first iterable of a comprehension belongs to the enclosing scope)
            for sub in ast.walk(node):
                if sub is node:
                    continue
                if isinstance(sub, (ast.FunctionDef, ast.AsyncFunctionDef, ast.Lambda, ast.ClassDef)):
                    nested_uses |= {x.id for x in ast.walk(sub) if isinstance(x, ast.Name)}
                elif isinstance(sub, (ast.ListComp, ast.SetComp, ast.DictComp, ast.GeneratorExp)):
                    first_iter = {id(x) for x in ast.walk(sub.generators[0].iter)}
                    nested_uses |= {x.id for x in ast.walk(sub) if isinstance(x, ast.Name) and id(x) not in first_iter}
            names = set()
            for s in tab.get_symbols():
                if s.is_local() and s.is_assigned() and not s.is_parameter() and not s.is_global() and not s.is_nonlocal() \
                        and not s.is_imported() and not s.is_namespace() and s.get_name() not in nested_uses and not s.get_name().startswith("__"):
                    names.add(s.get_name())
            if not names:
                return node

            class N(ast.NodeTransformer):
                def visit_Name(self, n: ast.Name):
                    if n.id in names:
                        n.id = n.id + "_"
                    return n

                def visit_FunctionDef(self, n):
                    return n  # nested scopes are left alone (their uses excluded the name above)

                visit_Lambda = visit_ClassDef = visit_AsyncFunctionDef = visit_FunctionDef

                def visit_ListComp(self, n):
                    n.generators[0].iter = self.visit(n.generators[0].iter)  # evaluated in the enclosing scope
                    return n

                def visit_ExceptHandler(self, n):
                    if n.name in names:
                        n.name = n.name + "_"
                    self.generic_visit(n)
                    return n

                visit_SetComp = visit_DictComp = visit_GeneratorExp = visit_ListComp

            for i, st in enumerate(node.body):
                node.body[i] = N().visit(st)
            count += len(names)
            return node

    tree = R().visit(tree)
    ast.fix_missing_locations(tree)
    return ast.unparse(tree) + "\n", count


def _via(cls):
    def run(src: str) -> tuple[str, int]:
        tree = ast.parse(src)
        t = cls()
        t.n = 0
        tree = t.visit(tree)
        ast.fix_missing_locations(tree)
        return ast.unparse(tree) + "\n", t.n
    return run


def _unparse_only(src: str) -> tuple[str, int]:
    return ast.unparse(ast.parse(src)) + "\n", 1


class _WrapHelper(ast.NodeTransformer):
    """def m(self, a, b=1): BODY   ->   def m(self, a, b=1): return self._m_impl(a, b)  +  def _m_impl(self, a, b): BODY
    (plain methods and module-level functions with simple positional parameters only; decorated functions, dunders of the data
    model that the rules resolve by name, generators and functions using super() without arguments are left alone)"""
    n = 0
    only: set | None = None
    dunders = False

    def _eligible(self, f: ast.FunctionDef, in_class: bool) -> bool:
        if f.decorator_list or f.args.vararg or f.args.kwarg or f.args.kwonlyargs or f.args.posonlyargs:
            return False
        if self.dunders:
            if not (f.name.startswith("__") and f.name.endswith("__")) or f.name in ("__init_subclass__", "__class_getitem__", "__new__"):
                return False
        elif f.name.startswith("_"):
            return False
        if self.only is not None and f.name not in self.only:
            return False
        for x in ast.walk(f):
            if isinstance(x, (ast.Yield, ast.YieldFrom, ast.Await)):
                return False
            if isinstance(x, ast.Name) and x.id in ("super", "__class__", "locals"):
                return False
        if in_class and not f.args.args:
            return False
        return True

    def _wrap(self, f: ast.FunctionDef, in_class: bool) -> list[ast.stmt]:
        self.n += 1
        impl_name = f"_{f.name.strip('_')}_impl"
        params = [a.arg for a in f.args.args]
        impl_args = copy.deepcopy(f.args)
        impl_args.defaults = []
        impl = ast.FunctionDef(name=impl_name, args=impl_args, body=f.body, decorator_list=[], returns=copy.deepcopy(f.returns), lineno=f.lineno,
                               type_params=[])
        doc = [f.body[0]] if f.body and isinstance(f.body[0], ast.Expr) and isinstance(getattr(f.body[0], "value", None), ast.Constant) \
            and isinstance(f.body[0].value.value, str) else []
        if in_class:
            call = ast.Call(func=ast.Attribute(value=ast.Name(id=params[0], ctx=ast.Load()), attr=impl_name, ctx=ast.Load()),
                            args=[ast.Name(id=p, ctx=ast.Load()) for p in params[1:]], keywords=[])
        else:
            call = ast.Call(func=ast.Name(id=impl_name, ctx=ast.Load()), args=[ast.Name(id=p, ctx=ast.Load()) for p in params], keywords=[])
        outer = ast.FunctionDef(name=f.name, args=f.args, body=doc + [ast.Return(value=call)], decorator_list=[], returns=f.returns, lineno=f.lineno,
                                type_params=[])
        if doc:
            impl.body = impl.body[1:] or [ast.Pass()]
        return [outer, impl]

    def visit_ClassDef(self, node: ast.ClassDef):
        new = []
        for st in node.body:
            if isinstance(st, ast.FunctionDef) and self._eligible(st, True):
                new += self._wrap(st, True)
            else:
                new.append(st)
        node.body = new
        return node

    def visit_Module(self, node: ast.Module):
        new = []
        for st in node.body:
            if isinstance(st, ast.FunctionDef) and self._eligible(st, False):
                new += self._wrap(st, False)
            elif isinstance(st, ast.ClassDef):
                new.append(self.visit_ClassDef(st))
            else:
                new.append(st)
        node.body = new
        return node


class _WrapDunders(_WrapHelper):
    dunders = True


def _compose(src: str) -> tuple[str, int]:
    total = 0
    for op in ("elif_to_else", "nest_and", "return_local", "temp_test", "tuple_split", "hoist_calls", "compare_flip", "invert_if", "rename_locals"):
        src, k = OPERATORS[op](src)
        total += k
    return src, total


OPERATORS = {
    "unparse": _unparse_only,  # control: only formatting and comments change
    "invert_if": _via(_InvertIf),
    "elif_to_else": _via(_ElifToElse),
    "return_local": _via(_ReturnLocal),
    "nest_and": _via(_NestAnd),
    "else_after_return": _via(_ElseAfterReturn),
    "temp_test": _via(_TempTest),
    "rename_locals": _rename_locals,
    "split_or": _via(_SplitOr),
    "demorgan": _via(_DeMorgan),
    "ifexp_to_if": _via(_IfExpToIf),
    "if_to_ifexp": _via(_IfToIfExp),
    "tuple_split": _via(_TupleSplit),
    "compare_flip": _via(_CompareFlip),
    "hoist_calls": _via(_HoistCalls),
    "wrap_helper": _via(_WrapHelper),
    "wrap_dunders": _via(_WrapDunders),
    "compose": _compose,
}


def transform(src: str, op: str) -> tuple[str, int]:
    new, n = OPERATORS[op](src)
    ast.parse(new)
    return new, n
