"""E13 - index bookkeeping of Tensor.__getitem__ against numpy's indexing rules, over index KINDS (C19).

The mapping "axis of t[index] -> axis of t it came from (or None for a new / fancy axis)" that `Tensor._get_index_mapping` computes is
obtained by abstract interpretation (geolint/absint.py) for every index tuple of the enumerated domain and compared with the numpy
rules (geolint/indexspec.py)."""

from __future__ import annotations

from geolint import absint, indexspec
from geolint.model import Program
from geolint.report import PROVEN, UNDECIDED, VIOLATION, Run


def abstract_index(kinds: tuple):
    out = []
    for k in kinds:
        if k == "int":
            out.append(1)
        elif k == "slice":
            out.append(slice(None, None, None))
        elif k == "none":
            out.append(None)
        elif k == "ellipsis":
            out.append(Ellipsis)
        elif k[0] == "iarr":
            out.append(absint.Arr(k[1], "i"))
        elif k[0] == "barr":
            out.append(absint.Arr(k[1], "b"))
        elif k[0] == "list":
            out.append([0, 1])
    return out[0] if len(out) == 1 else tuple(out)


def show(kinds: tuple) -> str:
    names = {"int": "0", "slice": ":", "none": "None", "ellipsis": "..."}
    parts = []
    for k in kinds:
        if isinstance(k, tuple):
            parts.append({"iarr": f"int_array{k[1]}d", "barr": f"mask{k[1]}d", "list": "[0, 1]"}[k[0]])
        else:
            parts.append(names[k])
    return "t[" + ", ".join(parts) + "]"


def classify(kinds: tuple) -> str:
    has_arr = [k for k in kinds if isinstance(k, tuple)]
    if not has_arr:
        return "basic indexing (integers, slices, None, Ellipsis)"
    if any(k[0] == "barr" and k[1] > 1 for k in has_arr):
        return "a boolean mask over several axes"
    if "int" in kinds:
        return "an integer next to an index array / mask"
    if len(has_arr) > 1:
        return "several index arrays / masks"
    return "one index array / mask with slices, None or Ellipsis"


def rule_E13(run: Run, prog: Program, max_len: int = 3) -> int:
    run.rule(
        "E13",
        "index bookkeeping: for every index tuple of the enumerated kinds (integer, slice, None, Ellipsis, integer arrays and boolean masks of "
        "one and two dimensions, lists; up to three elements; tensors of rank 2 to 4) the axis mapping that Tensor._get_index_mapping computes - "
        "obtained by abstract interpretation of its source and of geometer/utils/indexing.py - is the one numpy's indexing rules give: a "
        "surviving axis keeps its place in the bookkeeping, inserted and fancy-indexed axes are new (collection) axes, in numpy's order",
    )
    tensor = prog.cls("Tensor")
    fn = prog.lookup(tensor, "_get_index_mapping")
    getitem = prog.lookup(tensor, "__getitem__")
    if fn is None:
        # the mapping may have been inlined into __getitem__ or renamed: look for the helper __getitem__ calls with the index
        run.add("E13", "Tensor.__getitem__", "axis mapping", UNDECIDED, "Tensor._get_index_mapping not found; the bookkeeping of __getitem__ is not judged",
                getitem.loc if getitem else tensor.loc)
        return 0
    fn = prog.body_of(fn)
    n = 0
    wrong: dict[str, list[str]] = {}
    unsupported: dict[str, int] = {}
    samples_: list[str] = []
    total_by_class: dict[str, int] = {}
    for rank, kinds, want in indexspec.domain(max_len=max_len, ranks=(2, 3, 4)):
        n += 1
        cl = classify(kinds)
        total_by_class[cl] = total_by_class.get(cl, 0) + 1
        me = absint.Obj(shape=tuple([2, 3, 4, 5][:rank]), rank=rank, __cls__=tensor)
        it = absint.Interp(prog)
        try:
            got = it.call(fn, [me, abstract_index(kinds)])
        except absint.Unsupported as e:
            unsupported[str(e)] = unsupported.get(str(e), 0) + 1
            continue
        except absint.Raised as e:
            got = f"raises {e.name}"
        if isinstance(got, tuple):
            got = list(got)
        if len(samples_) < 6 and (n % 397 == 1):
            samples_.append(f"{show(kinds)} on a rank-{rank} tensor: interpreted mapping {got}, numpy's rule {want}")
        if got != want:
            wrong.setdefault(cl, []).append(f"{show(kinds)} on a rank-{rank} tensor: mapping {got}, numpy gives {want}")
    run.stats["index_tuples"] = n
    run.stats["index_tuples_by_class"] = total_by_class
    if not hasattr(run, "enumerated"):
        run.enumerated, run.case_samples = {}, {}
    run.enumerated["E13"] = n - sum(unsupported.values())
    run.case_samples["E13"] = samples_
    loc = fn.loc
    if unsupported:
        worst = sorted(unsupported.items(), key=lambda kv: -kv[1])[:3]
        run.add("E13", fn.short, "vocabulary", UNDECIDED,
                f"{sum(unsupported.values())} of {n} index tuples could not be interpreted ({'; '.join(f'{k} x{v}' for k, v in worst)})", loc)
    for cl in sorted(total_by_class):
        bad = wrong.get(cl, [])
        if bad:
            run.add("E13", fn.short, cl, VIOLATION,
                    f"{len(bad)} of {total_by_class[cl]} index tuples with {cl} get a wrong axis mapping, e.g. " + "; ".join(bad[:3]) +
                    ". The numbers returned are right (numpy does the indexing) but the result's covariant / contravariant / collection axes are "
                    "assigned to the wrong positions, so every later contraction is wrong", loc, {"failing": bad[:40], "count": len(bad)})
        elif not unsupported:
            run.add("E13", fn.short, cl, PROVEN, f"all {total_by_class[cl]} index tuples get numpy's axis mapping", loc)
    return n


# ---------------------------------------------------------------------------------------------- E15: index types follow the axes
import itertools  # noqa: E402


def _tensor(tcls, f: int, cov: list[int], con: list[int], name: str):
    rank = f + len(cov) + len(con)
    return absint.Obj(__cls__=tcls, array=absint.Arr(rank, "f", tuple((name, i) for i in range(rank))),
                      _covariant_indices=set(cov), _contravariant_indices=set(con))


def _layouts(max_rank: int = 4):
    """(free, covariant positions, contravariant positions) for every typing of up to max_rank axes with at most two collection axes in front"""
    for f in (0, 1, 2):
        for k in range(0, max_rank - f + 1):
            if f + k == 0:
                continue
            for types in itertools.product("cd", repeat=k):
                cov = [f + i for i, t in enumerate(types) if t == "c"]
                con = [f + i for i, t in enumerate(types) if t == "d"]
                yield f, cov, con


def _type_of(obj, axis: int) -> str:
    if axis in obj.__dict__["_covariant_indices"]:
        return "covariant"
    if axis in obj.__dict__["_contravariant_indices"]:
        return "contravariant"
    return "collection"


def _judge(result, sources: dict, what: str) -> str | None:
    """every axis of the result carries the type of the source axis it comes from; new axes are collection axes"""
    if isinstance(result, absint.Scalar):
        return None  # every axis indexed away: numpy returns a number
    if not isinstance(result, absint.Obj):
        return f"{what}: the result is not a tensor object"
    arr = result.__dict__.get("array")
    if not isinstance(arr, absint.Arr) or arr.prov is None:
        return f"{what}: the array of the result was not tracked"
    cov, con = result.__dict__.get("_covariant_indices", set()), result.__dict__.get("_contravariant_indices", set())
    if (set(cov) | set(con)) - set(range(arr.ndim)) or set(cov) & set(con):
        return f"{what}: index sets {sorted(cov)} / {sorted(con)} do not fit an array with {arr.ndim} axes"
    for i, lab in enumerate(arr.prov):
        got = "covariant" if i in cov else ("contravariant" if i in con else "collection")
        want = "collection" if lab == "new" or lab is None else _type_of(sources[lab[0]], lab[1])
        if got != want:
            origin = "a new axis" if lab == "new" else f"axis {lab[1]} of {lab[0]} ({want})"
            return f"{what}: axis {i} of the result is {origin} but is typed {got}"
    return None


def rule_E15(run: Run, prog: Program) -> int:
    run.rule(
        "E15",
        "index types follow the axes: transpose, T, tensor_product, expand_dims, copy and t[index] are interpreted (absint) on abstract tensors "
        "whose array carries the provenance of every axis through numpy's transfer functions (transpose, tensordot, expand_dims, indexing); in "
        "the result every axis has the type - covariant, contravariant, collection - of the source axis it is, and new axes are collection axes. "
        "Exhaustive over all typings of up to four axes, all permutations, every insertion position and every index tuple of up to two elements",
    )
    tcls = prog.cls("Tensor")
    coll = prog.find_cls("TensorCollection")
    n = 0
    wrong: dict[str, list[str]] = {}
    unsupported: dict[str, dict[str, int]] = {}
    counts: dict[str, int] = {}

    def attempt(op: str, thunk, sources: dict, what: str, expect_error: bool = False):
        nonlocal n
        n += 1
        counts[op] = counts.get(op, 0) + 1
        try:
            res = thunk()
        except absint.Unsupported as e:
            unsupported.setdefault(op, {})
            unsupported[op][str(e)] = unsupported[op].get(str(e), 0) + 1
            return
        except absint.Raised as e:
            if not expect_error:
                wrong.setdefault(op, []).append(f"{what}: raises {e.name}")
            return
        if expect_error:
            return
        diff = _judge(res, sources, what)
        if diff:
            wrong.setdefault(op, []).append(diff)

    def interp():
        return absint.Interp(prog)

    fn_t = prog.lookup(tcls, "transpose")
    fn_tp = prog.lookup(tcls, "tensor_product")
    fn_copy = prog.lookup(tcls, "copy")
    fn_get = prog.lookup(tcls, "__getitem__")
    fn_exp = prog.lookup(coll, "expand_dims") if coll is not None else None
    for f, cov, con in _layouts(4):
        t = _tensor(tcls, f, cov, con, "t")
        rank = f + len(cov) + len(con)
        desc = f"t with {f} collection axes, covariant {cov}, contravariant {con}"
        if fn_t is not None:
            # all permutations that keep the collection axes in place, plus the default
            tail = list(range(f, rank))
            for p in itertools.permutations(tail):
                perm = list(range(f)) + list(p)
                attempt("transpose", lambda perm=perm: interp().call(fn_t, [t, perm]), {"t": t}, f"{desc}: transpose({perm})")
            attempt("transpose", lambda: interp().call(fn_t, [t]), {"t": t}, f"{desc}: transpose()")
        if fn_copy is not None:
            attempt("copy", lambda: interp().call(fn_copy, [t]), {"t": t}, f"{desc}: copy()")
        if fn_exp is not None and coll is not None:
            tc = absint.Obj(**dict(t.__dict__, __cls__=coll))
            for axis in range(0, f + 1):
                attempt("expand_dims", lambda axis=axis: interp().call(fn_exp, [tc, axis]), {"t": tc}, f"{desc}: expand_dims({axis})")
        if fn_get is not None and rank <= 3:
            for r_, kinds, _want in indexspec.domain(max_len=2, ranks=(rank,)):
                idx = abstract_index(kinds)
                attempt("__getitem__", lambda idx=idx: interp().call(fn_get, [t, idx]), {"t": t}, f"{desc}: {show(kinds)}")
    # arithmetic: t + x, t - x, x + t, x - t, t * c, c * t, t / c, -t keep the index types of t; axes added by broadcasting are collection axes
    ops = {name: prog.lookup(tcls, name) for name in ("__add__", "__sub__", "__radd__", "__rsub__", "__mul__", "__rmul__", "__truediv__", "__neg__")}
    for f, cov, con in _layouts(3):
        t = _tensor(tcls, f, cov, con, "t")
        rank = f + len(cov) + len(con)
        desc = f"t with {f} collection axes, covariant {cov}, contravariant {con}"
        for name, m in ops.items():
            if m is None:
                continue
            if name == "__neg__":
                attempt("arithmetic", lambda m=m: interp().call(m, [t]), {"t": t}, f"{desc}: -t")
                continue
            if name in ("__mul__", "__rmul__", "__truediv__"):
                attempt("arithmetic", lambda m=m: interp().call(m, [t, 2]), {"t": t}, f"{desc}: {name}(t, 2)")
                continue
            for xd in range(0, rank + 2):
                x = absint.Arr(xd, "f") if xd else 2
                attempt("arithmetic", lambda m=m, x=x: interp().call(m, [t, x]), {"t": t}, f"{desc}: {name}(t, array with {xd} axes)")
            other = _tensor(tcls, f, cov, con, "u")
            attempt("arithmetic", lambda m=m, other=other: interp().call(m, [t, other]), {"t": t, "u": other}, f"{desc}: {name}(t, tensor of the same type)")
    # the constructor's own contract: covariant= holds positions RELATIVE to the tensor part (negative ones count from its end), the
    # first ndim - tensor_rank axes are collection axes, every other tensor index is contravariant
    init = prog.lookup(tcls, "__init__")
    if init is not None:
        for nd in (1, 2, 3, 4):
            for tr in [None] + list(range(0, nd + 1)):
                rank_t = nd if tr is None else tr
                free = nd - rank_t
                choices = [True, False] + [list(c) for k in range(0, rank_t + 1) for c in itertools.combinations(range(rank_t), k)][:12]
                if rank_t:
                    choices.append([-1])
                for cov in choices:
                    def thunk(nd=nd, tr=tr, cov=cov):
                        me = absint.Obj(__cls__=tcls)
                        kw = {"covariant": cov, "copy": False}
                        if tr is not None:
                            kw["tensor_rank"] = tr
                        absint.Interp(prog).call(init, [me, absint.Arr(nd, "f", tuple(("a", i) for i in range(nd)))], kw)
                        return me
                    n += 1
                    counts["constructor"] = counts.get("constructor", 0) + 1
                    what = f"Tensor(array with {nd} axes, covariant={cov}, tensor_rank={tr})"
                    try:
                        me = thunk()
                    except absint.Unsupported as e:
                        unsupported.setdefault("constructor", {})
                        unsupported["constructor"][str(e)] = unsupported["constructor"].get(str(e), 0) + 1
                        continue
                    except absint.Raised as e:
                        wrong.setdefault("constructor", []).append(f"{what}: raises {e.name}")
                        continue
                    want_cov = set(range(free, nd)) if cov is True else (set() if cov is False else {free + (i % rank_t) for i in cov})
                    want_con = set(range(free, nd)) - want_cov
                    got_cov, got_con = me.__dict__.get("_covariant_indices"), me.__dict__.get("_contravariant_indices")
                    if got_cov != want_cov or got_con != want_con:
                        wrong.setdefault("constructor", []).append(f"{what}: covariant {sorted(got_cov or [])} / contravariant {sorted(got_con or [])}, "
                                                                   f"expected {sorted(want_cov)} / {sorted(want_con)}")
    if fn_tp is not None:
        singles = [(cov, con) for f, cov, con in _layouts(2) if f == 0]
        for (ca, da), (cb, db) in itertools.product(singles, repeat=2):
            a, b = _tensor(tcls, 0, ca, da, "a"), _tensor(tcls, 0, cb, db, "b")
            attempt("tensor_product", lambda a=a, b=b: interp().call(fn_tp, [a, b]), {"a": a, "b": b},
                    f"a (covariant {ca}, contravariant {da}) x b (covariant {cb}, contravariant {db})")
    run.stats["index_type_cases"] = counts
    if not hasattr(run, "enumerated"):
        run.enumerated, run.case_samples = {}, {}
    run.enumerated["E15"] = n - sum(sum(v.values()) for v in unsupported.values())
    loc_of = {"transpose": fn_t, "tensor_product": fn_tp, "copy": fn_copy, "__getitem__": fn_get, "expand_dims": fn_exp, "arithmetic": ops.get("__add__"), "constructor": init}
    for op in sorted(counts):
        fn = loc_of.get(op)
        loc = fn.loc if fn is not None else ""
        name = fn.short if fn is not None else op
        if op in wrong:
            bad = wrong[op]
            run.add("E15", name, "index types of the result", VIOLATION,
                    f"{len(bad)} of {counts[op]} cases give an axis the type of another axis, e.g. " + "; ".join(bad[:3]), loc, {"failing": bad[:30], "count": len(bad)})
        elif op in unsupported:
            worst = sorted(unsupported[op].items(), key=lambda kv: -kv[1])[:2]
            run.add("E15", name, "index types of the result", UNDECIDED,
                    f"{sum(unsupported[op].values())} of {counts[op]} cases could not be interpreted ({'; '.join(f'{k} x{v}' for k, v in worst)})", loc)
        else:
            run.add("E15", name, "index types of the result", PROVEN, f"all {counts[op]} cases: every axis keeps the type of the axis it comes from", loc)
    return n


# ---------------------------------------------------------------------------------------------- E16: collections hand out their element class
def rule_E16(run: Run, prog: Program) -> int:
    run.rule(
        "E16",
        "integer indexing a collection yields the element class with its attributes intact, every other index yields a collection of the same "
        "kind: for every concrete collection class of points, lines, planes, quadrics (dual and not) and transformations an instance is built by "
        "interpreting its constructor chain (absint; real __init__, _validate_tensor, from_tensor / from_array with their try/except fall-backs), "
        "then c[0], c[0, 0], c[0:2], c[[0, 1]], c[mask], c[None], c[...] are interpreted and the class, the index types and the constructor-"
        "parameter attributes (is_dual) of the result are compared with the element-class registry",
    )
    coll = prog.find_cls("TensorCollection")
    tensor = prog.cls("Tensor")
    poly = prog.find_cls("PolytopeTensor")
    if coll is None:
        run.add("E16", "TensorCollection", "element class", UNDECIDED, "TensorCollection not found", "")
        return 0
    n = 0
    for C in sorted(prog.concrete_subclasses(coll), key=lambda c: c.qualname):
        if C is coll or (poly is not None and prog.is_subclass(C, poly)):
            continue  # polytope collections derive supporting lines / planes in their constructors (join): not interpreted here
        hit = prog.class_attr(C, "_element_class")
        elem = prog.classes.get(prog.resolve_expr_name(hit[0].module, hit[1]) or "") if hit is not None else None
        if elem is None:
            run.add("E16", C.name, "element class", UNDECIDED, "_element_class not resolved", C.loc)
            continue
        init = prog.lookup(C, "__init__")
        flags = [{}]
        if init is not None and "is_dual" in [p.arg for p in init.params()]:
            flags = [{"is_dual": False}, {"is_dual": True}]
        for kw in flags:
            for n_coll in (1, 2):
                built = None
                trank = None
                for tr in (1, 2):  # tensor rank of the elements: found by trying (a point has 1 index, a quadric or a transformation 2)
                    me = absint.Obj(__cls__=C)
                    nd = n_coll + tr
                    try:
                        absint.Interp(prog, max_steps=100000, max_depth=14).call(
                            init, [me, absint.Arr(nd, "f", tuple(("c", i) for i in range(nd)))], dict(kw, copy=False))
                    except (absint.Raised, absint.Unsupported):
                        continue
                    cov, con = me.__dict__.get("_covariant_indices", set()), me.__dict__.get("_contravariant_indices", set())
                    if len(cov) + len(con) == tr and nd - len(cov) - len(con) == n_coll:
                        built, trank = me, tr
                        break
                label = f"{C.name}({', '.join(f'{k}={v}' for k, v in kw.items())}) with {n_coll} collection ax{'is' if n_coll == 1 else 'es'}"
                if built is None:
                    n += 1
                    run.add("E16", C.name, label, UNDECIDED, "an instance could not be built by interpreting the constructor chain", C.loc)
                    continue
                get = prog.lookup(C, "__getitem__")
                cases = [("c[0]", 0, n_coll - 1), ("c[0:2]", slice(0, 2, None), n_coll), ("c[[0, 1]]", [0, 1], n_coll), ("c[mask]", absint.Arr(1, "b"), n_coll),
                         ("c[None]", None, n_coll + 1), ("c[...]", Ellipsis, n_coll)]
                if n_coll == 2:
                    cases += [("c[0, 0]", (0, 0), 0), ("c[:, 0]", (slice(None, None, None), 0), 1), ("c[mask2d]", absint.Arr(2, "b"), 1)]
                for text, idx, left in cases:
                    n += 1
                    what = f"{label}: {text}"
                    try:
                        r = absint.Interp(prog, max_steps=100000, max_depth=14).call(get, [built, idx])
                    except absint.Unsupported as e:
                        run.add("E16", C.name, what, UNDECIDED, f"outside the interpreter's vocabulary: {e}", get.loc if get else C.loc)
                        continue
                    except absint.Raised as e:
                        run.add("E16", C.name, what, VIOLATION, f"{what} raises {e.name}", get.loc if get else C.loc)
                        continue
                    rc = r.__dict__.get("__cls__") if isinstance(r, absint.Obj) else None
                    problems = []
                    if rc is None:
                        problems.append("the result is not a tensor object")
                    else:
                        if left == 0 and not prog.is_subclass(rc, elem):
                            problems.append(f"the result is a {rc.name}, not an instance of the element class {elem.name}")
                        if left > 0 and not prog.is_subclass(rc, C) and not (prog.is_subclass(rc, coll) and _first_kind(prog, rc) is _first_kind(prog, C)):
                            problems.append(f"the result is a {rc.name}, not a collection of the kind of {C.name}")
                        for k, v in kw.items():
                            if r.__dict__.get(k) != v:
                                problems.append(f"attribute {k} is {r.__dict__.get(k)!r} on the result, {v!r} on the collection")
                        cov, con = r.__dict__.get("_covariant_indices", set()), r.__dict__.get("_contravariant_indices", set())
                        bc, bn = built.__dict__["_covariant_indices"], built.__dict__["_contravariant_indices"]
                        if (len(cov), len(con)) != (len(bc), len(bn)):
                            problems.append(f"the result has index types ({len(cov)}, {len(con)}), the collection's elements ({len(bc)}, {len(bn)})")
                    if problems:
                        run.add("E16", C.name, what, VIOLATION, f"{what}: " + "; ".join(problems), get.loc if get else C.loc)
                    else:
                        run.add("E16", C.name, what, PROVEN, f"{rc.name} with the element's index types" + (f" and {kw}" if kw else ""), get.loc if get else C.loc)
    if not hasattr(run, "enumerated"):
        run.enumerated, run.case_samples = {}, {}
    run.enumerated["E16"] = sum(1 for o in run.obligations if o.rule == "E16" and o.verdict in (PROVEN, VIOLATION))
    return n


def _first_kind(prog: Program, c):
    """the geometric kind of a class: its first abstract base below the tensor roots (PointTensor, LineTensor, QuadricTensor ...)"""
    roots = {"Tensor", "BoundTensor", "TensorCollection", "ProjectiveTensor", "PointLikeTensor", "SubspaceTensor"}
    for k in prog.mro(c):
        if k.name.endswith("Tensor") and k.name not in roots:
            return k
    return None
