"""E13 - index bookkeeping of Tensor.__getitem__ against numpy's indexing rules, over index KINDS (C19).

The mapping "axis of t[index] -> axis of t it came from (or None for a new / fancy axis)" that `Tensor._get_index_mapping` computes is
obtained by abstract interpretation (geolint/absint.py) for every index tuple of the enumerated domain and compared with the numpy
rules (geolint/indexspec.py)."""

from __future__ import annotations

from geolint import absint, indexspec
from geolint.model import Program
from geolint.report import PROVEN, UNDECIDED, VIOLATION, Run


def abstract_index(kinds: tuple):
    out = []
    for k in kinds:
        if k == "int":
            out.append(1)
        elif k == "slice":
            out.append(slice(None, None, None))
        elif k == "none":
            out.append(None)
        elif k == "ellipsis":
            out.append(Ellipsis)
        elif k[0] == "iarr":
            out.append(absint.Arr(k[1], "i"))
        elif k[0] == "barr":
            out.append(absint.Arr(k[1], "b"))
        elif k[0] == "list":
            out.append([0, 1])
    return out[0] if len(out) == 1 else tuple(out)


def show(kinds: tuple) -> str:
    names = {"int": "0", "slice": ":", "none": "None", "ellipsis": "..."}
    parts = []
    for k in kinds:
        if isinstance(k, tuple):
            parts.append({"iarr": f"int_array{k[1]}d", "barr": f"mask{k[1]}d", "list": "[0, 1]"}[k[0]])
        else:
            parts.append(names[k])
    return "t[" + ", ".join(parts) + "]"


def classify(kinds: tuple) -> str:
    has_arr = [k for k in kinds if isinstance(k, tuple)]
    if not has_arr:
        return "basic indexing (integers, slices, None, Ellipsis)"
    if any(k[0] == "barr" and k[1] > 1 for k in has_arr):
        return "a boolean mask over several axes"
    if "int" in kinds:
        return "an integer next to an index array / mask"
    if len(has_arr) > 1:
        return "several index arrays / masks"
    return "one index array / mask with slices, None or Ellipsis"


def rule_E13(run: Run, prog: Program, max_len: int = 3) -> int:
    run.rule(
        "E13",
        "index bookkeeping: for every index tuple of the enumerated kinds (integer, slice, None, Ellipsis, integer arrays and boolean masks of "
        "one and two dimensions, lists; up to three elements; tensors of rank 2 to 4) the axis mapping that Tensor._get_index_mapping computes - "
        "obtained by abstract interpretation of its source and of geometer/utils/indexing.py - is the one numpy's indexing rules give: a "
        "surviving axis keeps its place in the bookkeeping, inserted and fancy-indexed axes are new (collection) axes, in numpy's order",
    )
    tensor = prog.cls("Tensor")
    fn = prog.lookup(tensor, "_get_index_mapping")
    getitem = prog.lookup(tensor, "__getitem__")
    if fn is None:
        # the mapping may have been inlined into __getitem__ or renamed: look for the helper __getitem__ calls with the index
        run.add("E13", "Tensor.__getitem__", "axis mapping", UNDECIDED, "Tensor._get_index_mapping not found; the bookkeeping of __getitem__ is not judged",
                getitem.loc if getitem else tensor.loc)
        return 0
    fn = prog.body_of(fn)
    n = 0
    wrong: dict[str, list[str]] = {}
    unsupported: dict[str, int] = {}
    total_by_class: dict[str, int] = {}
    for rank, kinds, want in indexspec.domain(max_len=max_len, ranks=(2, 3, 4)):
        n += 1
        cl = classify(kinds)
        total_by_class[cl] = total_by_class.get(cl, 0) + 1
        me = absint.Obj(shape=tuple([2, 3, 4, 5][:rank]), rank=rank, __cls__=tensor)
        it = absint.Interp(prog)
        try:
            got = it.call(fn, [me, abstract_index(kinds)])
        except absint.Unsupported as e:
            unsupported[str(e)] = unsupported.get(str(e), 0) + 1
            continue
        except absint.Raised as e:
            got = f"raises {e.name}"
        if isinstance(got, tuple):
            got = list(got)
        if got != want:
            wrong.setdefault(cl, []).append(f"{show(kinds)} on a rank-{rank} tensor: mapping {got}, numpy gives {want}")
    run.stats["index_tuples"] = n
    run.stats["index_tuples_by_class"] = total_by_class
    loc = fn.loc
    if unsupported:
        worst = sorted(unsupported.items(), key=lambda kv: -kv[1])[:3]
        run.add("E13", fn.short, "vocabulary", UNDECIDED,
                f"{sum(unsupported.values())} of {n} index tuples could not be interpreted ({'; '.join(f'{k} x{v}' for k, v in worst)})", loc)
    for cl in sorted(total_by_class):
        bad = wrong.get(cl, [])
        if bad:
            run.add("E13", fn.short, cl, VIOLATION,
                    f"{len(bad)} of {total_by_class[cl]} index tuples with {cl} get a wrong axis mapping, e.g. " + "; ".join(bad[:3]) +
                    ". The numbers returned are right (numpy does the indexing) but the result's covariant / contravariant / collection axes are "
                    "assigned to the wrong positions, so every later contraction is wrong", loc, {"failing": bad[:40], "count": len(bad)})
        elif not unsupported:
            run.add("E13", fn.short, cl, PROVEN, f"all {total_by_class[cl]} index tuples get numpy's axis mapping", loc)
    return n
