"""E11 - sign-domain abstract interpretation of membership predicates (C16).

`Triangle.contains` touches the barycentric determinants only through comparisons with 0, sums and boolean algebra. Its answer is
therefore a function of the SIGN vector (l1, l2, l3) in {-, 0, +}^3 and of the sign of their sum - a finite domain that is
enumerated exhaustively here, without running the code: the function body is interpreted over signs (per element; the vectorised
path `result[ind] &= ...` and the scalar path `return a and b` are two modes of the same interpretation) and compared with the
specification of the closed triangle:

    inside  <=>  no two of l1, l2, l3 have strictly opposite signs          (boundary: some l_i == 0)

For a non-degenerate triangle the sum has the sign of the non-zero entries when they agree; when they disagree both signs of the
sum are possible and the answer has to be False for either.

The interpreter only accepts the vocabulary below; anything else makes the clause UNDECIDED (never a violation).
"""

from __future__ import annotations

import ast
import itertools

from geolint.model import FunctionInfo, Program, norm_stmt
from geolint.report import PROVEN, UNDECIDED, VIOLATION, Run

NEG, ZERO, POS = -1, 0, 1
SIGN_NAME = {NEG: "-", ZERO: "0", POS: "+"}


class Unsupported(Exception):
    pass


class _Return(Exception):
    def __init__(self, value):
        self.value = value


def _is_zero_const(e: ast.AST) -> bool:
    return isinstance(e, ast.Constant) and isinstance(e.value, (int, float)) and e.value == 0


class SignInterp:
    """Evaluates a function body for ONE element: names hold a sign (int), a bool, or the token 'vec' for things we do not model."""

    def __init__(self, fn: FunctionInfo, lambdas: dict[str, int], area_names: set[str], scalar_mode: bool, prog: Program | None = None, depth: int = 0):
        self.prog = prog
        self.depth = depth
        self.fn = fn
        self.lambdas = lambdas  # variable name -> index 0..2
        self.area_names = area_names
        self.scalar_mode = scalar_mode
        self.env: dict[str, object] = {}

    # ------------------------------------------------------------------ expressions
    def sign(self, e: ast.AST) -> int:
        if isinstance(e, ast.Name):
            v = self.env.get(e.id)
            if isinstance(v, int) and not isinstance(v, bool):
                return v
            raise Unsupported(f"`{e.id}` is not a signed quantity")
        if isinstance(e, ast.Subscript) and isinstance(e.value, ast.Name):
            # lambda1[ind]: the element under consideration
            return self.sign(e.value)
        if isinstance(e, ast.UnaryOp) and isinstance(e.op, ast.USub):
            return -self.sign(e.operand)
        if _is_zero_const(e):
            return ZERO
        if isinstance(e, ast.BinOp) and isinstance(e.op, ast.Mult):
            return self.sign(e.left) * self.sign(e.right)
        if isinstance(e, ast.Call) and getattr(e.func, "attr", getattr(e.func, "id", "")) == "sign" and len(e.args) == 1:
            return self.sign(e.args[0])
        if isinstance(e, ast.BinOp) and isinstance(e.op, ast.Add):
            terms: list[ast.AST] = []

            def flat(x):
                if isinstance(x, ast.BinOp) and isinstance(x.op, ast.Add):
                    flat(x.left)
                    flat(x.right)
                else:
                    terms.append(x)

            flat(e)
            names = [t.id for t in terms if isinstance(t, ast.Name)]
            if len(terms) == 3 and len(names) == 3 and {self.lambdas.get(nm) for nm in names} == {0, 1, 2}:
                return self.area  # the sum of the three barycentric determinants
            sg = {self.sign(t) for t in terms}
            if len(sg) == 1:
                return sg.pop()
            if sg <= {ZERO, POS} or sg <= {ZERO, NEG}:
                return POS if POS in sg else NEG
        raise Unsupported(f"sign of `{ast.unparse(e)[:40]}`")

    def boolean(self, e: ast.AST) -> bool:
        if isinstance(e, ast.Name):
            v = self.env.get(e.id)
            if isinstance(v, bool):
                return v
            raise Unsupported(f"`{e.id}` is not a truth value")
        if isinstance(e, ast.Subscript) and isinstance(e.value, ast.Name):
            return self.boolean(e.value)
        if isinstance(e, ast.Constant) and isinstance(e.value, bool):
            return e.value
        if isinstance(e, ast.UnaryOp) and isinstance(e.op, (ast.Invert, ast.Not)):
            return not self.boolean(e.operand)
        if isinstance(e, ast.BoolOp):
            vals = [self.boolean(v) for v in e.values]
            return all(vals) if isinstance(e.op, ast.And) else any(vals)
        if isinstance(e, ast.BinOp) and isinstance(e.op, (ast.BitAnd, ast.BitOr, ast.BitXor)):
            a, b = self.boolean(e.left), self.boolean(e.right)
            return (a and b) if isinstance(e.op, ast.BitAnd) else ((a or b) if isinstance(e.op, ast.BitOr) else (a != b))
        if isinstance(e, ast.Compare) and len(e.ops) == 1:
            op, l, r = e.ops[0], e.left, e.comparators[0]
            if isinstance(op, (ast.Eq, ast.NotEq)):
                try:
                    a, b = self.boolean(l), self.boolean(r)
                    return (a == b) if isinstance(op, ast.Eq) else (a != b)
                except Unsupported:
                    pass
            a, b = self.sign(l), self.sign(r)
            if not (_is_zero_const(l) or _is_zero_const(r)):
                # comparing two signed quantities is only decided when their signs differ
                if a == b and a != ZERO:
                    raise Unsupported("comparison of two quantities of equal sign")
            d = (a > b) - (a < b)
            return {ast.Lt: d < 0, ast.LtE: d <= 0, ast.Gt: d > 0, ast.GtE: d >= 0, ast.Eq: d == 0, ast.NotEq: d != 0}[type(op)]
        if isinstance(e, ast.Compare) and len(e.ops) == 2:
            return self.boolean(ast.Compare(left=e.left, ops=[e.ops[0]], comparators=[e.comparators[0]])) and \
                self.boolean(ast.Compare(left=e.comparators[0], ops=[e.ops[1]], comparators=[e.comparators[1]]))
        if isinstance(e, ast.Call):
            f = e.func
            name = f.attr if isinstance(f, ast.Attribute) else getattr(f, "id", "")
            if name in ("any", "all") and len(e.args) == 1:
                return self.boolean(e.args[0])  # one element
            if name == "isscalar" and len(e.args) == 1:
                return self.scalar_mode
            if name in ("logical_and", "logical_or") and len(e.args) == 2:
                a, b = self.boolean(e.args[0]), self.boolean(e.args[1])
                return (a and b) if name == "logical_and" else (a or b)
            if name == "logical_not" and len(e.args) == 1:
                return not self.boolean(e.args[0])
            if name == "bool" and len(e.args) == 1:
                return self.boolean(e.args[0])
            if name == "where" and len(e.args) == 3:
                return self.boolean(e.args[1]) if self.boolean(e.args[0]) else self.boolean(e.args[2])
            v = self.call_helper(e)
            if isinstance(v, bool):
                return v
        raise Unsupported(f"truth value of `{ast.unparse(e)[:50]}`")

    def value(self, e: ast.AST):
        """a sign, a truth value or a list of them"""
        if isinstance(e, ast.Name) and isinstance(self.env.get(e.id), list):
            return self.env[e.id]
        if isinstance(e, (ast.List, ast.Tuple)):
            return [self.value(x) for x in e.elts]
        try:
            return self.boolean(e)
        except Unsupported:
            return self.sign(e)

    def call_helper(self, e: ast.Call):
        """interprets a private helper of the package on the abstract values of the arguments (two levels deep at most)"""
        if self.prog is None or self.depth >= 2 or not isinstance(e.func, ast.Name) or e.keywords:
            return None
        q = self.prog.resolve_name(self.fn.module, e.func.id)
        h = self.prog.functions.get(q) if q else None
        if h is None:
            return None
        args = []
        for a in e.args:
            if isinstance(a, ast.Starred):
                v = self.value(a.value)
                if not isinstance(v, list):
                    raise Unsupported("starred argument")
                args += v
            else:
                args.append(self.value(a))
        sub = SignInterp(h, {}, set(), self.scalar_mode, self.prog, self.depth + 1)
        sub.inputs, sub.area = self.inputs, self.area
        pa = h.node.args
        names = [p.arg for p in pa.posonlyargs + pa.args]
        if len(args) < len(names) or (len(args) > len(names) and pa.vararg is None):
            raise Unsupported(f"arguments of {h.name}")
        sub.env = dict(zip(names, args))
        if pa.vararg is not None:
            sub.env[pa.vararg.arg] = list(args[len(names):])
        try:
            sub.block(h.node.body)
        except _Return as r:
            return r.value
        raise Unsupported(f"{h.name} returns nothing")

    # ------------------------------------------------------------------ statements
    def run(self, inputs: tuple[int, int, int], area: int) -> bool:
        self.env = {}
        self.inputs = inputs
        self.area = area
        try:
            self.block(self.fn.node.body)
        except _Return as r:
            return r.value
        raise Unsupported("function falls off its end")

    def block(self, stmts) -> None:
        for st in stmts:
            self.stmt(st)

    def stmt(self, st: ast.stmt) -> None:
        if isinstance(st, ast.Expr) and isinstance(st.value, ast.Constant):
            return
        if isinstance(st, ast.Assign) and len(st.targets) == 1:
            t = st.targets[0]
            if isinstance(t, ast.Name):
                if t.id in self.lambdas:
                    self.env[t.id] = self.inputs[self.lambdas[t.id]]
                    return
                if t.id in self.area_names:
                    self.env[t.id] = self.area
                    return
                try:
                    self.env[t.id] = self.boolean(st.value)
                    return
                except Unsupported:
                    pass
                try:
                    self.env[t.id] = self.sign(st.value)
                    return
                except Unsupported:
                    self.env[t.id] = "vec"  # data we do not model (rows of the vertex array ...); using it later is Unsupported
                    return
            if isinstance(t, (ast.Tuple, ast.List)):
                src = self.env.get(st.value.id) if isinstance(st.value, ast.Name) else None
                if isinstance(src, list):
                    # first, *rest = values
                    star = [i for i, x in enumerate(t.elts) if isinstance(x, ast.Starred)]
                    if len(star) <= 1:
                        k = star[0] if star else None
                        n_after = len(t.elts) - k - 1 if k is not None else 0
                        if (k is None and len(src) == len(t.elts)) or (k is not None and len(src) >= len(t.elts) - 1):
                            for i, x in enumerate(t.elts):
                                if isinstance(x, ast.Starred) and isinstance(x.value, ast.Name):
                                    self.env[x.value.id] = src[k:len(src) - n_after]
                                elif isinstance(x, ast.Name):
                                    self.env[x.id] = src[i] if (k is None or i < k) else src[len(src) - (len(t.elts) - i)]
                            return
                    raise Unsupported("unpacking")
                for x in t.elts:
                    if isinstance(x, ast.Name):
                        self.env[x.id] = "vec"
                return
            raise Unsupported(f"assignment target `{ast.unparse(t)[:30]}`")
        if isinstance(st, ast.AugAssign) and isinstance(st.op, (ast.BitAnd, ast.BitOr)):
            t = st.target
            val = self.boolean(st.value)
            if isinstance(t, ast.Name):
                cur = self.boolean(t)
                self.env[t.id] = (cur and val) if isinstance(st.op, ast.BitAnd) else (cur or val)
                return
            if isinstance(t, ast.Subscript) and isinstance(t.value, ast.Name):
                # result[mask] &= E : applies to this element when the mask is True for it
                mask = self.boolean(t.slice)
                if mask:
                    cur = self.boolean(t.value)
                    self.env[t.value.id] = (cur and val) if isinstance(st.op, ast.BitAnd) else (cur or val)
                return
        if isinstance(st, ast.Assign) and len(st.targets) == 1 and isinstance(st.targets[0], ast.Subscript):
            t = st.targets[0]
            if isinstance(t.value, ast.Name):
                if self.boolean(t.slice):
                    self.env[t.value.id] = self.boolean(st.value)
                return
        if isinstance(st, ast.If):
            if self.boolean(st.test):
                self.block(st.body)
            else:
                self.block(st.orelse)
            return
        if isinstance(st, ast.For) and isinstance(st.target, ast.Name) and not st.orelse:
            seq = self.value(st.iter)
            if not isinstance(seq, list):
                raise Unsupported("loop over something that is not a list of the modelled values")
            for v in seq:
                self.env[st.target.id] = v
                self.block(st.body)
            return
        if isinstance(st, ast.Return) and st.value is not None:
            raise _Return(self.boolean(st.value))
        raise Unsupported(f"statement `{norm_stmt(st)[:50]}`")


def _barycentric_roles(fn: FunctionInfo) -> tuple[dict[str, int], set[str], list[str]] | None:
    """lambda variables (name -> vertex index replaced by the query point) and the names holding their sum."""
    notes: list[str] = []
    verts: list[str] | None = None
    point: str | None = None
    for st in ast.walk(fn.node):
        if isinstance(st, ast.Assign) and len(st.targets) == 1 and isinstance(st.targets[0], ast.Tuple) and len(st.targets[0].elts) == 4 \
                and all(isinstance(x, ast.Name) for x in st.targets[0].elts):
            names = [x.id for x in st.targets[0].elts]
            verts, point = names[:3], names[3]
    if verts is None:
        return None
    lambdas: dict[str, int] = {}
    for st in ast.walk(fn.node):
        if isinstance(st, ast.Assign) and len(st.targets) == 1 and isinstance(st.targets[0], ast.Name) and isinstance(st.value, ast.Call):
            call = st.value
            fname = call.func.attr if isinstance(call.func, ast.Attribute) else getattr(call.func, "id", "")
            if fname != "det" or not call.args:
                continue
            inner = call.args[0]
            rows = None
            if isinstance(inner, ast.Call) and getattr(inner.func, "attr", getattr(inner.func, "id", "")) in ("stack", "array") and inner.args \
                    and isinstance(inner.args[0], (ast.List, ast.Tuple)):
                rows = [x.id if isinstance(x, ast.Name) else None for x in inner.args[0].elts]
            if rows is None or len(rows) != 3:
                continue
            diff = [i for i in range(3) if rows[i] != verts[i]]
            if len(diff) == 1 and rows[diff[0]] == point:
                lambdas[st.targets[0].id] = diff[0]
            else:
                notes.append(f"`{norm_stmt(st)[:60]}` is not (a, b, c) with one vertex replaced by the point")
    if len(set(lambdas.values())) != 3:
        return None
    area: set[str] = set()
    for st in ast.walk(fn.node):
        if isinstance(st, ast.Assign) and len(st.targets) == 1 and isinstance(st.targets[0], ast.Name):
            terms = []

            def flat(e):
                if isinstance(e, ast.BinOp) and isinstance(e.op, ast.Add):
                    flat(e.left)
                    flat(e.right)
                else:
                    terms.append(e)

            flat(st.value)
            if len(terms) == 3 and all(isinstance(x, ast.Name) and x.id in lambdas for x in terms) and len({x.id for x in terms}) == 3:
                area.add(st.targets[0].id)
    return lambdas, area, notes


def rule_triangle(run: Run, prog: Program) -> int:
    run.rule(
        "E11.T",
        "Triangle.contains, interpreted over the signs of the three barycentric determinants and of their sum (every sign vector, "
        "scalar and vectorised path): True exactly when no two determinants have strictly opposite signs - the closed triangle, "
        "for either direction of the vertex cycle",
    )
    tri = prog.find_cls("Triangle")
    fn = prog.lookup(tri, "contains") if tri is not None else None
    if fn is None or fn.cls is None or fn.cls.name != "Triangle":
        run.add("E11.T", "Triangle", "contains", UNDECIDED, "Triangle has no contains of its own (the polygon algorithm is used): clause not judged here",
                tri.loc if tri is not None else "")
        return 0
    fn = prog.body_of(fn)
    roles = _barycentric_roles(fn)
    if roles is None:
        run.add("E11.T", fn.short, "barycentric determinants", UNDECIDED,
                "the three determinants det([p,b,c]), det([a,p,c]), det([a,b,p]) were not recognised; sign logic not judged", fn.loc)
        return 0
    lambdas, area_names, notes = roles
    n = 0
    wrong: list[str] = []
    unsupported: str | None = None
    for scalar_mode in (False, True):
        it = SignInterp(fn, lambdas, area_names, scalar_mode, prog)
        for s in itertools.product((NEG, ZERO, POS), repeat=3):
            nz = {x for x in s if x != ZERO}
            if not nz:
                continue  # the query point is no finite point of the plane of a non-degenerate triangle
            # the sum has the sign of the entries when they agree; when they disagree it can be anything - also exactly 0, which is the
            # case of a point at infinity (its three determinants add up to 0)
            areas = list(nz) if len(nz) == 1 else [NEG, ZERO, POS]
            expected = len(nz) == 1
            for a in areas:
                n += 1
                try:
                    got = it.run(s, a)
                except Unsupported as e:
                    unsupported = str(e)
                    break
                if got != expected:
                    orient = "counter-clockwise" if a == POS else ("clockwise" if a == NEG else "sum exactly 0: a point at infinity,")
                    where = "a vertex" if s.count(ZERO) == 2 else ("an edge" if s.count(ZERO) == 1 else ("the interior" if expected else "outside"))
                    wrong.append(f"(l1,l2,l3)=({','.join(SIGN_NAME[x] for x in s)}), sum {SIGN_NAME[a]} [{orient} triangle, point on {where}"
                                 f"{', vectorised path' if not scalar_mode else ', scalar path'}]: returns {got}, closed triangle says {expected}")
            if unsupported:
                break
        if unsupported:
            break
    if unsupported:
        run.add("E11.T", fn.short, "sign logic", UNDECIDED, f"outside the vocabulary of the sign interpreter: {unsupported}", fn.loc)
        return n
    if not hasattr(run, "enumerated"):
        run.enumerated, run.case_samples = {}, {}
    run.enumerated["E11.T"] = n
    run.case_samples["E11.T"] = ["(l1, l2, l3) = (+, 0, +), sum +, vectorised path -> inside", "(l1, l2, l3) = (+, -, 0), sum 0 (point at infinity), scalar path -> outside"]
    for msg in notes:
        run.add("E11.T", fn.short, msg[:80], UNDECIDED, msg, fn.loc)
    if wrong:
        # report the first comparison statement as the site; list the failing sign vectors
        site = next((st for st in ast.walk(fn.node) if isinstance(st, ast.Assign) and any(isinstance(x, ast.Compare) for x in ast.walk(st.value))), fn.node)
        run.add("E11.T", fn.short, norm_stmt(site)[:90], VIOLATION,
                f"the sign logic of {fn.short} differs from the closed triangle for {len(wrong)} of {n} (sign vector, orientation, path) cases, e.g. "
                + "; ".join(wrong[:4]) + (" ..." if len(wrong) > 4 else "")
                + ". A comparison that treats 0 like one of the two signs (`x <= 0` on one side only) makes the answer depend on the direction of the vertex cycle",
                f"{fn.module.rel}:{getattr(site, 'lineno', fn.node.lineno)}", {"failing_cases": wrong})
    else:
        run.add("E11.T", fn.short, "sign logic", PROVEN,
                f"{n} (sign vector, orientation, path) cases evaluated: True exactly for the closed triangle in both directions of the vertex cycle", fn.loc)
    return n


# ---------------------------------------------------------------------------------------------- segment: closed interval
def _mentions(e: ast.AST, names: set[str]) -> bool:
    return any(isinstance(x, ast.Name) and x.id in names for x in ast.walk(e))


def rule_segment(run: Run, prog: Program) -> int:
    run.rule(
        "E11.S",
        "SegmentTensor.contains: the value returned is a conjunction that contains membership in the supporting line and two bound "
        "comparisons that are closed - non-strict, or widened by the tolerance on the permissive side (`lo <= x + tol`, `x <= hi + tol`); "
        "a strict comparison without slack or a tolerance on the wrong side excludes the end points",
    )
    seg = prog.find_cls("SegmentTensor")
    fn = prog.lookup(seg, "contains") if seg is not None else None
    if fn is None:
        run.add("E11.S", "SegmentTensor", "contains", UNDECIDED, "SegmentTensor.contains not found", "")
        return 0
    fn = prog.body_of(fn)
    from geolint.dunder import _single_assign_env

    region = prog.private_helpers(fn)
    n = 0

    def conjuncts(expr: ast.AST) -> list[ast.AST]:
        conj: list[ast.AST] = []

        def flat(e):
            if isinstance(e, ast.BinOp) and isinstance(e.op, ast.BitAnd):
                flat(e.left)
                flat(e.right)
            elif isinstance(e, ast.BoolOp) and isinstance(e.op, ast.And):
                for v in e.values:
                    flat(v)
            else:
                conj.append(e)

        flat(expr)
        return conj

    # (1) membership in the supporting line is a conjunct of what the anchored function returns
    env0 = _single_assign_env(fn)

    def is_line_membership(c: ast.AST, depth: int = 0) -> bool:
        if any(isinstance(x, ast.Call) and isinstance(x.func, ast.Attribute) and x.func.attr == "contains" for x in ast.walk(c)):
            return True
        return depth < 3 and isinstance(c, ast.Name) and c.id in env0 and is_line_membership(env0[c.id], depth + 1)

    main0 = [r for r in ast.walk(fn.node) if isinstance(r, ast.Return) and r.value is not None and not (
        isinstance(r.value, ast.Call) and getattr(r.value.func, "attr", "") in ("empty", "zeros"))]
    if main0:
        n += 1
        r = main0[-1]
        conj = conjuncts(_expand(r.value, env0))
        has_line = len(conj) > 1 and any(is_line_membership(c) for c in conj)
        run.add("E11.S", fn.short, "supporting line", PROVEN if has_line else UNDECIDED,
                "membership in the supporting line is a conjunct of the result" if has_line else "no `<line>.contains(point)` conjunct recognised",
                f"{fn.module.rel}:{r.lineno}")
    # (2) the bound comparisons, wherever the region computes them
    judged = False
    for g in region:
        env = _single_assign_env(g)
        tol_names = {p.arg for p in g.params() if "tol" in p.arg} | {k for k in env if "tol" in k.lower()} | {"EQ_TOL_ABS", "EQ_TOL_REL"}
        for r in [x for x in ast.walk(g.node) if isinstance(x, ast.Return) and x.value is not None]:
            comps = [c for c in conjuncts(_expand(r.value, env)) if isinstance(c, ast.Compare)]
            if not comps:
                continue
            loc = f"{g.module.rel}:{r.lineno}"
            if len(comps) < 2 and not any(len(c.ops) == 2 for c in comps):
                continue
            judged = True
            for c in comps:
                parts = [c.left] + c.comparators
                for (a, op, b) in zip(parts, c.ops, parts[1:]):
                    n += 1
                    if isinstance(op, (ast.Gt, ast.GtE)):
                        a, b = b, a
                        op = ast.Lt() if isinstance(op, ast.Gt) else ast.LtE()
                    if not isinstance(op, (ast.Lt, ast.LtE)):
                        run.add("E11.S", g.short, ast.unparse(c)[:60], UNDECIDED, "not an order comparison", loc)
                        continue
                    good = _slack(b, tol_names, +1) or _slack(a, tol_names, -1)
                    bad = _slack(b, tol_names, -1) or _slack(a, tol_names, +1)
                    label = ast.unparse(c)[:60]
                    if bad:
                        run.add("E11.S", g.short, label, VIOLATION,
                                "the tolerance tightens this bound instead of widening it: the end point (x exactly on the bound) is excluded, and so is "
                                "everything within the tolerance of it", loc)
                    elif good or isinstance(op, ast.LtE):
                        run.add("E11.S", g.short, label, PROVEN, "closed bound (" + ("widened by the tolerance" if good else "non-strict") + ")", loc)
                    else:
                        run.add("E11.S", g.short, label, VIOLATION,
                                "strict comparison without slack: the end point of the segment (x exactly on the bound) is reported outside - the segment "
                                "is a closed set", loc)
    if not judged:
        n += 1
        run.add("E11.S", fn.short, "bounds", UNDECIDED, "no returned conjunction with two bound comparisons found in contains or its private helpers", fn.loc)
    return n


def _slack(e: ast.AST, tol_names: set[str], sign: int) -> bool:
    """e contains `+ tol` (sign=+1) or `- tol` (sign=-1) at top level"""
    if isinstance(e, ast.BinOp) and isinstance(e.op, (ast.Add, ast.Sub)):
        s = +1 if isinstance(e.op, ast.Add) else -1
        if _mentions(e.right, tol_names) and not _mentions(e.left, tol_names):
            return s == sign
        if isinstance(e.op, ast.Add) and _mentions(e.left, tol_names) and not _mentions(e.right, tol_names):
            return sign == +1
        return _slack(e.left, tol_names, sign)
    return False


def _expand(e: ast.AST, env: dict[str, ast.AST], depth: int = 0) -> ast.AST:
    """boolean locals replaced by their (single) definition, so that `ok = lo & hi; return on_line & ok` is read as one conjunction"""
    if depth > 4:
        return e

    class Sub(ast.NodeTransformer):
        def visit_Name(self, n: ast.Name):
            v = env.get(n.id)
            if v is not None and isinstance(v, (ast.BinOp, ast.BoolOp, ast.Compare, ast.UnaryOp)) and any(
                    isinstance(x, (ast.Compare, ast.BitAnd, ast.And)) for x in ast.walk(v)):
                return _expand(v, env, depth + 1)
            return n

    import copy

    return Sub().visit(copy.deepcopy(e))


# ---------------------------------------------------------------------------------------------- polygon: boundary included
def rule_polygon(run: Run, prog: Program) -> int:
    run.rule(
        "E11.P",
        "PolygonTensor.contains: the crossing-number result is OR-ed with membership in one of the edges (the parity count is undefined "
        "on the boundary; the closed region includes it), and the branch for polygons embedded in 3-space conjoins membership in the "
        "supporting plane",
    )
    poly = prog.find_cls("PolygonTensor")
    fn = prog.lookup(poly, "contains") if poly is not None else None
    if fn is None:
        run.add("E11.P", "PolygonTensor", "contains", UNDECIDED, "PolygonTensor.contains not found", "")
        return 0
    fn = prog.body_of(fn)
    from geolint.dunder import _single_assign_env

    region = prog.private_helpers(fn)
    n = 0
    parity_seen = False
    # helpers whose whole body is a parity reduction (odd_count(mask)): a call to them is the parity step of the caller
    q_helpers: dict[str, bool] = {}
    for h in region:
        rets_h = [r for r in ast.walk(h.node) if isinstance(r, ast.Return) and r.value is not None]
        if len(rets_h) == 1 and len([s_ for s_ in h.node.body if not (isinstance(s_, ast.Expr) and isinstance(getattr(s_, "value", None), ast.Constant))]) == 1:
            v_ = rets_h[0].value
            if any((isinstance(x, ast.BinOp) and isinstance(x.op, ast.Mod)) or (
                    isinstance(x, ast.Call) and isinstance(x.func, ast.Attribute) and x.func.attr == "reduce" and "xor" in ast.unparse(x.func.value)) for x in ast.walk(v_)):
                q_helpers[h.name] = True
    for g in region:
        if q_helpers.get(g.name):
            continue
        env = _single_assign_env(g)
        gps = g.params()
        point = gps[1].arg if len(gps) > 1 else None

        def derives_from_edge_membership(e: ast.AST, seen: frozenset = frozenset()) -> bool:
            for x in ast.walk(e):
                if isinstance(x, ast.Call) and isinstance(x.func, ast.Attribute) and x.func.attr == "contains":
                    base = x.func.value
                    src = ast.unparse(base)
                    if "edges" in src or (isinstance(base, ast.Name) and base.id in env and "edges" in ast.unparse(env[base.id])):
                        arg_src = " ".join(ast.unparse(a) for a in x.args)
                        if point is not None and point in arg_src:
                            return True
                if isinstance(x, ast.Name) and x.id in env and x.id not in seen and derives_from_edge_membership(env[x.id], seen | {x.id}):
                    return True
            return False

        ret_names = {r.value.id for r in ast.walk(g.node) if isinstance(r, ast.Return) and isinstance(r.value, ast.Name)}
        def is_parity(x: ast.AST) -> bool:
            if isinstance(x, ast.BinOp) and isinstance(x.op, ast.Mod) and isinstance(x.right, ast.Constant) and x.right.value == 2:
                return True
            if isinstance(x, ast.BinOp) and isinstance(x.op, ast.BitAnd) and isinstance(x.right, ast.Constant) and x.right.value == 1:
                return True
            if isinstance(x, ast.Call) and isinstance(x.func, ast.Attribute) and x.func.attr == "reduce" and "xor" in ast.unparse(x.func.value):
                return True
            if isinstance(x, ast.Call) and isinstance(x.func, ast.Name) and q_helpers.get(x.func.id):
                return True
            return False

        parity_lines = [st for st in ast.walk(g.node) if isinstance(st, (ast.Assign, ast.AugAssign, ast.Return)) and st.value is not None and any(
            is_parity(x) for x in ast.walk(st.value))]
        if parity_lines:
            parity_seen = True
            n += 1
            ored = []
            for st in ast.walk(g.node):
                if isinstance(st, ast.AugAssign) and isinstance(st.op, ast.BitOr) and isinstance(st.target, ast.Name) and st.target.id in ret_names:
                    ored.append((st, st.value))
                elif isinstance(st, ast.Return) and st.value is not None:
                    for x in ast.walk(st.value):
                        if isinstance(x, ast.BinOp) and isinstance(x.op, ast.BitOr):
                            ored.append((st, x))
                        elif isinstance(x, ast.Call) and getattr(x.func, "attr", "") == "logical_or":
                            ored.append((st, x))
                elif isinstance(st, ast.Assign) and isinstance(st.value, ast.BinOp) and isinstance(st.value.op, ast.BitOr) and len(st.targets) == 1 \
                        and isinstance(st.targets[0], ast.Name) and st.targets[0].id in ret_names:
                    ored.append((st, st.value))
                elif isinstance(st, ast.Assign) and isinstance(st.value, ast.Call) and getattr(st.value.func, "attr", "") == "logical_or":
                    ored.append((st, st.value))
            p0 = parity_lines[0]
            loc = f"{g.module.rel}:{p0.lineno}"
            hit = [st for st, e in ored if derives_from_edge_membership(e)]
            if hit:
                run.add("E11.P", g.short, "boundary", PROVEN, f"`{norm_stmt(hit[0])[:70]}` adds the points that lie on an edge to the parity result", loc)
            elif ored:
                run.add("E11.P", g.short, "boundary", UNDECIDED, "the result is OR-ed with something that was not recognised as edge membership of the query point", loc)
            else:
                run.add("E11.P", g.short, "boundary", VIOLATION,
                        "the crossing-number parity is returned without adding the points that lie on an edge: for a point ON the boundary the ray "
                        "starts on an edge and the parity is arbitrary, so edge points and vertices of the closed polygon are reported outside "
                        "depending on the side the ray leaves", loc)
        # embedded polygons: coplanarity conjoined with the projected test
        plane_names = {k for k, v in env.items() if isinstance(v, ast.Call) and isinstance(v.func, ast.Attribute) and v.func.attr == "contains"
                       and "_plane" in ast.unparse(v.func.value)}
        rets = [r for r in ast.walk(g.node) if isinstance(r, ast.Return) and r.value is not None]
        final = [r for r in rets if any(isinstance(x, ast.Call) and getattr(x.func, "attr", "") == "contains" and "_plane" not in ast.unparse(x.func)
                                        for x in ast.walk(r.value))]
        if plane_names or any("_plane" in ast.unparse(r.value) for r in final):
            for r in final:
                n += 1
                conj_ok = any(isinstance(x, ast.Name) and x.id in plane_names for x in ast.walk(r.value)) or "_plane" in ast.unparse(r.value)
                is_and = any(isinstance(x, ast.BinOp) and isinstance(x.op, ast.BitAnd) for x in ast.walk(r.value)) or any(
                    isinstance(x, ast.BoolOp) and isinstance(x.op, ast.And) for x in ast.walk(r.value)) or any(
                    isinstance(x, ast.Call) and getattr(x.func, "attr", "") == "logical_and" for x in ast.walk(r.value))
                loc = f"{g.module.rel}:{r.lineno}"
                if conj_ok and is_and:
                    run.add("E11.P", g.short, "supporting plane", PROVEN, "the projected membership is conjoined with membership in the supporting plane", loc)
                elif plane_names:
                    run.add("E11.P", g.short, "supporting plane", VIOLATION,
                            f"`{norm_stmt(r)[:70]}` returns the membership of the PROJECTED point without requiring that the point lies in the "
                            f"supporting plane: every point above or below the polygon is reported inside", loc)
                else:
                    run.add("E11.P", g.short, "supporting plane", UNDECIDED, "coplanarity test not recognised", loc)
    if not parity_seen:
        n += 1
        run.add("E11.P", fn.short, "parity", UNDECIDED,
                "no crossing-number parity (`% 2`) found in contains or its private helpers: another algorithm is used; boundary clause not judged", fn.loc)
    return n
