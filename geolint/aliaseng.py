"""E1 part 3: statements, call application, constructors, and the fixpoint engine."""

from __future__ import annotations

import ast
from dataclasses import replace

from geolint import av as A
from geolint import npmodel as N
from geolint.alias import Binding, Effect, EffectInfo, Summary, add_effect, kind_from_annotation, subst_av
from geolint.aliasexpr import ExprMixin
from geolint.av import AV, DEF, SOME, UNK
from geolint.callgraph import ctor_targets, dispatch_targets
from geolint.model import ClassInfo, FunctionInfo, Program, norm_stmt
from geolint.typeval import TypeEval

MEMKINDS = (A.ND, A.ALIKE, A.TENSOR, A.UNKN, A.OBJ)


MEMO_DECORATORS = {"lru_cache", "cache", "cached", "memoize"}


class FnAnalysis(ExprMixin):
    def __init__(self, engine: "Engine", fn: FunctionInfo, ctx: str, outer_env: dict | None = None) -> None:
        self.engine = engine
        self.prog = engine.prog
        self.fn = fn
        self.ctx = ctx
        self.summary = Summary()
        self.env: dict[str, AV] = dict(outer_env or {})
        self.ret: AV | None = None
        self.yielded: AV | None = None
        self.self_out: AV | None = None
        self.cur_stmt: ast.stmt | None = None
        self.kwname = fn.node.args.kwarg.arg if fn.node.args.kwarg else None
        self.selfname = fn.params()[0].arg if (fn.cls is not None and not fn.is_staticmethod and fn.params()) else None
        self.is_ctor = fn.name in ("__init__",) and fn.cls is not None
        self.globals_declared: set[str] = set()
        for name, v in engine.initial_params(fn).items():
            self.env[name] = v
        if self.kwname:
            self.env["$copy"] = A.imm(ctx or "A")

    # ------------------------------------------------------------------ driver
    def run(self) -> Summary:
        self.block(self.fn.node.body)
        if self.yielded is not None:
            self.ret = A.join(self.ret if (self.ret and self.ret.kind != A.NONE) else None, AV(kind=A.LIST, elem=self.yielded))
        self.summary.ret = self.ret if self.ret is not None else A.NONE_AV
        if self.is_ctor and self.selfname:
            self.note_self_out()
            self.summary.self_out = self.self_out
        return self.summary

    def note_self_out(self) -> None:
        s = self.env.get(self.selfname)
        if s is not None:
            self.self_out = A.join(self.self_out, s)

    def block(self, body: list[ast.stmt]) -> bool:
        """Interprets the statements; returns False when the block cannot fall through (return/raise)."""
        for st in body:
            self.cur_stmt = st
            m = getattr(self, "st_" + type(st).__name__, None)
            if m is None:
                continue
            if m(st) is False:
                return False
        return True

    # ------------------------------------------------------------------ env helpers
    def join_env(self, a: dict, b: dict) -> dict:
        out = {}
        for k in set(a) | set(b):
            if k in a and k in b:
                out[k] = A.join(a[k], b[k])
                if k == "$copy" and a[k].const != b[k].const:
                    out[k] = A.imm("U")
            else:
                out[k] = a.get(k) or b.get(k)
        return out

    # ------------------------------------------------------------------ binding targets
    def bind(self, target: ast.AST, v: AV, node: ast.AST, raw_value: ast.AST | None = None) -> None:
        if isinstance(target, ast.Name):
            if target.id in self.globals_declared:
                self.effect("global", f"G:{self.fn.module.name}.{target.id}", node, DEF, note="assignment to a name declared global/nonlocal")
            self.env[target.id] = v
        elif isinstance(target, (ast.Tuple, ast.List)):
            for t in target.elts:
                if isinstance(t, ast.Starred):
                    self.bind(t.value, AV(kind=A.LIST, elem=A.elem_of(v)), node)
                else:
                    self.bind(t, A.elem_of(v), node)
        elif isinstance(target, ast.Attribute):
            self.store_attr(target, v, node)
        elif isinstance(target, ast.Subscript):
            self.store_item(target, v, node, raw_value)

    def store_attr(self, target: ast.Attribute, v: AV, node: ast.AST) -> None:
        obj = self.ev(target.value)
        for p in obj.ident:
            self.effect("attr", p, node, DEF, attr=target.attr, value_fresh=v.is_fresh)
        # class attribute store through the class object
        if obj.kind == A.CLS and obj.const:
            self.effect("attr", f"C:{obj.const}", node, DEF, attr=target.attr)
        # local knowledge about the object
        if isinstance(target.value, ast.Name) and target.value.id in self.env:
            cur = self.env[target.value.id]
            if target.attr == "array":
                cur = replace(cur, mem=v.mem)
            else:
                cur = cur.with_attr(target.attr, v)
            self.env[target.value.id] = cur

    def store_item(self, target: ast.Subscript, v: AV, node: ast.AST, raw_value: ast.AST | None) -> None:
        obj = self.ev(target.value)
        self.ev_index(target.slice)
        # kwargs["copy"] = False
        if isinstance(target.value, ast.Name) and target.value.id == self.kwname and isinstance(target.slice, ast.Constant):
            if target.slice.value == "copy":
                self.env["$copy"] = A.imm({False: "F", True: "T"}.get(v.const, "U") if v.kind == A.IMM and isinstance(v.const, bool) else "U")
            return
        if obj.kind in (A.ND, A.ALIKE):
            self.write_mem(obj, node, note="item assignment into an ndarray")
        elif self._tensorish(obj):
            tg = dispatch_targets(self.prog, obj.types, "__setitem__")
            if tg:
                self.apply(tg, node, [A.imm(), v], [], recv=obj)
            else:
                self.write_mem(obj, node)
        elif obj.kind in (A.LIST, A.DICT, A.SET):
            self.mutate_container(obj, node, v, note="item assignment into a container")
            self.note_stored(node, obj, v, raw_value)
            if isinstance(target.value, ast.Name) and target.value.id in self.env and not obj.ident:
                nm = target.value.id
                self.env[nm] = replace(self.env[nm], elem=A.join(self.env[nm].elem, v))
        else:
            # unknown kind: memory write with at most UNK certainty, container mutation on identities
            self.write_mem(obj, node, UNK)
            for p in obj.ident:
                self.effect("cont", p, node, UNK)
            if obj.protected_mem() or any(A.is_protected(p) for p in obj.ident):
                self.undecided(node, "item assignment into a value of unknown kind that may belong to an argument")

    # ------------------------------------------------------------------ statements
    def st_Expr(self, st: ast.Expr):
        v = st.value
        # x.__dict__.update(y.__dict__)
        if (isinstance(v, ast.Call) and isinstance(v.func, ast.Attribute) and v.func.attr == "update"
                and isinstance(v.func.value, ast.Attribute) and v.func.value.attr == "__dict__" and len(v.args) == 1
                and isinstance(v.args[0], ast.Attribute) and v.args[0].attr == "__dict__"):
            dst_e, src_e = v.func.value.value, v.args[0].value
            dst, src = self.ev(dst_e), self.ev(src_e)
            for p in dst.ident:
                self.effect("attr", p, st, DEF, attr="*", note="__dict__.update rebinds every attribute")
            if isinstance(dst_e, ast.Name) and dst_e.id in self.env:
                self.env[dst_e.id] = replace(dst, mem=A._join_mem(dst.mem, src.mem) if dst.mem else src.mem,
                                             share=dst.share | src.ident | src.share, types=dst.types | src.types,
                                             kind=src.kind if dst.kind in (A.UNKN, A.OBJ, A.TENSOR) else dst.kind, attrs=src.attrs)
            return
        self.ev(v)

    def st_Assign(self, st: ast.Assign):
        v = self.ev(st.value)
        for t in st.targets:
            self.bind(t, v, st, st.value)

    def st_AnnAssign(self, st: ast.AnnAssign):
        if st.value is not None:
            v = self.ev(st.value)
            src = ast.unparse(st.annotation)
            if v.kind == A.UNKN:
                k = kind_from_annotation(src, False)
                if k != A.UNKN:
                    v = replace(v, kind=k)
            self.bind(st.target, v, st, st.value)

    def st_AugAssign(self, st: ast.AugAssign):
        rhs = self.ev(st.value)
        t = st.target
        if isinstance(t, ast.Name):
            cur = self.env.get(t.id) or self.engine.global_value(self.fn, t.id)
            self._aug(cur, rhs, st, lambda nv: self.env.__setitem__(t.id, nv), f"`{t.id} {_op(st.op)}= ...`")
        elif isinstance(t, ast.Attribute):
            obj = self.ev(t.value)
            cur = self.load(obj, t.attr, t)

            def setback(nv):
                self.store_attr(t, nv, st)

            self._aug(cur, rhs, st, setback, f"`{ast.unparse(t)} {_op(st.op)}= ...`", rebind_is_store=True)
        elif isinstance(t, ast.Subscript):
            obj = self.ev(t.value)
            self.ev_index(t.slice)
            self.store_item(t, rhs, st, None)

    def _aug(self, cur: AV, rhs: AV, st, setter, text: str, rebind_is_store: bool = False) -> None:
        k = cur.kind
        if k == A.ND:
            self.write_mem(cur, st, note=f"{text} works in place on an ndarray")
            return
        if k == A.ALIKE:
            self.write_mem(cur, st, SOME, note=f"{text} works in place when the operand is an ndarray")
            return
        if k in (A.LIST, A.SET, A.DICT):
            self.mutate_container(cur, st, rhs, note=f"{text} extends the container in place")
            return
        if k in (A.IMM, A.NONE, A.TUPLE):
            setter(A.imm() if k != A.TUPLE else AV(kind=A.TUPLE, elem=A.join(cur.elem, rhs.elem)))
            return
        if k == A.TENSOR or (cur.types and k in (A.UNKN, A.OBJ)):
            # no __i*__ is defined in the package (checked by the engine): falls back to the binary dunder, i.e. a rebinding
            if self.engine.has_inplace_dunder(cur, st.op):
                self.write_mem(cur, st, note=f"{text} calls an in-place dunder")
                return
            core = {ast.Add: "add", ast.Sub: "sub", ast.Mult: "mul", ast.Div: "truediv", ast.Pow: "pow"}.get(type(st.op))
            out = A.fresh(A.TENSOR)
            if core:
                tg = dispatch_targets(self.prog, cur.types, f"__{core}__")
                if tg:
                    out = self.apply(tg, st, [rhs], [], recv=cur)
            setter(out)
            return
        # unknown kind
        self.write_mem(cur, st, UNK)
        if cur.protected_mem():
            self.undecided(st, f"{text} on a value of unknown kind that may share memory with an argument")

    def st_Return(self, st: ast.Return):
        v = self.ev(st.value) if st.value is not None else A.NONE_AV
        self.ret = A.join(self.ret, v)
        if self.is_ctor:
            self.note_self_out()
        return False

    def st_Raise(self, st: ast.Raise):
        if st.exc is not None:
            self.ev(st.exc)
        return False

    def st_Assert(self, st):
        self.ev(st.test)

    def st_Delete(self, st: ast.Delete):
        for t in st.targets:
            if isinstance(t, ast.Subscript):
                obj = self.ev(t.value)
                if obj.kind in (A.ND, A.ALIKE):
                    self.write_mem(obj, st)
                else:
                    self.mutate_container(obj, st, None, note="del item")
            elif isinstance(t, ast.Attribute):
                obj = self.ev(t.value)
                for p in obj.ident:
                    self.effect("attr", p, st, DEF, attr=t.attr)
            elif isinstance(t, ast.Name):
                self.env.pop(t.id, None)

    def st_Global(self, st: ast.Global):
        self.globals_declared |= set(st.names)

    st_Nonlocal = st_Global

    def st_If(self, st: ast.If):
        self.ev(st.test)
        pre = dict(self.env)
        ft_body = self.block(st.body)
        env_body = self.env
        self.env = dict(pre)
        ft_else = self.block(st.orelse)
        env_else = self.env
        if ft_body and ft_else:
            self.env = self.join_env(env_body, env_else)
        elif ft_body:
            self.env = env_body
        elif ft_else:
            self.env = env_else
        else:
            self.env = self.join_env(env_body, env_else)
            return False

    def _loop(self, st, binder) -> None:
        pre = dict(self.env)
        for _ in range(3):
            binder()
            self.block(st.body)
            new = self.join_env(pre, self.env)
            if new == pre:
                break
            pre = new
            self.env = dict(pre)
        self.env = dict(pre)
        self.block(st.orelse)

    def st_For(self, st: ast.For):
        it = self.ev(st.iter)
        el = self.iter_elem(it, st.iter)
        self._loop(st, lambda: self.bind(st.target, el, st))

    def st_While(self, st: ast.While):
        self._loop(st, lambda: self.ev(st.test))

    def st_With(self, st: ast.With):
        for item in st.items:
            v = self.ev(item.context_expr)
            if item.optional_vars is not None:
                self.bind(item.optional_vars, v, st)
        return None if self.block(st.body) else False

    def st_Try(self, st: ast.Try):
        pre = dict(self.env)
        ft = self.block(st.body)
        post = self.env
        merged = self.join_env(pre, post)
        outs = []
        if ft:
            self.env = dict(post)
            if self.block(st.orelse):
                outs.append(self.env)
        for h in st.handlers:
            self.env = dict(merged)
            if h.name:
                t = self.prog.resolve_expr_name(self.fn.module, h.type, self.fn) if h.type is not None else None
                self.env[h.name] = AV(kind=A.OBJ, types=frozenset({t}) if t in self.prog.classes else frozenset())
            if self.block(h.body):
                outs.append(self.env)
        if outs:
            env = outs[0]
            for o in outs[1:]:
                env = self.join_env(env, o)
            self.env = env
        else:
            self.env = merged
        ft2 = self.block(st.finalbody)
        if not outs or not ft2:
            return False

    def st_Match(self, st):
        self.ev(st.subject)
        pre = dict(self.env)
        outs = []
        for case in st.cases:
            self.env = dict(pre)
            for n in ast.walk(case.pattern):  # names bound by the pattern alias (parts of) the subject
                nm = getattr(n, "name", None)
                if isinstance(nm, str):
                    self.env[nm] = self.ev(st.subject)
            if case.guard is not None:
                self.ev(case.guard)
            if self.block(case.body):
                outs.append(self.env)
        env = pre
        for o in outs:
            env = self.join_env(env, o)
        self.env = env

    def st_FunctionDef(self, st):
        q = f"{self.fn.qualname}.<locals>.{st.name}"
        self.env[st.name] = AV(kind=A.FUNC, const=q)
        self.engine.closure_env[q] = dict(self.env)

    st_AsyncFunctionDef = st_FunctionDef

    def st_ClassDef(self, st):
        self.env[st.name] = AV(kind=A.CLS)

    def st_Import(self, st):
        pass

    st_ImportFrom = st_Import
    st_Pass = st_Import

    def st_Break(self, st):
        return None

    st_Continue = st_Break

    # ------------------------------------------------------------------ iteration
    def iter_elem(self, it: AV, node: ast.AST) -> AV:
        if self._tensorish(it):
            tg = dispatch_targets(self.prog, it.types, "__iter__")
            if tg:
                r = self.apply(tg, node, [], [], recv=it)
                el = A.elem_of(r) if r.kind in A.CONTAINERS else A.elem_of(it)
                tv = self.engine.te.iter_elem(self.engine.tv_of(it))
                if tv.classes:
                    el = replace(el, types=el.types | tv.classes, kind=A.TENSOR if el.kind == A.UNKN else el.kind)
                return el
        return A.elem_of(it)

    def iter_protocol(self, v: AV, node: ast.AST) -> None:  # overrides the mixin stub
        self.iter_elem(v, node)

    # ------------------------------------------------------------------ calls into the package
    def chain_entry(self, node: ast.AST) -> tuple:
        return (self.fn.short, self.fn.module.rel, getattr(node, "lineno", 0))

    def bind_args(self, callee: FunctionInfo, args, kws, recv: AV | None, cls_av: AV | None) -> dict[str, AV]:
        a = callee.node.args
        pos = list(a.posonlyargs) + list(a.args)
        params: dict[str, AV] = {}
        names = [p.arg for p in pos]
        if callee.cls is not None and not callee.is_staticmethod and names:
            first = names.pop(0)
            if callee.is_classmethod:
                params[first] = cls_av or AV(kind=A.CLS, types=frozenset({callee.cls.qualname}))
            else:
                params[first] = recv if recv is not None else A.fresh(A.TENSOR, {callee.cls.qualname})
        starred_join = None
        plain = []
        for star, v in args:
            if star == "*":
                starred_join = A.join(starred_join, A.elem_of(v))
            else:
                plain.append(v)
        i = 0
        rest = []
        for v in plain:
            if i < len(names):
                params[names[i]] = v
                i += 1
            else:
                rest.append(v)
        if starred_join is not None:
            for nm in names[i:]:
                params[nm] = A.join(params.get(nm), starred_join)
            rest.append(starred_join)
        kwonly = [p.arg for p in a.kwonlyargs]
        for k, v in kws:
            if k is None:
                continue
            if k in names or k in kwonly:
                params[k] = v
        if a.vararg:
            params[a.vararg.arg] = AV(kind=A.TUPLE, elem=A.join_all(rest))
        if a.kwarg:
            params[a.kwarg.arg] = AV(kind=A.DICT)
        # defaults
        defaults = dict(zip([p.arg for p in pos[len(pos) - len(a.defaults):]], a.defaults)) if a.defaults else {}
        for p, d in zip(a.kwonlyargs, a.kw_defaults):
            if d is not None:
                defaults[p.arg] = d
        for nm, d in defaults.items():
            if nm not in params:
                params[nm] = self.engine.default_av(callee, nm, d)
        return params

    def callee_ctx(self, callee: FunctionInfo, node: ast.AST, kws) -> str:
        if callee.node.args.kwarg is None:
            return ""
        if not isinstance(node, ast.Call):
            return "A"
        kw = dict((k, v) for k, v in kws if k is not None)
        return self.copy_flag_of_call(node, kw)

    def apply(self, targets, node, args, kws, recv: AV | None = None, cls_av: AV | None = None, prepared: bool = False,
              raw_args=None, cha: bool = False) -> AV:
        if not prepared:
            args = [("", v) for v in args]
        out = None
        for callee in targets:
            if callee.is_abstract and len(targets) > 1:
                continue
            ctx = self.callee_ctx(callee, node, kws)
            s = self.engine.summary(callee, ctx)
            r = recv
            if callee.is_staticmethod:
                r = None
            b = Binding(self.bind_args(callee, args, kws, r, cls_av))
            for eff, info in s.effects.items():
                self.apply_effect(eff, info, b, node, callee, cha)
            for u in s.undecided:
                pass
            rv = subst_av(self.engine, s.ret, b) if s.ret is not None else A.BOTTOM_AV
            rv = self.engine.refine_return(callee, rv, recv, cls_av)
            if MEMO_DECORATORS & set(callee.decorators):
                # functools.lru_cache / cache: every caller receives the SAME object for equal arguments - process-wide shared state
                path = f"G:{callee.qualname}@memo"
                rv = AV(kind=rv.kind if rv.kind not in (A.IMM, A.BOTTOM) else rv.kind, ident=frozenset({path}), mem=frozenset({(path, DEF)}),
                        types=rv.types, elem=rv.elem) if rv.kind not in (A.IMM, A.BOTTOM) else rv
            out = A.join(out, rv)
        return out if out is not None else A.fresh()

    def apply_effect(self, eff: Effect, info: EffectInfo, b: Binding, node, callee: FunctionInfo, cha: bool) -> None:
        chain = (self.chain_entry(node),) + info.chain
        cap = UNK if cha else DEF
        # an effect that is the documented contract of the callee (x[i] = v -> __setitem__, out=, builder calls) originates HERE
        root = A.split_path(eff.path)[0]
        cps = callee.params()
        cself = cps[0].arg if (callee.cls is not None and not callee.is_staticmethod and cps) else None
        contract = (root == "P:out" and eff.kind == "mem") or (
            cself is not None and root == f"P:{cself}" and (callee.name in ("__setitem__", "__delitem__", "__iadd__", "__isub__", "__imul__", "__itruediv__")
                                                         or callee.name in ("add_node", "add_edge") and not self.engine.is_tensor_class(callee.cls)))
        if contract:
            st = self.cur_stmt if self.cur_stmt is not None else node
            info = EffectInfo(cert=info.cert, origin=(self.fn.module.rel, getattr(st, "lineno", 0), norm_stmt(st), self.fn.short), chain=(),
                              value_fresh=info.value_fresh, note=f"through {callee.short}")
            chain = ()

        def rec(kind, path, cert, attr=""):
            if not A.is_protected(path):
                return
            add_effect(self.summary.effects, Effect(kind, path, attr),
                       EffectInfo(cert=min(cert, cap), origin=info.origin, chain=chain, value_fresh=info.value_fresh, note=info.note))

        if not eff.path.startswith("P:"):
            rec(eff.kind, eff.path, info.cert, eff.attr)
            return
        r = b.resolve(self.engine, eff.path)
        if r is None:
            return
        if eff.kind == "mem":
            for q, c in r.mem:
                rec("mem", q, min(info.cert, c))
        elif eff.kind in ("attr", "cont", "global"):
            for q in r.ident:
                rec(eff.kind, q, info.cert, eff.attr)

    def merge_self_out(self, targets, node, args, kws, recv_name: str) -> None:
        """After super().__init__(...): the receiver has the attributes / array memory the base constructor gave it."""
        cur = self.env.get(recv_name)
        if cur is None:
            return
        new = None
        for callee in targets:
            ctx = self.callee_ctx(callee, node, kws)
            s = self.engine.summary(callee, ctx)
            if s.self_out is None:
                continue
            b = Binding(self.bind_args(callee, args, kws, cur, None))
            new = A.join(new, subst_av(self.engine, s.self_out, b))
        if new is not None:
            attrs = dict(cur.attrs)
            attrs.update(dict(new.attrs))
            self.env[recv_name] = replace(cur, mem=new.mem if new.mem or not cur.mem else cur.mem, attrs=tuple(sorted(attrs.items())),
                                          share=cur.share | new.share)

    def construct(self, classes: list[ClassInfo], node: ast.Call, with_subclasses: bool = False, evaluated=None) -> AV:
        args, kws = evaluated if evaluated is not None else self.eval_args(node)
        out = None
        seen = set()
        for c in classes:
            ks = [c] + (self.prog.subclasses(c, strict=True) if with_subclasses else [])
            for k in ks:
                init = self.prog.lookup(k, "__init__")
                new = self.prog.lookup(k, "__new__")
                key = (init.qualname if init else None, new.qualname if new else None)
                if key in seen:
                    continue
                seen.add(key)
                obj = AV(kind=A.TENSOR if self.engine.is_tensor_class(k) else A.OBJ, types=frozenset({k.qualname}))
                res = obj
                if new is not None:
                    nv = self.apply([new], node, args, kws, cls_av=AV(kind=A.CLS, types=frozenset({k.qualname})), prepared=True)
                    if nv.kind not in (A.BOTTOM, A.NONE) and nv.types:
                        res = A.join(res, nv)
                if init is not None:
                    ctx = self.callee_ctx(init, node, kws)
                    s = self.engine.summary(init, ctx)
                    b = Binding(self.bind_args(init, args, kws, obj, None))
                    for eff, info in s.effects.items():
                        self.apply_effect(eff, info, b, node, init, False)
                    if s.self_out is not None:
                        so = subst_av(self.engine, s.self_out, b)
                        res = A.join(res if res is not obj else None, replace(so, kind=obj.kind, types=obj.types, ident=frozenset(i for i in so.ident if False)))
                out = A.join(out, res)
        return out if out is not None else A.fresh(A.TENSOR)


def _op(op) -> str:
    return {ast.Add: "+", ast.Sub: "-", ast.Mult: "*", ast.Div: "/", ast.BitAnd: "&", ast.BitOr: "|", ast.Pow: "**",
            ast.MatMult: "@", ast.FloorDiv: "//", ast.Mod: "%", ast.BitXor: "^"}.get(type(op), "?")


class Engine:
    def __init__(self, prog: Program) -> None:
        self.prog = prog
        self.te = TypeEval(prog)
        self.summaries: dict[tuple[str, str], Summary] = {}
        self.demand: set[tuple[str, str]] = set()
        self.closure_env: dict[str, dict] = {}
        self.sites: dict = {}
        self.cache_fills: dict = {}
        self.rounds = 0
        self._tensor = prog.find_cls("Tensor")
        self._global_cache: dict[str, AV] = {}
        self._inplace_dunders = {(c.qualname, n) for c in prog.classes.values() for n in c.methods if n.startswith("__i") and n.endswith("__")
                                 and n not in ("__init__", "__iter__", "__int__", "__index__", "__invert__", "__init_subclass__")}
        self.attr_ann: dict[str, dict[str, tuple]] = {}
        for c in prog.classes.values():
            d = {}
            for a, ann in c.annotations.items():
                d[a] = (c.module, ann)
            init = c.methods.get("__init__")
            if init is not None:
                for st in ast.walk(init.node):
                    if isinstance(st, ast.AnnAssign) and isinstance(st.target, ast.Attribute):
                        d.setdefault(st.target.attr, (c.module, st.annotation))
            self.attr_ann[c.qualname] = d

    # ------------------------------------------------------------------ bookkeeping of write constructs
    def note_site(self, an, node, kind: str, path: str) -> None:
        st = an.cur_stmt if an.cur_stmt is not None else node
        key = (an.fn.short, norm_stmt(st))
        rec = self.sites.setdefault(key, {"loc": f"{an.fn.module.rel}:{getattr(st, 'lineno', 0)}", "kinds": set(), "paths": set()})
        rec["kinds"].add(kind)
        if path:
            rec["paths"].add(path)

    def cache_fill_ok(self, an, path: str, value_fresh: bool, note: str, node) -> bool:
        """Sanctioned: the owning class's __init__ stores a fresh array into its own class-level cache by item assignment."""
        root, sels = A.split_path(path)
        owner = root[2:]
        fn = an.fn
        ok = (fn.name == "__init__" and fn.cls is not None and fn.cls.qualname == owner and len(sels) == 1 and value_fresh
              and "item assignment" in note)
        if ok:
            st = an.cur_stmt if an.cur_stmt is not None else node
            self.cache_fills[(fn.short, norm_stmt(st))] = {"loc": f"{fn.module.rel}:{getattr(st, 'lineno', 0)}", "cache": path, "stmt": st, "fn": fn}
        return ok

    # ------------------------------------------------------------------ facts
    def is_tensor_class(self, c: ClassInfo) -> bool:
        return self._tensor is not None and self.prog.is_subclass(c, self._tensor)

    def has_inplace_dunder(self, v: AV, op) -> bool:
        core = {ast.Add: "add", ast.Sub: "sub", ast.Mult: "mul", ast.Div: "truediv", ast.Pow: "pow", ast.BitAnd: "and", ast.BitOr: "or"}.get(type(op))
        if core is None:
            return False
        for t in v.types:
            c = self.prog.classes.get(t)
            if c is None:
                continue
            for k in [c] + self.prog.subclasses(c, strict=True):
                if self.prog.lookup(k, f"__i{core}__") is not None:
                    return True
        return False

    def tv_of(self, v: AV):
        from geolint.typeval import TypeVal

        return TypeVal(frozenset(v.types))

    def attr_annotation(self, types, name):
        for t in types:
            c = self.prog.classes.get(t)
            if c is None:
                continue
            for k in self.prog.mro(c) + self.prog.subclasses(c, strict=True):
                hit = self.attr_ann.get(k.qualname, {}).get(name)
                if hit:
                    return hit
        return None

    def av_from_annotation(self, module, ann, fn=None, cls=None) -> tuple[str, frozenset, AV | None]:
        v = self._ann_av(module, ann, fn, cls, 0)
        return v.kind, v.types, v.elem

    def _ann_av(self, module, ann, fn, cls, depth) -> AV:
        if ann is None or depth > 4:
            return AV(kind=A.UNKN)
        if isinstance(ann, ast.Constant) and isinstance(ann.value, str):
            try:
                ann = ast.parse(ann.value, mode="eval").body
            except SyntaxError:
                return AV(kind=A.UNKN)
        if isinstance(ann, ast.Constant) and ann.value is None:
            return A.NONE_AV
        if isinstance(ann, ast.BinOp) and isinstance(ann.op, ast.BitOr):
            l, r = self._ann_av(module, ann.left, fn, cls, depth + 1), self._ann_av(module, ann.right, fn, cls, depth + 1)
            return self._ann_join(l, r)
        if isinstance(ann, ast.Subscript):
            head = ast.unparse(ann.value).split(".")[-1]
            sl = ann.slice
            elts = sl.elts if isinstance(sl, ast.Tuple) else [sl]
            if head in ("Union", "Optional"):
                out = None
                for e in elts:
                    x = self._ann_av(module, e, fn, cls, depth + 1)
                    out = x if out is None else self._ann_join(out, x)
                return out or AV(kind=A.UNKN)
            if head in ("ClassVar", "Final", "Unpack", "Annotated"):
                return self._ann_av(module, elts[0], fn, cls, depth + 1)
            kind = {"list": A.LIST, "List": A.LIST, "Sequence": A.LIST, "Iterable": A.LIST, "Iterator": A.LIST, "Generator": A.LIST,
                    "tuple": A.TUPLE, "Tuple": A.TUPLE, "dict": A.DICT, "Dict": A.DICT, "set": A.SET, "Set": A.SET,
                    "frozenset": A.SET, "Collection": A.LIST}.get(head)
            if kind is not None:
                use = elts[1:] if kind == A.DICT and len(elts) == 2 else (elts[:1] if head == "Generator" else elts)
                el = None
                for e in use:
                    if isinstance(e, ast.Constant) and e.value is Ellipsis:
                        continue
                    x = self._ann_av(module, e, fn, cls, depth + 1)
                    el = x if el is None else self._ann_join(el, x)
                return AV(kind=kind, elem=el)
            if head in ("NDArray", "ndarray"):
                return AV(kind=A.ND)
            if head in ("Literal", "type", "Callable", "TypeGuard", "dtype"):
                return AV(kind=A.IMM if head != "Callable" else A.FUNC)
            t = self.prog.resolve_expr_name(module, ann.value, fn)
            if t in self.prog.classes:
                return AV(kind=A.TENSOR if self.is_tensor_class(self.prog.classes[t]) else A.OBJ, types=frozenset({t}))
            return AV(kind=A.UNKN)
        if isinstance(ann, (ast.Name, ast.Attribute)):
            src = ast.unparse(ann)
            base = src.split(".")[-1]
            tv = self.te.from_annotation(module, ann, fn, cls)
            if tv.classes:
                ks = [self.prog.classes[q] for q in tv.classes]
                return AV(kind=A.TENSOR if all(self.is_tensor_class(k) for k in ks) else A.OBJ, types=tv.classes)
            return AV(kind=kind_from_annotation(base, False))
        return AV(kind=A.UNKN)

    @staticmethod
    def _ann_join(l: AV, r: AV) -> AV:
        if l.kind == A.NONE:
            return r
        if r.kind == A.NONE:
            return l
        if l.kind == r.kind:
            return AV(kind=l.kind, types=l.types | r.types, elem=A.join(l.elem, r.elem))
        if l.kind == A.IMM and r.kind in (A.ND, A.ALIKE, A.TENSOR, A.LIST, A.TUPLE):
            return r
        if r.kind == A.IMM and l.kind in (A.ND, A.ALIKE, A.TENSOR, A.LIST, A.TUPLE):
            return l
        if {l.kind, r.kind} <= {A.ND, A.ALIKE}:
            return AV(kind=A.ALIKE)
        return AV(kind=A.UNKN, types=l.types | r.types, elem=A.join(l.elem, r.elem))

    # ------------------------------------------------------------------ attribute loads (fields)
    def load_attr(self, v: AV, name: str) -> AV:
        if v.kind in (A.ND, A.ALIKE):
            if name in N.ND_VIEW_ATTRS:
                return A.view_of(v, DEF if name != "imag" else SOME)
            if name in N.ND_IMM_ATTRS:
                return A.imm()
            return A.fresh()
        known = v.attr(name)
        if known is not None:
            return known
        if v.kind in (A.IMM, A.NONE, A.FUNC):
            return A.imm()
        if name == "array":
            return AV(kind=A.ND, mem=v.mem)
        if name == "__dict__":
            return AV(kind=A.DICT, ident=frozenset(A.sub_path(p, "__dict__") for p in v.ident))
        # class-level attribute (ClassVar caches, _element_class)
        for t in v.types:
            c = self.prog.classes.get(t)
            if c is None:
                continue
            hit = self.prog.class_attr(c, name)
            if hit is not None:
                owner, val = hit
                if isinstance(val, (ast.Dict, ast.List, ast.Set)) or (isinstance(val, ast.Call) and getattr(val.func, "id", "") in ("dict", "list", "set")):
                    path = f"C:{owner.qualname}/{name}"
                    kind = A.DICT if isinstance(val, ast.Dict) or getattr(getattr(val, "func", None), "id", "") == "dict" else (A.LIST if isinstance(val, ast.List) else A.SET)
                    return AV(kind=kind, ident=frozenset({path}), elem=AV(kind=A.ND, mem=frozenset({(A.sub_path(path, "[]"), DEF)})))
                tgt = self.prog.resolve_expr_name(owner.module, val) if isinstance(val, (ast.Name, ast.Attribute)) else None
                if tgt in self.prog.classes:
                    return AV(kind=A.CLS, types=frozenset({tgt}), const=tgt)
                if isinstance(val, ast.Constant):
                    return A.imm(val.value)
        kind, classes, elem = A.UNKN, frozenset(), None
        hit = self.attr_annotation(v.types, name)
        if hit is not None:
            kind, classes, elem = self.av_from_annotation(hit[0], hit[1])
        paths = [p for p in (v.ident | v.share)]
        if not paths:
            # attribute of a locally built object we know nothing about: unrelated to the object's array memory
            return AV(kind=kind, types=classes, elem=elem)
        ids = frozenset(A.sub_path(p, name) for p in paths)
        mem = frozenset((p, DEF) for p in ids) if kind in MEMKINDS else frozenset()
        if elem is not None and ids:
            elem = self.root_elem(elem, ids)
        return AV(kind=kind, ident=ids, mem=mem, types=classes, elem=elem)

    def root_elem(self, elem: AV, parents: frozenset, depth: int = 0) -> AV:
        """Give the element abstraction of a protected container its own sub-paths (recursively, k-limited)."""
        eids = frozenset(A.sub_path(p, "[]") for p in parents)
        inner = self.root_elem(elem.elem, eids, depth + 1) if (elem.elem is not None and depth < 3) else elem.elem
        return replace(elem, ident=eids, mem=frozenset((p, DEF) for p in eids) if elem.kind in MEMKINDS else frozenset(), elem=inner)

    # ------------------------------------------------------------------ globals
    def global_value(self, fn: FunctionInfo, name: str) -> AV:
        t = self.prog.resolve_name(fn.module, name, fn)
        if t is None:
            if name in ("np", "numpy", "math"):
                return A.imm()
            if name in ("True", "False"):
                return A.imm(name == "True")
            return A.fresh()
        if t in self.prog.functions:
            return AV(kind=A.FUNC, const=t)
        if t in self.prog.classes:
            return AV(kind=A.CLS, types=frozenset({t}), const=t)
        if self.prog.global_value(t) is not None:
            return self.global_av(t)
        return A.imm() if not t.startswith("geometer") else A.fresh()

    def global_av(self, dotted: str) -> AV:
        if dotted in self._global_cache:
            return self._global_cache[dotted]
        m, val = self.prog.global_value(dotted)
        path = f"G:{dotted}"
        out: AV
        if isinstance(val, ast.Constant):
            out = A.imm(val.value)
        elif isinstance(val, (ast.BinOp, ast.UnaryOp)) and all(isinstance(x, (ast.Constant, ast.BinOp, ast.UnaryOp, ast.operator, ast.unaryop)) for x in ast.walk(val)):
            out = A.imm()
        elif isinstance(val, ast.Name):
            t = self.prog.resolve_name(m, val.id)
            out = self.global_av(t) if t and self.prog.global_value(t) is not None else (
                AV(kind=A.FUNC, const=t) if t in self.prog.functions else A.imm())
        elif isinstance(val, (ast.Dict, ast.Set, ast.List)):
            kind = {ast.Dict: A.DICT, ast.Set: A.SET, ast.List: A.LIST}[type(val)]
            out = AV(kind=kind, ident=frozenset({path}), elem=A.imm())
        elif isinstance(val, ast.Call):
            t = self.prog.resolve_expr_name(m, val.func)
            if t in self.prog.classes:
                k = self.prog.classes[t]
                out = AV(kind=A.TENSOR if self.is_tensor_class(k) else A.OBJ, ident=frozenset({path}), mem=frozenset({(path, DEF)}), types=frozenset({t}))
            elif t in self.prog.functions:
                f = self.prog.functions[t]
                tv = self.te.from_annotation(f.module, f.node.returns, f)
                out = AV(kind=A.TENSOR if tv.classes else A.UNKN, ident=frozenset({path}), mem=frozenset({(path, DEF)}), types=tv.classes)
            elif t and (t.startswith("typing.") or "TypeVar" in t):
                out = A.imm()
            else:
                out = AV(kind=A.UNKN, ident=frozenset({path}), mem=frozenset({(path, DEF)}))
        else:
            out = A.imm()
        self._global_cache[dotted] = out
        return out

    def default_av(self, callee: FunctionInfo, name: str, d: ast.AST) -> AV:
        if isinstance(d, ast.Constant):
            return A.NONE_AV if d.value is None else A.imm(d.value)
        if isinstance(d, ast.UnaryOp) and isinstance(d.operand, ast.Constant):
            return A.imm()
        if isinstance(d, ast.Name):
            return self.global_value(callee, d.id)
        ann = next((p.annotation for p in callee.params() if p.arg == name), None)
        kind, classes, elem = self.av_from_annotation(callee.module, ann, callee, callee.cls)
        path = f"G:{callee.qualname}#{name}"
        if isinstance(d, ast.Call):
            t = self.prog.resolve_expr_name(callee.module, d.func, callee)
            if t in self.prog.classes:
                classes = frozenset({t})
                kind = A.TENSOR if self.is_tensor_class(self.prog.classes[t]) else A.OBJ
        if isinstance(d, (ast.List, ast.Dict, ast.Set)):
            kind = {ast.List: A.LIST, ast.Dict: A.DICT, ast.Set: A.SET}[type(d)]
        if isinstance(d, ast.Tuple):
            return AV(kind=A.TUPLE, elem=A.imm())
        return AV(kind=kind, ident=frozenset({path}), mem=frozenset({(path, DEF)}) if kind in MEMKINDS else frozenset(), types=classes, elem=elem)

    # ------------------------------------------------------------------ parameters
    def initial_params(self, fn: FunctionInfo) -> dict[str, AV]:
        out: dict[str, AV] = {}
        a = fn.node.args
        ps = fn.params()
        for i, p in enumerate(ps):
            path = f"P:{p.arg}"
            if i == 0 and fn.cls is not None and not fn.is_staticmethod:
                if fn.is_classmethod or fn.name == "__new__":
                    out[p.arg] = AV(kind=A.CLS, types=frozenset({fn.cls.qualname}), const=fn.cls.qualname)
                else:
                    kind = A.TENSOR if self.is_tensor_class(fn.cls) else A.OBJ
                    out[p.arg] = AV(kind=kind, ident=frozenset({path}), mem=frozenset({(path, DEF)}) if kind == A.TENSOR else frozenset(),
                                    types=frozenset({fn.cls.qualname}))
                continue
            kind, classes, elem = self.av_from_annotation(fn.module, p.annotation, fn, fn.cls)
            mem = frozenset({(path, DEF)}) if kind in MEMKINDS else frozenset()
            if elem is not None:
                elem = self.root_elem(elem, frozenset({path}))
            out[p.arg] = AV(kind=kind, ident=frozenset({path}), mem=mem, types=classes, elem=elem)
        if a.vararg:
            path = f"P:{a.vararg.arg}"
            kind, classes, _e = self.av_from_annotation(fn.module, a.vararg.annotation, fn, fn.cls)
            ep = A.sub_path(path, "[]")
            el = AV(kind=kind, ident=frozenset({ep}), mem=frozenset({(ep, DEF)}) if kind in MEMKINDS else frozenset(), types=classes)
            out[a.vararg.arg] = AV(kind=A.TUPLE, ident=frozenset({path}), elem=el)
        if a.kwarg:
            out[a.kwarg.arg] = AV(kind=A.DICT)
        return out

    def refine_return(self, callee: FunctionInfo, rv: AV, recv: AV | None, cls_av: AV | None) -> AV:
        self_cls = None
        if recv is not None and len(recv.types) == 1:
            self_cls = self.prog.classes.get(next(iter(recv.types)))
        if cls_av is not None and len(cls_av.types) == 1:
            self_cls = self.prog.classes.get(next(iter(cls_av.types)))
        if self_cls is None:
            self_cls = callee.cls
        tv = self.te.from_annotation(callee.module, callee.node.returns, callee, self_cls)
        if callee.cls is not None:
            for ov in callee.cls.overloads.get(callee.name, []):
                tv = tv.join(self.te.from_annotation(ov.module, ov.node.returns, ov, self_cls))
        if rv.kind == A.BOTTOM:
            rv = AV(kind=A.UNKN)
        if tv.classes:
            kind = rv.kind if rv.kind not in (A.UNKN, A.OBJ) else A.TENSOR
            rv = replace(rv, types=rv.types | tv.classes, kind=kind)
        elif tv.is_array and rv.kind in (A.UNKN, A.ALIKE):
            rv = replace(rv, kind=A.ND)
        elif tv.elem is not None and rv.kind in A.CONTAINERS | {A.UNKN}:
            el = rv.elem or AV(kind=A.UNKN)
            if tv.elem.classes:
                el = replace(el, types=el.types | tv.elem.classes, kind=A.TENSOR if el.kind == A.UNKN else el.kind)
            elif tv.elem.is_array and el.kind == A.UNKN:
                el = replace(el, kind=A.ND)
            rv = replace(rv, elem=el, kind=rv.kind if rv.kind != A.UNKN else A.LIST)
        else:
            src = ast.unparse(callee.node.returns) if callee.node.returns is not None else ""
            if rv.kind == A.UNKN and src in ("int", "float", "bool", "str", "None"):
                rv = replace(rv, kind=A.IMM)
        return rv

    # ------------------------------------------------------------------ fixpoint
    def summary(self, fn: FunctionInfo, ctx: str) -> Summary:
        key = (fn.qualname, ctx)
        self.demand.add(key)
        s = self.summaries.get(key)
        if s is None:
            return Summary(ret=A.BOTTOM_AV)
        return s

    def analyse(self, fn: FunctionInfo, ctx: str) -> Summary:
        outer = self.closure_env.get(fn.qualname) if fn.parent is not None else None
        an = FnAnalysis(self, fn, ctx, outer)
        try:
            return an.run()
        except RecursionError:
            s = Summary(ret=A.fresh())
            s.undecided.append((fn.module.rel, fn.node.lineno, "def " + fn.name, "analysis recursion limit", fn.short))
            return s

    def run(self, max_rounds: int = 12) -> None:
        for fn in self.prog.package_functions():
            self.demand.add((fn.qualname, "A" if fn.node.args.kwarg is not None else ""))
        for r in range(max_rounds):
            self.rounds = r + 1
            changed = False
            for key in sorted(self.demand):
                fn = self.prog.functions.get(key[0])
                if fn is None:
                    continue
                s = self.analyse(fn, key[1])
                old = self.summaries.get(key)
                if old is None or old.sig() != s.sig():
                    changed = True
                self.summaries[key] = s
            if not changed:
                break
