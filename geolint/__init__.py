"""geolint - repository-specific static checkers for jan-mue/geometer (pure stdlib, ast based)."""
