"""Self-test variant table: realistic breaking edits (must be reported) and behaviour-preserving twins (must be silent)."""

from geolint.selftest import V

BASE = "geometer/base.py"
POINT = "geometer/point.py"
CURVE = "geometer/curve.py"
SHAPES = "geometer/shapes.py"
OPS = "geometer/operators.py"
TRANS = "geometer/transformation.py"
DISP = "geometer/utils/ops_dispatch.py"
MATH = "geometer/utils/math.py"

# ------------------------------------------------------------------------------------------------ C19
V("D1 regression: PointLikeTensor.__sub__ -> super().__add__", "C19", POINT,
  "        if not isinstance(other, PointLikeTensor):\n            return super().__sub__(other)",
  "        if not isinstance(other, PointLikeTensor):\n            return super().__add__(other)", "E2.S1", "PointLikeTensor.__sub__", quick=True)
V("D2 regression: QuadricTensor.__sub__ -> super().__add__", "C19", CURVE,
  "        if not isinstance(other, PointTensor):\n            return super().__sub__(other)",
  "        if not isinstance(other, PointTensor):\n            return super().__add__(other)", "E2.S1", "QuadricTensor.__sub__")
V("PointLikeTensor.__mul__ falls through to super().__truediv__", "C19", POINT,
  "        if not is_numerical_scalar(other):\n            return super().__mul__(other)",
  "        if not is_numerical_scalar(other):\n            return super().__truediv__(other)", "E2.S1", "PointLikeTensor.__mul__")
V("twin: __sub__ as super().__add__(-other)", "C19", CURVE,
  "        if not isinstance(other, PointTensor):\n            return super().__sub__(other)",
  "        if not isinstance(other, PointTensor):\n            return super().__add__(-other)", "silent")
V("__rsub__ returns self - other", "C19", BASE,
  "    def __rsub__(self, other: Tensor | npt.ArrayLike) -> Tensor:\n        return -self + other",
  "    def __rsub__(self, other: Tensor | npt.ArrayLike) -> Tensor:\n        return self - other", "E2.S2", "Tensor.__rsub__")
V("twin: __rsub__ returns other + (-self)", "C19", BASE,
  "    def __rsub__(self, other: Tensor | npt.ArrayLike) -> Tensor:\n        return -self + other",
  "    def __rsub__(self, other: Tensor | npt.ArrayLike) -> Tensor:\n        return other + (-self)", "silent")
V("__radd__ returns self - other", "C19", BASE,
  "    def __radd__(self, other: Tensor | npt.ArrayLike) -> Tensor:\n        return self + other",
  "    def __radd__(self, other: Tensor | npt.ArrayLike) -> Tensor:\n        return self - other", "E2.S2", "Tensor.__radd__")
V("__rsub__ deleted", "C19", BASE,
  "    def __rsub__(self, other: Tensor | npt.ArrayLike) -> Tensor:\n        return -self + other\n",
  "", "E2.S3", "__rsub__")
V("alias subtract -> add", "C19", DISP, '"subtract": "sub"', '"subtract": "add"', "E3.T", "UFUNC_ALIASES", quick=True)
V("alias divide -> floordiv", "C19", DISP, '"divide": "truediv"', '"divide": "floordiv"', "E3.T", "UFUNC_ALIASES")
V("neg removed from unary set", "C19", DISP, 'UNARY_UFUNCS = {\n    "neg",', 'UNARY_UFUNCS = {', "E3.T", "UNARY_UFUNCS")
V("sub mapped to forward dunder in reversed table", "C19", DISP, '    "ne": "__ne__",\n}', '    "ne": "__ne__",\n    "sub": "__sub__",\n}', "E3.T", "REVERSED_NAMES")
V("dispatcher forward arm passes inputs[0]", "C19", DISP, "            return meth(inputs[1])", "            return meth(inputs[0])", "E3.F")
V("dispatcher reflected arm builds forward name", "C19", DISP, 'REVERSED_NAMES.get(op_name, f"__r{op_name}__")', 'REVERSED_NAMES.get(op_name, f"__{op_name}__")', "E3.F")
V("twin: reordered table entries, extra dead alias", "C19", DISP, '    "subtract": "sub",\n    "multiply": "mul",', '    "multiply": "mul",\n    "subtract": "sub",\n    "mod": "mod",', "silent")
V("D8 regression: absolute index set in __add__", "C19", BASE,
  "        return self._with_array(self.array + other)  # type: ignore[operator]",
  "        return Tensor(self.array + other, covariant=self._covariant_indices, copy=False)  # type: ignore[operator]", "E4.V1", "Tensor.__add__")
V("D8 variant: helper drops tensor_rank", "C19", BASE,
  "        return Tensor(array, covariant=covariant, tensor_rank=self.rank - n, copy=False)",
  "        return Tensor(array, covariant=self._covariant_indices, copy=False)", "E4.V1", "Tensor._with_array")
V("twin: helper renamed locals", "C19", BASE,
  "        n = self.free_indices\n        covariant = [i - n for i in self._covariant_indices]\n        return Tensor(array, covariant=covariant, tensor_rank=self.rank - n, copy=False)",
  "        k = self.free_indices\n        cov = [j - k for j in self._covariant_indices]\n        return Tensor(array, covariant=cov, tensor_rank=self.rank - k, copy=False)", "silent")

# ------------------------------------------------------------------------------------------------ C04
V("PlaneCollection._element_class = Line", "C04", POINT, "class PlaneCollection(PlaneTensor, SubspaceCollection[Plane]):\n    _element_class = Plane",
  "class PlaneCollection(PlaneTensor, SubspaceCollection[Plane]):\n    _element_class = Line", "E6.K1", "PlaneCollection", quick=True)
V("LineCollection._element_class removed", "C04", POINT, "class LineCollection(LineTensor, SubspaceCollection[Line]):\n    _element_class = Line",
  "class LineCollection(LineTensor, SubspaceCollection[Line]):\n    pass", "E6.K1", "LineCollection")
V("D9 regression: QuadricTensor.__getitem__ removed", "C04", CURVE,
  "    def __getitem__(self, index: TensorIndex) -> Tensor | np.generic:\n        result = super().__getitem__(index)\n\n        if not isinstance(result, Tensor) or result.tensor_shape != self.tensor_shape:\n            return result\n\n        return QuadricCollection.from_tensor(result, is_dual=self.is_dual)\n\n",
  "", "E6.K2", "QuadricCollection")
V("D9 variant: is_dual not passed on", "C04", CURVE, "        return QuadricCollection.from_tensor(result, is_dual=self.is_dual)",
  "        return QuadricCollection.from_tensor(result)", "E6.K2", "QuadricCollection")
V("LineTensor.__getitem__ re-wraps into PlaneCollection", "C04", POINT, "        return LineCollection.from_tensor(result)\n\n    def _matrix_transform",
  "        return PlaneCollection.from_tensor(result)\n\n    def _matrix_transform", "E6.K2", "LineCollection")
V("__iter__ yields raw rows", "C04", BASE, "            yield self[i]", "            yield self.array[i]", "E6.K2", "__iter__")
V("perpendicular: ~contains write deleted", "C04", POINT,
  "            if self.free_indices > 0:\n                result[~contains] = cast(LineTensor, self[~contains]).mirror(through).join(through)\n            else:\n                result[~contains] = self.mirror(through).join(through)",
  "            pass", "E6.K5", "LineTensor.perpendicular")
V("twin: np.empty -> np.zeros", "C04", POINT, "np.empty(contains.shape + (n,) * (n - 2), np.complex128)", "np.zeros(contains.shape + (n,) * (n - 2), np.complex128)", "silent")
V("_divide_by_power_of_two: imaginary part never written", "C04", POINT, "        np.ldexp(im, ie, out=out.imag)\n", "", "E6.K5", "_divide_by_power_of_two")

# ------------------------------------------------------------------------------------------------ C14
V("D14 regression: dual rebuilds with type(self)", "C14", CURVE,
  "        cls = type(self)\n        while cls.__init__ is not QuadricTensor.__init__:\n            # subclasses with specialised constructors (e.g. Circle, Sphere) have no dual of their own kind\n            cls = cls.__base__\n        return cls(",
  "        return type(self)(", "E6.K3", "QuadricTensor.dual", quick=True)
V("dual passes an unknown keyword", "C14", CURVE, "is_dual=not self.is_dual, copy=False)", "is_dual=not self.is_dual, dual=True, copy=False)", "E6.K3", "QuadricTensor.dual")

# ------------------------------------------------------------------------------------------------ C06
V("SegmentTensor.__apply__ keeps the old _line", "C06", SHAPES, "        result._line = transformation.apply(result._line)\n", "", "E6.K4", "Segment", quick=True)
V("PolygonTensor.__apply__ removed", "C06", SHAPES,
  "    def __apply__(self, transformation: TransformationTensor) -> PolygonTensor:\n        result = super().__apply__(transformation)\n        if result.dim > 2:\n            result._plane = join(*result.vertices[: result.dim])\n        return result\n\n",
  "", "E6.K4", "Polygon")
V("Tensor.__apply__ returns the receiver", "C06", BASE, "        result.array = diagram.calculate().array\n        return result", "        self.array = diagram.calculate().array\n        return self", "E6.K4", "Tensor.__apply__")
V("twin: __apply__ local renamed", "C06", SHAPES, "        result = super().__apply__(transformation)\n        result._line = transformation.apply(result._line)\n        return result",
  "        moved = super().__apply__(transformation)\n        moved._line = transformation.apply(moved._line)\n        return moved", "silent")

# ------------------------------------------------------------------------------------------------ C09 (dispatch)
V("D15 regression: unguarded p == q", "C09", OPS, "    if (isinstance(p, type(q)) or isinstance(q, type(p))) and p == q:", "    if p == q:", "E9.5", "dist", quick=True)
V("D16 regression: (subspace, plane) swap", "C09", OPS, "    if isinstance(p, LineTensor) and isinstance(q, PlaneTensor):\n        return dist(q, p)",
  "    if isinstance(p, SubspaceTensor) and isinstance(q, PlaneTensor):\n        return dist(q, p)", "E9.1", "dist")
V("segment branch deleted", "C09", OPS, "    if isinstance(p, PointTensor) and isinstance(q, SegmentTensor):\n        return dist(q, p)\n", "", "E9.3", "dist")
V("point-plane reduces to itself", "C09", OPS, "        return dist(q.project(p), p)", "        return dist(q, p.join(q.project(p)).meet(q))", "E9.3")
V("twin: non-overlapping branches reordered", "C09", OPS,
  "    if isinstance(p, PointTensor) and isinstance(q, PolygonTensor):\n        return dist(q, p)\n",
  "", "silent", extra=[(OPS, "    if isinstance(p, PointTensor) and isinstance(q, Polyhedron):\n        return dist(q, p)\n",
                      "    if isinstance(p, PointTensor) and isinstance(q, Polyhedron):\n        return dist(q, p)\n    if isinstance(p, PointTensor) and isinstance(q, PolygonTensor):\n        return dist(q, p)\n")])

# ------------------------------------------------------------------------------------------------ C18
V("D10 regression: implied guard", "C18", SHAPES, "                if isinstance(other, SegmentCollection):\n                    other = cast(SegmentTensor, other[~e.dependent_values])",
  "                if isinstance(other, SegmentTensor):\n                    other = cast(SegmentTensor, other[~e.dependent_values])", "E10.F2", "PolygonTensor.intersect", quick=True)
V("segment filter drops other.contains", "C18", SHAPES, "            ind = ~result.is_zero() & self.contains(result) & other.contains(result)", "            ind = ~result.is_zero() & self.contains(result)", "E10.F1", "SegmentTensor.intersect")
V("polygon/segment else-branch drops other.contains", "C18", SHAPES, "                return list(result[self.contains(result) & other.contains(result)])", "                return list(result[self.contains(result)])", "E10.F1", "PolygonTensor.intersect")
V("segment filter drops ~is_zero", "C18", SHAPES, "            ind = ~result.is_zero() & self.contains(result)\n", "            ind = self.contains(result)\n", "E10.F4", "SegmentTensor.intersect")
V("Polyhedron.intersect without distinct", "C18", SHAPES, "        return list(distinct(self.faces.intersect(other)))", "        return list(self.faces.intersect(other))", "E10.F3", "Polyhedron.intersect")
V("handler meets the unmasked plane", "C18", SHAPES, "            result = cast(PlaneTensor, self._plane[~e.dependent_values]).meet(other)\n", "            result = self._plane.meet(other)\n", "E10.F2", "PolygonTensor.intersect")
V("twin: filter computed into a local first", "C18", SHAPES, "            return list(result[self.contains(result)])\n\n    def _normalized_projection",
  "            keep = self.contains(result)\n            return list(result[keep])\n\n    def _normalized_projection", "silent")

# ------------------------------------------------------------------------------------------------ C02
V("NotCoplanar branch deleted", "C02", POINT,
  "            elif intersect_lines or n == 4:\n                # can't intersect lines that are not coplanar and can't join skew lines in 3D\n                raise NotCoplanar(\"The given lines are not all coplanar.\")\n            elif",
  "            elif", "E7.a", "NotCoplanar", quick=True)
V("LinearDependenceError -> ValueError", "C02", POINT,
  '            raise LinearDependenceError("Arguments are not linearly independent.")\n        elif np.any(is_zero):\n            raise LinearDependenceError("Some arguments are not linearly independent.", is_zero)',
  '            raise ValueError("Arguments are not linearly independent.")\n        elif np.any(is_zero):\n            raise ValueError("Some arguments are not linearly independent.")', "E7.a", "LinearDependenceError")
V("normalisation moved before the dependence test", "C02", POINT,
  "    if check_dependence:\n        is_zero = result.is_zero()",
  "    if normalize_result:\n        result.array = result.array / np.max(np.abs(result.array))\n\n    if check_dependence:\n        is_zero = result.is_zero()", "E7.b", "_join_meet_duality")
V("mask argument dropped", "C02", POINT, 'raise LinearDependenceError("Some arguments are not linearly independent.", is_zero)', 'raise LinearDependenceError("Some arguments are not linearly independent.")', "E7.c", "_join_meet_duality")
V("mask argument inverted", "C02", POINT, 'raise LinearDependenceError("Some arguments are not linearly independent.", is_zero)', 'raise LinearDependenceError("Some arguments are not linearly independent.", ~is_zero)', "E7.c", "_join_meet_duality")
V("join swallows geometry errors", "C02", POINT,
  "    return _join_meet_duality(\n        *args, intersect_lines=False, check_dependence=_check_dependence, normalize_result=_normalize_result\n    )",
  "    try:\n        return _join_meet_duality(\n            *args, intersect_lines=False, check_dependence=_check_dependence, normalize_result=_normalize_result\n        )\n    except GeometryException:\n        return args[0]", "E7.d", "LinearDependenceError")
V("twin: message text changed", "C02", POINT, '"Arguments are not linearly independent."', '"The arguments are linearly dependent."', "silent")

# ------------------------------------------------------------------------------------------------ C11 (guards)
V("NotCollinear -> ValueError", "C11", OPS, '            raise NotCollinear("The points are not collinear: " + str([a, b, c, d]))', '            raise ValueError("The points are not collinear: " + str([a, b, c, d]))', "E7.a", "NotCollinear", quick=True)
V("concurrency guard ignores d", "C11", OPS, "        if not np.all(is_concurrent(a, b, c, d)):", "        if not np.all(is_concurrent(a, b, c)):", "E7.c2", "crossratio")
V("twin: guard message changed", "C11", OPS, '"The lines are not concurrent: "', '"Lines not concurrent: "', "silent")

# ------------------------------------------------------------------------------------------------ C07
V("SubspaceTensor defaults to covariant", "C07", POINT, '        kwargs.setdefault("covariant", False)\n        super().__init__(*args, tensor_rank=tensor_rank, **kwargs)', '        kwargs.setdefault("covariant", True)\n        super().__init__(*args, tensor_rank=tensor_rank, **kwargs)', "E4.V2", "Plane", quick=True)
V("quadric duality flag inverted in the constructor", "C07", CURVE, "        if not is_dual:\n            kwargs.setdefault(\"covariant\", False)", "        if is_dual:\n            kwargs.setdefault(\"covariant\", False)", "E4.V2", "Quadric")
V("contravariant edges fed with the matrix itself", "C07", BASE, "            inv = transformation.inverse()\n            edges.extend((inv.copy(), self) for _ in range(ts[1]))", "            inv = transformation\n            edges.extend((inv.copy(), self) for _ in range(ts[1]))", "E4.V3", "Tensor.__apply__")
V("covariant edges fed with the inverse", "C07", BASE, "[(self, transformation.copy()) for _ in range(ts[0])]", "[(self, transformation.inverse()) for _ in range(ts[0])]", "E4.V3", "Tensor.__apply__")
V("edge counts swapped", "C07", BASE, "[(self, transformation.copy()) for _ in range(ts[0])]", "[(self, transformation.copy()) for _ in range(ts[1])]", "E4.V3", "Tensor.__apply__")
V("twin: inverse through the math helper", "C07", BASE, "            inv = transformation.inverse()\n", "            inv = type(transformation)(np.linalg.inv(transformation.array), copy=False)\n", "silent")

# ------------------------------------------------------------------------------------------------ C08
V("reflection: minus dropped", "C08", TRANS, "    return translation(x) * p * translation(-x)", "    return translation(x) * p * translation(x)", "E8", "reflection", quick=True)
V("RegularPolygon: minus dropped", "C08", SHAPES, "            t = translation(center) * t * translation(-center)", "            t = translation(center) * t * translation(center)", "E8", "RegularPolygon.__init__")
V("twin: X * M * X.inverse()", "C08", TRANS, "    return translation(x) * p * translation(-x)", "    t = translation(x)\n    return t * p * t.inverse()", "silent")

# ------------------------------------------------------------------------------------------------ C12 (E1)
V("rotation: in-place division on a view of the axis argument", "C12", TRANS, "    a = a / np.linalg.norm(a)\n", "    a /= np.linalg.norm(a)\n", "E1.mem", "rotation", quick=True)
V("reflection: in-place division on a view of the mirror", "C12", TRANS, "    v = v / np.linalg.norm(v)  # type: ignore[operator]", "    v /= np.linalg.norm(v)", "E1.mem", "reflection")
V("_normalize_array: astype(copy=False) then divide in place", "C12", POINT, "        result = array.astype(dtype)\n", "        result = array.astype(dtype, copy=False)\n", "E1.mem", "_normalize_array")
V("base_point writes into self.array", "C12", POINT,
  "        result = np.zeros_like(self.array)\n        result[z_zero, 2] = 1", "        result = self.array\n        result[z_zero, 2] = 1", "E1.mem", "LineTensor.base_point")
V("adjugate: basic instead of advanced indexing", "C12", MATH, "        result = A[..., [[1, 0], [1, 0]], [[1, 1], [0, 0]]]\n", "        result = A[..., ::-1, ::-1]\n", "E1.mem", "adjugate")
V("write through a cached epsilon tensor", "C12", TRANS, "    e = LeviCivitaTensor(dimension, False)\n", "    e = LeviCivitaTensor(dimension, False)\n    e.array *= 1\n", "E1.mem", "rotation")
V("write into the module constant I", "C12", POINT, "        l1 = join(I, pt, _normalize_result=False)\n", "        I.array[2] = 0\n        l1 = join(I, pt, _normalize_result=False)\n", "E1.mem", "LineTensor.mirror")
V("write through the return value of infty_hyperplane", "C12", POINT, "        x = self.meet(infty_hyperplane(self.dim))\n        return join(x, through)",
  "        h = infty_hyperplane(self.dim)\n        h.array[-1] = 1\n        x = self.meet(h)\n        return join(x, through)", "E1.mem", "SubspaceTensor.parallel")
V("out= aimed at the argument", "C12", POINT, "        return PointCollection.from_array(matvec(m, self.array))", "        return PointCollection.from_array(matvec(m, self.array, out=self.array))", "E1.mem", "PointTensor._matrix_transform")
V("in-place update of the cached plane's array", "C12", SHAPES, "            coplanar = self._plane.contains(other)\n", "            self._plane.array[...] += 0\n            coplanar = self._plane.contains(other)\n", "E1.mem", "PolygonTensor.contains")
V("D3 regression: projection writes into the cached planes", "C12", SHAPES, "                e = type(e)(e)\n", "", "E1.mem", "PolygonTensor._normalized_projection")
V("Sphere: negate the center's coordinates in place", "C12", CURVE, "        c = -center.normalized_array\n        m = np.eye(center.shape[0]", "        c = center.normalized_array\n        c *= -1\n        m = np.eye(center.shape[0]", "E1.mem", "Sphere.__init__")
V("__apply__ rebinds the array of the receiver", "C12", BASE, "        result = self.copy()\n        result.array = diagram.calculate().array\n        return result", "        self.array = diagram.calculate().array\n        return self", "E1.attr", "Tensor.__apply__")
V("module-level memo dict filled by det", "C12", MATH, "def det(A: npt.ArrayLike) -> npt.NDArray[np.number]:", "_SEEN: dict = {}\n\n\ndef det(A: npt.ArrayLike) -> npt.NDArray[np.number]:", "E1.cont", "det",
  extra=[(MATH, "    A = np.asarray(A)\n    _assert_square_matrix(A)\n    n = A.shape[-1]\n\n    if n == 2:\n        return A[..., 0, 0] * A[..., 1, 1]",
          "    A = np.asarray(A)\n    _assert_square_matrix(A)\n    n = A.shape[-1]\n    _SEEN[n] = A\n\n    if n == 2:\n        return A[..., 0, 0] * A[..., 1, 1]")])
V("cached epsilon depends on a parameter outside the key", "C12", BASE, "            array[tuple(indices)] = np.prod(diff, axis=0)\n", "            array[tuple(indices)] = np.prod(diff, axis=0) * (1 if covariant else -1)\n", "E1.cache", "LeviCivitaTensor.__init__")
V("cached array written after it was stored", "C12", BASE, "            self._cache[size] = array\n", "            self._cache[size] = array\n            array *= 1\n", "E1.mem", "LeviCivitaTensor.__init__")
V("contains: direction buffer aliased to the query point", "C12", SHAPES, "            direction = np.zeros_like(other.array)\n", "            direction = other.array\n", "E1.mem", "PolygonTensor.contains")
V("global counter", "C12", OPS, "def is_coplanar(*args: PointTensor | LineTensor, tol: float = EQ_TOL_ABS) -> npt.NDArray[np.bool_]:",
  "_CALLS = 0\n\n\ndef is_coplanar(*args: PointTensor | LineTensor, tol: float = EQ_TOL_ABS) -> npt.NDArray[np.bool_]:", "E1.global", "is_coplanar",
  extra=[(OPS, "    n = args[0].dim + 1\n    result = np.isclose(det(", "    global _CALLS\n    _CALLS = _CALLS + 1\n    n = args[0].dim + 1\n    result = np.isclose(det(")])
V("twin: m += m.T rewritten as rebinding", "C12", CURVE, "        m = outer(e.array, f.array)\n        m += m.T", "        m = outer(e.array, f.array)\n        m = m + m.T", "silent")
V("twin: copy then write", "C12", POINT, "        result = np.zeros_like(self.array)\n        result[z_zero, 2] = 1", "        result = self.array.copy()\n        result[...] = 0\n        result[z_zero, 2] = 1", "silent")
V("twin: private fill helper called with a fresh buffer", "C12", SHAPES, "            direction[~ind, 0] = 1\n", "            _set_first(direction, ~ind)\n", "silent",
  extra=[(SHAPES, "class PolytopeTensor(PointLikeTensor, ABC):", "def _set_first(buf: np.ndarray, mask: np.ndarray) -> None:\n    buf[mask, 0] = 1\n\n\nclass PolytopeTensor(PointLikeTensor, ABC):")])
V("twin: write into a boolean-mask copy", "C12", POINT, "        return np.all(np.isreal(self.normalized_array), axis=-1)", "        t = self.array[self.isinf]\n        t[...] = 0\n        return np.all(np.isreal(self.normalized_array), axis=-1)", "silent")
V("twin: new private memo attribute", "C12", CURVE, "        c = self.array[:-1, -1] / self.array[0, 0]\n        return np.sqrt(c.dot(c) - self.array[-1, -1] / self.array[0, 0])",
  "        c = self.array[:-1, -1] / self.array[0, 0]\n        self._radius_memo = np.sqrt(c.dot(c) - self.array[-1, -1] / self.array[0, 0])\n        return self._radius_memo", "silent")
V("twin: in-place arithmetic on a fresh array in a new function", "C12", MATH, "def _assert_numerical_array(a: np.ndarray) -> None:",
  "def _scaled(a: np.ndarray) -> np.ndarray:\n    b = a * 2\n    b += 1\n    b[0] = 0\n    return b\n\n\ndef _assert_numerical_array(a: np.ndarray) -> None:", "silent")

# ------------------------------------------------------------------------------------------------ C05
V("first add_edge guard deleted", "C05", BASE, '        if len(free_source) == 0 or len(free_target) == 0:\n            raise TensorComputationError("Could not add the edge because no indices are left.")\n', "", "E7.b", "add_edge", quick=True,
  extra=[(BASE, "        if source.shape[i] != target.shape[j]:", "        if len(free_source) < 0 or source.shape[i] != target.shape[j]:")])
V("emptiness guard moved after the pops", "C05", BASE,
  '        if len(free_source) == 0 or len(free_target) == 0:\n            raise TensorComputationError("Could not add the edge because no indices are left.")\n\n        # Third step: Pick some free indices\n        i = free_source.pop(0)\n        j = free_target.pop(0)\n',
  '        # Third step: Pick some free indices\n        i = free_source.pop(0)\n        j = free_target.pop(0)\n\n        if len(free_source) == 0 or len(free_target) == 0:\n            raise TensorComputationError("Could not add the edge because no indices are left.")\n', "E7.b", "add_edge")
V("TensorComputationError -> IndexError", "C05", BASE, 'raise TensorComputationError("Could not add the edge because no indices are left.")', 'raise IndexError("Could not add the edge because no indices are left.")', "E7.a", "TensorComputationError",
  extra=[(BASE, "            raise TensorComputationError(\n                f\"Dimension of tensors is inconsistent", "            raise IndexError(\n                f\"Dimension of tensors is inconsistent")])
V("Kronecker delta built in place from the cached epsilon", "C05", BASE, "            array = np.tensordot(e.array, e.array, 0)  # type: ignore[arg-type]\n", "            e.array *= 1\n            array = np.tensordot(e.array, e.array, 0)  # type: ignore[arg-type]\n", "E1.mem", "KroneckerDelta.__init__")
V("cache key widened silently", "C05", BASE, "            array[tuple(indices)] = np.prod(diff, axis=0)\n", "            array[tuple(indices)] = np.prod(diff, axis=0) * (1 if covariant else -1)\n", "E1.cache", "LeviCivitaTensor.__init__")
V("twin: cache fill with renamed local", "C05", BASE, "            array = np.zeros(size * [size], dtype=np.int8)\n            array[tuple(indices)] = np.prod(diff, axis=0)\n\n            self._cache[size] = array",
  "            eps = np.zeros(size * [size], dtype=np.int8)\n            eps[tuple(indices)] = np.prod(diff, axis=0)\n            array = eps\n\n            self._cache[size] = array", "silent")

# ------------------------------------------------------------------------------------------------ E5: C03
V("D6 regression: Triangle.contains on raw coordinates", "C03", SHAPES, "np.broadcast_arrays(*self.normalized_array, other.normalized_array)", "np.broadcast_arrays(*self.array, other.array)", "E5.order", "Triangle.contains", quick=True)
V("D11 regression: raw y comparison of edge endpoints", "C03", SHAPES, "        v1 = edges.normalized_array[..., 0, :]\n        v2 = edges.normalized_array[..., 1, :]", "        v1 = edges.array[..., 0, :]\n        v2 = edges.array[..., 1, :]", "E5.order", "PolygonTensor.contains")
V("Triangle.contains: only the query point is raw", "C03", SHAPES, "np.broadcast_arrays(*self.normalized_array, other.normalized_array)", "np.broadcast_arrays(*self.normalized_array, other.array)", "E5.order", "Triangle.contains")
V("segment membership: interval test on a linear quantity", "C03", SHAPES, "        x = z_r * w_r + z_i * w_i\n", "        x = z_r + z_i\n", "E5.order", "SegmentTensor.contains")
V("_point_dist: one bracket dropped from the denominator", "C03", OPS, "        return 4 * np.abs(np.sqrt(pqi * pqj) / (pij * qij))", "        return 4 * np.abs(np.sqrt(pqi * pqj) / pij)", "E5.ret", "_point_dist")
V("Simplex.volume without normalisation", "C03", SHAPES, "        points = self._normalize_array(points)\n        n, k = points.shape", "        n, k = points.shape", "E5.ret", "Simplex.volume")
V("Sphere.radius without the division by the leading entry", "C03", CURVE, "        c = self.array[:-1, -1] / self.array[0, 0]\n        return np.sqrt(c.dot(c) - self.array[-1, -1] / self.array[0, 0])", "        c = self.array[:-1, -1]\n        return np.sqrt(c.dot(c) - self.array[-1, -1])", "E5.ret", "Sphere.radius")
V("isinf compares the raw last coordinate with 1", "C03", POINT, "        return np.isclose(self.array[..., -1], 0, atol=EQ_TOL_ABS)\n\n    @property\n    def isreal", "        return ~np.isclose(self.array[..., -1], 1, atol=EQ_TOL_ABS)\n\n    @property\n    def isreal", "E5.eq", "PointTensor.isinf")
V("projective == replaced by coordinate equality", "C03", BASE, "            is_multi = is_multiple(self.array, other.array, axis=axes, rtol=EQ_TOL_REL, atol=EQ_TOL_ABS)\n            return bool(np.all(is_multi))", "            return bool(np.allclose(self.array, other.array, rtol=EQ_TOL_REL, atol=EQ_TOL_ABS))", "E5.eqdunder", "Point")
V("twin: manual normalisation", "C03", SHAPES, "np.broadcast_arrays(*self.normalized_array, other.normalized_array)", "np.broadcast_arrays(*self._normalize_array(self.array), other._normalize_array(other.array))", "silent")
V("twin: bracket extracted into a helper", "C03", OPS, "    pqi = det(np.stack([p, q, i], axis=-2))\n", "    pqi = _bracket(p, q, i)\n", "silent",
  extra=[(OPS, "def _point_dist(p: PointTensor, q: PointTensor) -> npt.NDArray[np.float64]:", "def _bracket(a: np.ndarray, b: np.ndarray, c: np.ndarray) -> np.ndarray:\n    return det(np.stack([a, b, c], axis=-2))\n\n\ndef _point_dist(p: PointTensor, q: PointTensor) -> npt.NDArray[np.float64]:")])
V("twin: renamed locals in the segment test", "C03", SHAPES, "        x = z_r * w_r + z_i * w_i\n        y = w_r**2 + w_i**2\n        x_zero = np.isclose(x, 0, atol=EQ_TOL_ABS)\n        y_zero = np.isclose(y, 0, atol=EQ_TOL_ABS)\n        return result & (~x_zero | ~y_zero) & (0 <= x + tol) & (x <= y + tol)",
  "        num = z_r * w_r + z_i * w_i\n        den = w_r**2 + w_i**2\n        num_zero = np.isclose(num, 0, atol=EQ_TOL_ABS)\n        den_zero = np.isclose(den, 0, atol=EQ_TOL_ABS)\n        return result & (~num_zero | ~den_zero) & (0 <= num + tol) & (num <= den + tol)", "silent")

# ------------------------------------------------------------------------------------------------ E5: C17
V("D5 regression: center as a sum", "C17", SHAPES, "        return Point(*np.mean(self.normalized_array[:, :-1], axis=0))", "        return Point(*np.sum(self.normalized_array[:, :-1], axis=0))", "E5.affine", "RegularPolygon.center", quick=True)
V("centroid: triangle centroids as sums", "C17", SHAPES, "np.average(points[[0, i, i + 1], :-1], axis=0) for i in", "np.sum(points[[0, i, i + 1], :-1], axis=0) for i in", "E5.affine", "Polygon.centroid")
V("area from raw projected coordinates", "C17", SHAPES, "        return self._normalize_array(points)\n\n    @property\n    def area", "        return points\n\n    @property\n    def area", "missed")
V("Simplex.volume without normalisation (C17)", "C17", SHAPES, "        points = self._normalize_array(points)\n        n, k = points.shape", "        n, k = points.shape", "E5.ret", "Simplex.volume")
V("twin: mean written as sum / N", "C17", SHAPES, "        return Point(*np.mean(self.normalized_array[:, :-1], axis=0))", "        return Point(*np.average(self.normalized_array[:, :-1], axis=0))", "silent")

# ------------------------------------------------------------------------------------------------ E5: C09 / C11
V("_point_dist unbalanced (C09)", "C09", OPS, "        return 4 * np.abs(np.sqrt(pqi * pqj) / (pij * qij))", "        return 4 * np.abs(np.sqrt(pqi * pqj) / (pij * pij))", "E5.ret", "_point_dist")
V("_point_dist without abs (C09)", "C09", OPS, "        return 4 * np.abs(np.sqrt(pqi * pqj) / (pij * qij))", "        return 4 * np.real(np.sqrt(pqi * pqj) / (pij * qij))", "E5.ret", "_point_dist")
V("crossratio with an unbalanced bracket monomial", "C11", OPS, "        return ac * bd / (ad * bc)", "        return ac * bd / (ad * bd)", "E5.ret", "crossratio")
V("crossratio drops a bracket", "C11", OPS, "        return ac * bd / (ad * bc)", "        return ac * bd / ad", "E5.ret", "crossratio")
V("twin: crossratio quotient regrouped", "C11", OPS, "        return ac * bd / (ad * bc)", "        return (ac / ad) * (bd / bc)", "silent")

# ------------------------------------------------------------------------------------------------ C04 element class (K2e)
V("D18/D19 regression: Tensor arguments skip constructor validation", "C04", BASE, "                self._contravariant_indices = args[0]._contravariant_indices\n                self._validate_tensor()\n                return",
  "                self._contravariant_indices = args[0]._contravariant_indices\n                return", "E6.K2e", "PointCollection")
V("from_tensor without the shape fall-back", "C04", BASE, "            try:\n                return cls(tensor, **kwargs)\n            except IncompatibleShapeError:\n                pass\n        return cls._element_class(tensor, **kwargs)",
  "            return cls(tensor, **kwargs)\n        return cls._element_class(tensor, **kwargs)", "E6.K2e", "SegmentCollection")

# ------------------------------------------------------------------------------------------------ memoised derived values (K4) - found by seeding
V("dual memoised with cached_property", "C06", CURVE, "    @property\n    def dual(self) -> QuadricTensor:", "    @cached_property\n    def dual(self) -> QuadricTensor:", "E6.K4", "dual",
  extra=[(CURVE, "from abc import ABC\n", "from abc import ABC\nfrom functools import cached_property\n")])
V("dual memoised with cached_property (C07)", "C07", CURVE, "    @property\n    def dual(self) -> QuadricTensor:", "    @cached_property\n    def dual(self) -> QuadricTensor:", "E6.K4", "dual",
  extra=[(CURVE, "from abc import ABC\n", "from abc import ABC\nfrom functools import cached_property\n")])
V("radius memoised on the instance by hand", "C06", CURVE, "        c = self.array[:-1, -1] / self.array[0, 0]\n        return np.sqrt(c.dot(c) - self.array[-1, -1] / self.array[0, 0])",
  "        c = self.array[:-1, -1] / self.array[0, 0]\n        self._radius_memo = np.sqrt(c.dot(c) - self.array[-1, -1] / self.array[0, 0])\n        return self._radius_memo", "E6.K4", "_radius_memo")
INV_OLD = "        return type(self)(inv(self.array), copy=False)\n\n\nclass Transformation(TransformationTensor, BoundTensor):"
INV_MEMO = ("        if self._inverse is None:\n            self._inverse = type(self)(inv(self.array), copy=False)\n        return self._inverse\n\n\n"
            "class Transformation(TransformationTensor, BoundTensor):")
INV_ATTR = ("    def __init__(self, *args: Tensor | npt.ArrayLike, **kwargs: Unpack[NDArrayParameters]) -> None:\n        kwargs.setdefault(\"covariant\", [0])\n        super().__init__(*args, tensor_rank=2, **kwargs)",
            "    _inverse: TransformationTensor | None = None\n\n    def __init__(self, *args: Tensor | npt.ArrayLike, **kwargs: Unpack[NDArrayParameters]) -> None:\n        kwargs.setdefault(\"covariant\", [0])\n        super().__init__(*args, tensor_rank=2, **kwargs)")
for _p in ("C06", "C07"):
    V(f"inverse() memoised on the transformation, never reset ({_p})", _p, TRANS, INV_OLD, INV_MEMO, "E6.K4m", "__setitem__", extra=[(TRANS, *INV_ATTR)])
    V(f"twin: inverse() memoised and reset by __setitem__/expand_dims ({_p})", _p, TRANS, INV_OLD, INV_MEMO, "silent", extra=[
        (TRANS, *INV_ATTR),
        (BASE, "            value = value.array\n        self.array[key] = value\n", "            value = value.array\n        self.array[key] = value\n        self.__dict__.pop(\"_inverse\", None)\n"),
        (BASE, "        result.array = np.expand_dims(self.array, axis)\n", "        result.array = np.expand_dims(self.array, axis)\n        result.__dict__.pop(\"_inverse\", None)\n")])
V("twin: Tensor.__init__ split into construction helpers that assign the index sets", "C06", BASE,
  "                self.array = np.array(args[0].array, **kwargs)  # type: ignore[call-overload]\n                self._covariant_indices = args[0]._covariant_indices\n                self._contravariant_indices = args[0]._contravariant_indices\n",
  "                self.array = np.array(args[0].array, **kwargs)  # type: ignore[call-overload]\n                self._init_index_types_from(args[0])\n", "silent",
  extra=[(BASE, "    def __apply__(self, transformation: TransformationTensor) -> Self:\n        ts = self.tensor_shape",
          "    def _init_index_types_from(self, other: Tensor) -> None:\n        self._covariant_indices = other._covariant_indices\n        self._contravariant_indices = other._contravariant_indices\n\n"
          "    def __apply__(self, transformation: TransformationTensor) -> Self:\n        ts = self.tensor_shape")])
ADD_OLD = "        if isinstance(other, Tensor):\n            other = other.array\n        return self._with_array(self.array + other)  # type: ignore[operator]"
V("Tensor.__add__ no longer unwraps a Tensor operand", "C19", BASE, ADD_OLD, "        return self._with_array(self.array + other)  # type: ignore[operator]", "E2.S4", "Tensor.__add__")
V("twin: Tensor.__add__ unwraps through a helper / conditional expression", "C19", BASE, ADD_OLD,
  "        other = other.array if isinstance(other, Tensor) else np.asarray(other)\n        return self._with_array(self.array + other)  # type: ignore[operator]", "silent")
V("twin: Tensor.__add__ with the branches written out", "C19", BASE, ADD_OLD,
  "        if isinstance(other, Tensor):\n            return self._with_array(self.array + other.array)\n        else:\n            return self._with_array(self.array + other)  # type: ignore[operator]", "silent")
V("Tensor.__add__ unwraps only collections", "C19", BASE, ADD_OLD,
  "        if isinstance(other, TensorCollection):\n            other = other.array\n        return self._with_array(self.array + other)  # type: ignore[operator]", "E2.S4", "Tensor.__add__")
LRU = [(TRANS, "from typing import TYPE_CHECKING", "from functools import lru_cache\nfrom typing import TYPE_CHECKING"),
       (TRANS, "def identity(dim: int, collection_dims: tuple[int, ...] | None = None) -> TransformationTensor:\n    \"\"\"",
        "@lru_cache(maxsize=None)\ndef identity(dim: int, collection_dims: tuple[int, ...] | None = None) -> TransformationTensor:\n    \"\"\"")]
SCAL_OLD = "    return affine_transform(np.diag(factors))  # type: ignore[arg-type]"
for _p in ("C08", "C12"):
    V(f"identity() memoised, scaling() fills its diagonal in place ({_p})", _p, TRANS, SCAL_OLD,
      "    result = identity(len(factors))\n    np.fill_diagonal(result.array[:-1, :-1], factors)\n    return result", "E1.mem", "scaling", extra=LRU)
    V(f"identity() memoised, scaling() edits a shallow copy of it ({_p})", _p, TRANS, SCAL_OLD,
      "    result = identity(len(factors)).copy()\n    np.fill_diagonal(result.array[:-1, :-1], factors)\n    return result", "E1.mem", "scaling", extra=LRU)
    V(f"twin: identity() memoised, scaling() edits a deep copy ({_p})", _p, TRANS, SCAL_OLD,
      "    result = Transformation(identity(len(factors)))\n    np.fill_diagonal(result.array[:-1, :-1], factors)\n    return result", "silent", extra=LRU)
# ------------------------------------------------------------------------------------------------ E5 mixed arrays - found by seeding
V("translation reads the raw offset", "C03", TRANS, "    return affine_transform(offset=offset.normalized_array[:-1])", "    return affine_transform(offset=offset.array[:-1])", "E5.object", "affine_transform")
V("from_tangent combines raw meet results", "C03", CURVE, "        a1, a2 = Line(a, c).meet(tangent).normalized_array, Line(b, d).meet(tangent).normalized_array\n        b1, b2 = Line(a, b).meet(tangent).normalized_array, Line(c, d).meet(tangent).normalized_array",
  "        a1, a2 = Line(a, c).meet(tangent).array, Line(b, d).meet(tangent).array\n        b1, b2 = Line(a, b).meet(tangent).array, Line(c, d).meet(tangent).array", "E5.object", "Conic.from_tangent")

# ------------------------------------------------------------------------------------------------ rules added after seeding
V("transpose: index sets through the inverse permutation", "C19", BASE,
  "        result = Tensor(self.array.transpose(perm), copy=False)\n        result._covariant_indices = set(covariant_indices)\n        result._contravariant_indices = set(contravariant_indices)",
  "        result = Tensor(self.array.transpose(perm), copy=False)\n        result._covariant_indices = {perm[i] for i in self._covariant_indices}\n        result._contravariant_indices = {perm[i] for i in self._contravariant_indices}",
  "E4.V4", "Tensor.transpose")
V("transpose loop: test and target swapped", "C19", BASE, "            if j in self._covariant_indices:\n                covariant_indices.append(i)", "            if i in self._covariant_indices:\n                covariant_indices.append(j)", "E4.V4", "Tensor.transpose")
V("twin: transpose index sets as comprehensions", "C19", BASE,
  "        result._covariant_indices = set(covariant_indices)\n        result._contravariant_indices = set(contravariant_indices)",
  "        result._covariant_indices = {i for i, j in enumerate(perm) if j in self._covariant_indices}\n        result._contravariant_indices = {i for i, j in enumerate(perm) if j in self._contravariant_indices}", "silent")
V("Kronecker cache filled under a swapped key", "C05", BASE, "            array = np.fromfunction(f, tuple(2 * p * [n]), dtype=int)\n", "            array = np.fromfunction(f, tuple(2 * p * [n]), dtype=int)\n            self._cache[(n, p)] = array\n", "E1.cache", "KroneckerDelta.__init__")
V("twin: Kronecker general case cached under the same key", "C05", BASE, "            array = np.fromfunction(f, tuple(2 * p * [n]), dtype=int)\n", "            array = np.fromfunction(f, tuple(2 * p * [n]), dtype=int)\n            self._cache[(p, n)] = array\n", "silent")
V("NotReducible raised only when no member is reducible", "C14", CURVE, "if self.dim > 2 and not np.all(is_multiple(", "if self.dim > 2 and not np.any(is_multiple(", "E7.q", "QuadricTensor.components")
V("NotConcurrent raised only when no quadruple is concurrent", "C11", OPS, "        if not np.all(is_concurrent(a, b, c, d)):", "        if not np.any(is_concurrent(a, b, c, d)):", "E7.q", "crossratio")
V("normalisation fast path with any()", "C04", POINT, "        if np.all(isinf | (z == 1)):\n            return array", "        if np.any(isinf | (z == 1)):\n            return array", "E6.K6", "_normalize_array")

# ------------------------------------------------------------------------------------------------ rules added after seeding round 2
V("polygon __apply__ recomputes the plane from the untransformed vertices", "C06", SHAPES, "            result._plane = join(*result.vertices[: result.dim])", "            result._plane = join(*self.vertices[: result.dim])", "E6.K4", "Polygon")
V("_with_array copies absolute index positions", "C19", BASE,
  "        n = self.free_indices\n        covariant = [i - n for i in self._covariant_indices]\n        return Tensor(array, covariant=covariant, tensor_rank=self.rank - n, copy=False)",
  "        result = Tensor(array, copy=False)\n        result._covariant_indices = set(self._covariant_indices)\n        result._contravariant_indices = set(self._contravariant_indices)\n        return result", "E4.V1b", "Tensor._with_array")
V("twin: transpose keeps assigning both index sets explicitly", "C19", BASE, "        result._covariant_indices = set(covariant_indices)", "        result._covariant_indices = frozenset(covariant_indices) | set()", "silent")
V("affine_transform takes the dtype from the matrix only", "C08", TRANS, "        dtype = np.promote_types(dtype, matrix.dtype)", "        dtype = matrix.dtype", "E6.K7", "affine_transform")
V("D20 regression: scalar offset ignored for the dtype", "C08", TRANS, "    else:\n        dtype = np.result_type(offset)\n", "", "E6.K7", "affine_transform")
V("twin: dtype computed in one expression", "C08", TRANS, "    result = np.eye(n, dtype=dtype)\n", "    result = np.eye(n, dtype=np.promote_types(dtype, np.result_type(offset)))\n", "silent")
V("Sphere matrix dtype ignores the radius", "C08", CURVE, "m = np.eye(center.shape[0], dtype=np.promote_types(c.dtype, type(radius)))", "m = np.eye(center.shape[0], dtype=c.dtype)", "E6.K7", "Sphere.__init__")
# E5: inhomogeneous combinations of raw vertices reaching a point constructor
V("center from raw vertex coordinates", "C17", SHAPES, "        return Point(*np.mean(self.normalized_array[:, :-1], axis=0))", "        return Point(*np.mean(self.array[:, :-1], axis=0))", "E5.affine", "RegularPolygon.center")
V("centroid from raw vertex coordinates", "C17", SHAPES, "        points = self.normalized_array\n        centroids", "        points = self.array\n        centroids", "E5.affine", "Polygon.centroid")
V("point scaling on raw coordinates", "C03", POINT, "        result = self.normalized_array[..., :-1] * other\n", "        result = self.array[..., :-1] * other\n", "E5.object", "PointLikeTensor.__mul__")
V("Sphere built from the raw centre", "C03", CURVE, "        c = -center.normalized_array\n        m = np.eye(center.shape[0]", "        c = -center.array\n        m = np.eye(center.shape[0]", "E5.object", "Sphere.__init__")
V("ufunc.at on a view of the argument", "C12", MATH, "    A = np.asarray(A)\n    _assert_square_matrix(A)\n    n = A.shape[-1]\n\n    if n == 2:\n        return A[..., 0, 0] * A[..., 1, 1]",
  "    A = np.asarray(A)\n    _assert_square_matrix(A)\n    n = A.shape[-1]\n    np.negative.at(A, ())\n\n    if n == 2:\n        return A[..., 0, 0] * A[..., 1, 1]", "E1.mem", "det")

# ------------------------------------------------------------------------------------------------ round 3 (refactoring with a slip)
V("NotCoplanar guard through a flag computed with np.any", "C02", POINT,
  "            coplanar: npt.NDArray[np.bool_] = result.is_zero()\n\n            if np.all(coplanar):",
  "            coplanar: npt.NDArray[np.bool_] = result.is_zero()\n            some_coplanar = np.any(coplanar)\n            if not some_coplanar and (intersect_lines or n == 4):\n                raise NotCoplanar(\"The given lines are not all coplanar.\")\n\n            if np.all(coplanar):", "E7.q", "_join_meet_duality")
V("NotReducible guard as np.all over the negated predicate", "C14", CURVE,
  "        if self.dim > 2 and not np.all(is_multiple(outer(q, p), t, rtol=EQ_TOL_REL, atol=EQ_TOL_ABS, axis=(-2, -1))):",
  "        irreducible = ~is_multiple(outer(q, p), t, rtol=EQ_TOL_REL, atol=EQ_TOL_ABS, axis=(-2, -1))\n        if self.dim > 2 and np.all(irreducible):", "E7.q", "QuadricTensor.components")
V("twin: NotReducible guard as np.any over the negated predicate", "C14", CURVE,
  "        if self.dim > 2 and not np.all(is_multiple(outer(q, p), t, rtol=EQ_TOL_REL, atol=EQ_TOL_ABS, axis=(-2, -1))):",
  "        irreducible = ~is_multiple(outer(q, p), t, rtol=EQ_TOL_REL, atol=EQ_TOL_ABS, axis=(-2, -1))\n        if self.dim > 2 and np.any(irreducible):", "silent")
V("normalisation fast path as `not np.all(needs_scaling)`", "C04", POINT, "        if np.all(isinf | (z == 1)):\n            return array",
  "        needs_scaling = ~isinf & (z != 1)\n        if not np.all(needs_scaling):\n            return array", "E6.K6", "_normalize_array")
V("twin: normalisation fast path as `not np.any(needs_scaling)`", "C04", POINT, "        if np.all(isinf | (z == 1)):\n            return array",
  "        needs_scaling = ~isinf & (z != 1)\n        if not np.any(needs_scaling):\n            return array", "silent")
V("support of the moved polygon rebuilt from self in a hook", "C06", SHAPES,
  "        result = super().__apply__(transformation)\n        if result.dim > 2:\n            result._plane = join(*result.vertices[: result.dim])\n        return result",
  "        result = super().__apply__(transformation)\n        self._move_support(result, transformation)\n        return result\n\n    def _move_support(self, moved: PolygonTensor, transformation: TransformationTensor) -> None:\n        if moved.dim > 2:\n            moved._plane = join(*self.vertices[: moved.dim])",
  "E6.K4", "Polygon")
V("twin: support of the moved polygon rebuilt in a hook from the moved vertices", "C06", SHAPES,
  "        result = super().__apply__(transformation)\n        if result.dim > 2:\n            result._plane = join(*result.vertices[: result.dim])\n        return result",
  "        result = super().__apply__(transformation)\n        self._move_support(result, transformation)\n        return result\n\n    def _move_support(self, moved: PolygonTensor, transformation: TransformationTensor) -> None:\n        if moved.dim > 2:\n            moved._plane = join(*moved.vertices[: moved.dim])",
  "silent")
V("handler rebinds the segment to its supporting line before the membership filter", "C18", SHAPES,
  "                if isinstance(other, SegmentCollection):\n                    other = cast(SegmentTensor, other[~e.dependent_values])\n                result = cast(PlaneTensor, self._plane[~e.dependent_values]).meet(other._line)\n                return list(\n                    result[\n                        PolygonCollection.from_tensor(self[~e.dependent_values]).contains(result)\n                        & other.contains(result)\n                    ]\n                )",
  "                if isinstance(other, SegmentCollection):\n                    other = cast(SegmentTensor, other[~e.dependent_values])\n                other = other._line\n                result = cast(PlaneTensor, self._plane[~e.dependent_values]).meet(other)\n                keep = PolygonCollection.from_tensor(self[~e.dependent_values]).contains(result)\n                if isinstance(other, SegmentTensor):\n                    keep = keep & other.contains(result)\n                return list(result[keep])",
  "E10.F1", "PolygonTensor.intersect")
V("twin: mask alias and incremental filter in the handler", "C18", SHAPES,
  "                if isinstance(other, SegmentCollection):\n                    other = cast(SegmentTensor, other[~e.dependent_values])\n                result = cast(PlaneTensor, self._plane[~e.dependent_values]).meet(other._line)\n                return list(\n                    result[\n                        PolygonCollection.from_tensor(self[~e.dependent_values]).contains(result)\n                        & other.contains(result)\n                    ]\n                )",
  "                independent = ~e.dependent_values\n                if isinstance(other, SegmentCollection):\n                    other = cast(SegmentTensor, other[independent])\n                plane = cast(PlaneTensor, self._plane[independent])\n                result = plane.meet(other._line)\n                keep = PolygonCollection.from_tensor(self[independent]).contains(result)\n                keep = keep & other.contains(result)\n                return list(result[keep])",
  "silent")

# ------------------------------------------------------------------------------------------------ twins for MRO / absence based rules
V("twin: __radd__ bound by a class-body alias", "C19", BASE, "    def __radd__(self, other: Tensor | npt.ArrayLike) -> Tensor:\n        return self + other\n", "    __radd__ = __add__\n", "silent")
V("twin: element class inherited from an intermediate base", "C04", POINT, "class PointCollection(PointTensor, TensorCollection[Point]):\n    _element_class = Point",
  "class _PointCollectionBase(PointTensor, TensorCollection[Point], ABC):\n    _element_class = Point\n\n\nclass PointCollection(_PointCollectionBase):\n    pass", "silent")
V("twin: supporting line refreshed by a method called on the result", "C06", SHAPES, "        result = super().__apply__(transformation)\n        result._line = transformation.apply(result._line)\n        return result",
  "        result = super().__apply__(transformation)\n        result._refresh_line()\n        return result\n\n    def _refresh_line(self) -> None:\n        self._line = join(*self.vertices)", "silent")


# ------------------------------------------------------------------------------------------------ C16 membership (E11)
TRI_NEW = "        result = ((lambda1 <= 0) & (lambda2 <= 0)) | ((lambda1 >= 0) & (lambda2 >= 0))\n"
V("D21 regression: one-sided zero handling in the barycentric pre-filter", "C16", SHAPES, TRI_NEW, "        result = (lambda1 <= 0) == (lambda2 <= 0)\n", "E11.T", "Triangle.contains", quick=True)
V("triangle: lambda2 not tested in the vectorised final step", "C16", SHAPES, "        result[~ind] &= (lambda1[~ind] >= 0) & (lambda2[~ind] >= 0) & (lambda3[~ind] >= 0)",
  "        result[~ind] &= (lambda1[~ind] >= 0) & (lambda3[~ind] >= 0)", "E11.T", "Triangle.contains")
V("triangle: strict comparison in the scalar path", "C16", SHAPES, "            return lambda1 >= 0 and lambda2 >= 0 and lambda3 >= 0", "            return lambda1 > 0 and lambda2 >= 0 and lambda3 >= 0", "E11.T", "Triangle.contains")
V("triangle: orientation test inverted", "C16", SHAPES, "        ind = area < 0\n        result[ind] &=", "        ind = area > 0\n        result[ind] &=", "E11.T", "Triangle.contains")
V("twin: triangle pre-filter as a product of signs", "C16", SHAPES, TRI_NEW, "        result = lambda1 * lambda2 >= 0\n", "silent")
V("twin: triangle without the pre-filter", "C16", SHAPES, TRI_NEW, "        result = (lambda1 <= 0) | (lambda1 >= 0)\n", "silent")
V("triangle: barycentric determinant with the wrong vertex replaced", "C16", SHAPES, "        lambda2 = det(np.stack([a, p, c], axis=-2))", "        lambda2 = det(np.stack([p, a, c], axis=-2))", "missed")
SEG_RET = "        return result & (~x_zero | ~y_zero) & (0 <= x + tol) & (x <= y + tol)"
V("segment: strict lower bound without tolerance", "C16", SHAPES, SEG_RET, "        return result & (~x_zero | ~y_zero) & (0 < x) & (x <= y + tol)", "E11.S", "SegmentTensor.contains", quick=True)
V("segment: tolerance on the wrong side of the upper bound", "C16", SHAPES, SEG_RET, "        return result & (~x_zero | ~y_zero) & (0 <= x + tol) & (x <= y - tol)", "E11.S", "SegmentTensor.contains")
V("segment: tolerance subtracted from the lower bound's value", "C16", SHAPES, SEG_RET, "        return result & (~x_zero | ~y_zero) & (0 <= x - tol) & (x <= y + tol)", "E11.S", "SegmentTensor.contains")
V("twin: segment bounds written with >= and named conjuncts", "C16", SHAPES, SEG_RET,
  "        lower = x + tol >= 0\n        upper = y + tol >= x\n        inside = lower & upper\n        return result & (~x_zero | ~y_zero) & inside", "silent")
V("polygon: edge points no longer added to the parity result", "C16", SHAPES, "        result |= np.any(edge_points, axis=-1)\n", "", "E11.P", "PolygonTensor.contains", quick=True)
V("polygon 3D: coplanarity dropped from the projected test", "C16", SHAPES, "            return coplanar & PolygonCollection.from_array(arr).contains(other)",
  "            return PolygonCollection.from_array(arr).contains(other)", "E11.P", "PolygonTensor.contains")
V("twin: polygon boundary added with np.logical_or in the return", "C16", SHAPES, "        result |= np.any(edge_points, axis=-1)\n\n        return result",
  "        return result | np.any(edge_points, axis=-1)", "silent")


# ------------------------------------------------------------------------------------------------ C20 closed-form kernels (E12)
DET3_OLD = "            + A[..., 0, 1] * A[..., 1, 2] * A[..., 2, 0]\n"
V("det 3x3: one index of a Sarrus term swapped", "C20", MATH, DET3_OLD, "            + A[..., 0, 1] * A[..., 1, 2] * A[..., 2, 1]\n", "E12.det", "det", quick=True)
V("det 3x3: sign of one Sarrus term flipped", "C20", MATH, "            - A[..., 2, 1] * A[..., 1, 2] * A[..., 0, 0]\n", "            + A[..., 2, 1] * A[..., 1, 2] * A[..., 0, 0]\n", "E12.det", "det")
V("det 2x2: transposed anti-diagonal written twice", "C20", MATH, "        return A[..., 0, 0] * A[..., 1, 1] - A[..., 1, 0] * A[..., 0, 1]", "        return A[..., 0, 0] * A[..., 1, 1] - A[..., 1, 0] * A[..., 1, 0]", "E12.det", "det")
V("twin: det 3x3 by Laplace expansion along the first row with named minors", "C20", MATH,
  "        return (\n            A[..., 0, 0] * A[..., 1, 1] * A[..., 2, 2]\n            + A[..., 0, 1] * A[..., 1, 2] * A[..., 2, 0]\n            + A[..., 0, 2] * A[..., 1, 0] * A[..., 2, 1]\n"
  "            - A[..., 2, 0] * A[..., 1, 1] * A[..., 0, 2]\n            - A[..., 2, 1] * A[..., 1, 2] * A[..., 0, 0]\n            - A[..., 2, 2] * A[..., 1, 0] * A[..., 0, 1]\n        )",
  "        m0 = A[..., 1, 1] * A[..., 2, 2] - A[..., 1, 2] * A[..., 2, 1]\n        m1 = A[..., 1, 0] * A[..., 2, 2] - A[..., 1, 2] * A[..., 2, 0]\n        m2 = A[..., 1, 0] * A[..., 2, 1] - A[..., 1, 1] * A[..., 2, 0]\n"
  "        return A[..., 0, 0] * m0 - A[..., 0, 1] * m1 + A[..., 0, 2] * m2", "silent")
V("twin: det 2x2 with the factors reordered", "C20", MATH, "        return A[..., 0, 0] * A[..., 1, 1] - A[..., 1, 0] * A[..., 0, 1]", "        return -A[..., 0, 1] * A[..., 1, 0] + A[..., 1, 1] * A[..., 0, 0]", "silent")
V("adjugate 2x2: row and column tables exchanged", "C20", MATH, "        result = A[..., [[1, 0], [1, 0]], [[1, 1], [0, 0]]]", "        result = A[..., [[1, 1], [0, 0]], [[1, 0], [1, 0]]]", "E12.adj", "adjugate")
V("adjugate 2x2: signs on the diagonal", "C20", MATH, "        result[..., [0, 1], [1, 0]] *= -1\n        return result\n\n    if n >= 5", "        result[..., [0, 1], [0, 1]] *= -1\n        return result\n\n    if n >= 5", "E12.adj", "adjugate")
V("adjugate minors: transposition dropped", "C20", MATH, "        result = np.swapaxes(result, -1, -2)\n        result[..., 1::2, ::2] *= -1", "        result[..., 1::2, ::2] *= -1", "E12.adj", "adjugate")
V("adjugate minors: sign pattern on the odd-odd positions", "C20", MATH, "        result[..., ::2, 1::2] *= -1", "        result[..., 1::2, 1::2] *= -1", "E12.adj", "adjugate")
V("_minor_indices deletes column i and row j", "C20", MATH, "np.delete(np.delete(indices, i, axis=1), j, axis=2)", "np.delete(np.delete(indices, i, axis=2), j, axis=1)", "E12.adj", "_minor_indices")
V("twin: _minor_indices deletes the column first", "C20", MATH, "np.delete(np.delete(indices, i, axis=1), j, axis=2)", "np.delete(np.delete(indices, j, axis=2), i, axis=1)", "silent")
V("inv: determinant broadcast over one axis only", "C20", MATH, "        return adjugate(A) / d[..., None, None]", "        return adjugate(A) / d[..., None]", "E12.inv", "inv")
V("inv: determinant of the adjugate path not broadcast", "C20", MATH, "        return adjugate(A) / d[..., None, None]", "        return adjugate(A) / d", "E12.inv", "inv")
V("hat_matrix 3D: index table rotated", "C20", MATH, "        i, j = [1, 2, 0], [2, 0, 1]", "        i, j = [0, 1, 2], [1, 2, 0]", "E12.hat", "hat_matrix")
V("hat_matrix 3D: sign convention exchanged", "C20", MATH, "        result[..., i, j] = x\n        result[..., j, i] = -x\n        return result", "        result[..., i, j] = -x\n        result[..., j, i] = x\n        return result", "E12.hat", "hat_matrix")
V("twin: hat_matrix 3D with the tables listed in another order", "C20", MATH, "        i, j = [1, 2, 0], [2, 0, 1]\n        result[..., i, j] = x\n        result[..., j, i] = -x",
  "        i, j = [2, 0, 1], [1, 2, 0]\n        result[..., i, j] = -x\n        result[..., j, i] = x", "silent")


# ------------------------------------------------------------------------------------------------ from_array default copy=False (found by seeding, R5_C12)
IMP_PC = (SHAPES, "    Plane,\n    PlaneTensor,", "    Plane,\n    PlaneCollection,\n    PlaneTensor,")
V("working copy of the planes replaced by from_array of a reshaped view (copy=False by default)", "C12", SHAPES, "                e = type(e)(e)\n",
  "                e = PlaneCollection.from_array(e.array.reshape(e.shape))\n", "E1.mem", "_normalized_projection", extra=[IMP_PC])
V("twin: working copy through from_array(..., copy=True)", "C12", SHAPES, "                e = type(e)(e)\n",
  "                e = PlaneCollection.from_array(e.array.reshape(e.shape), copy=True)\n", "silent", extra=[IMP_PC])


# ------------------------------------------------------------------------------------------------ tolerance coupling (K8; found by seeding: C02, R5_C02, R5_C04)
ISZ = "        is_zero = result.is_zero()\n        if result.free_indices == 0 and is_zero:"
for _p in ("C02", "C04"):
    V(f"dependence tolerance scaled by the largest coordinate of the whole collection ({_p})", _p, POINT, ISZ,
      "        scale = np.prod([np.max(np.abs(o.array), initial=1) for o in args])\n        is_zero = result.is_zero(tol=EQ_TOL_ABS * scale)\n        if result.free_indices == 0 and is_zero:", "E6.K8", "_join_meet_duality")
    V(f"twin: dependence tolerance scaled per element ({_p})", _p, POINT, ISZ,
      "        axes = tuple(result._covariant_indices) + tuple(result._contravariant_indices)\n        scale = np.max(np.abs(result.array), axis=axes)\n        is_zero = result.is_zero(tol=EQ_TOL_ABS)\n        if result.free_indices == 0 and is_zero:", "silent")
V("isinf tolerance from the largest coordinate of the whole array", "C04", POINT, "        isinf = np.isclose(z, 0, atol=EQ_TOL_ABS)\n        if np.all(isinf | (z == 1)):",
  "        isinf = np.isclose(z, 0, atol=EQ_TOL_ABS * min(np.max(np.abs(array)), 1))\n        if np.all(isinf | (z == 1)):", "E6.K8", "_normalize_array")
V("twin: isinf tolerance from the largest coordinate of each point", "C04", POINT, "        isinf = np.isclose(z, 0, atol=EQ_TOL_ABS)\n        if np.all(isinf | (z == 1)):",
  "        isinf = np.isclose(z, 0, atol=EQ_TOL_ABS * np.minimum(np.max(np.abs(array), axis=-1, keepdims=True), 1))\n        if np.all(isinf | (z == 1)):", "silent")


# ------------------------------------------------------------------------------------------------ matrix-product form of the action (V5; found by seeding, R5_C06)
APPLY_ANCHOR = "    def __getitem__(self, index: TensorIndex) -> Tensor | np.generic:\n        result = super().__getitem__(index)\n\n        if not isinstance(result, Tensor) or result.tensor_shape != self.tensor_shape:"
def _apply_override(body: str) -> str:
    return ("    def __apply__(self, transformation):\n        m = transformation.array if self.is_dual else transformation.inverse().array\n"
            "        result = self.copy()\n" + body + "        return result\n\n")
for _p in ("C06", "C07"):
    V(f"quadric action as two matrix products, dual case transposed ({_p})", _p, CURVE, APPLY_ANCHOR,
      _apply_override("        result.array = matmul(matmul(m, self.array, transpose_a=True), m)\n") + APPLY_ANCHOR, "E4.V5", "QuadricTensor.__apply__", quick=True)
    V(f"twin: quadric action as two matrix products, both cases right ({_p})", _p, CURVE, APPLY_ANCHOR,
      ("    def __apply__(self, transformation):\n        result = self.copy()\n        if self.is_dual:\n            m = transformation.array\n"
       "            result.array = matmul(matmul(m, self.array), m, transpose_b=True)\n        else:\n            m = transformation.inverse().array\n"
       "            result.array = matmul(matmul(m, self.array, transpose_a=True), m)\n        return result\n\n") + APPLY_ANCHOR, "silent")
V("quadric action with the matrix and the inverse exchanged", "C07", CURVE, APPLY_ANCHOR,
  ("    def __apply__(self, transformation):\n        m = transformation.inverse().array if self.is_dual else transformation.array\n        result = self.copy()\n"
   "        result.array = matmul(matmul(m, self.array, transpose_a=True), m)\n        return result\n\n") + APPLY_ANCHOR, "E4.V5", "QuadricTensor.__apply__")


# ------------------------------------------------------------------------------------------------ C13 measure formulas (E12.measure)
V("D4 regression: Circle.area with a factor 2", "C13", CURVE, "        return np.pi * self.radius**2", "        return 2 * np.pi * self.radius**2", "E12.measure", "Circle.area", quick=True)
V("Sphere.volume with the exponent of the surface", "C13", CURVE, "        return self._alpha(n) * self.radius**n", "        return self._alpha(n) * self.radius ** (n - 1)", "E12.measure", "Sphere.volume")
V("Sphere.area without the factor n", "C13", CURVE, "        return n * self._alpha(n) * self.radius ** (n - 1)", "        return self._alpha(n) * self.radius ** (n - 1)", "E12.measure", "Sphere.area")
V("unit-ball constant with gamma(n/2) in place of gamma(n/2 + 1)", "C13", CURVE, "        return math.pi ** (n / 2) / math.gamma(n / 2 + 1)", "        return math.pi ** (n / 2) / math.gamma(n / 2)", "E12.measure", "Sphere")
V("unit-ball constant with pi**n", "C13", CURVE, "        return math.pi ** (n / 2) / math.gamma(n / 2 + 1)", "        return math.pi ** n / math.gamma(n / 2 + 1)", "E12.measure", "Sphere")
V("twin: Circle.area with the factors reordered", "C13", CURVE, "        return np.pi * self.radius**2", "        r = self.radius\n        return r * r * np.pi", "silent")
V("twin: Sphere.volume with the constant inlined", "C13", CURVE, "        return self._alpha(n) * self.radius**n", "        return self.radius**n * math.pi ** (n / 2) / math.gamma(n / 2 + 1)", "silent")
V("twin: Sphere.area in the form 2 pi^(n/2) / Gamma(n/2) r^(n-1)", "C13", CURVE, "        return n * self._alpha(n) * self.radius ** (n - 1)",
  "        return 2 * math.pi ** (n / 2) / math.gamma(n / 2) * self.radius ** (n - 1)", "silent")

V("inv: multiply by np.reciprocal of the determinant (integer truncation)", "C20", MATH, "        return adjugate(A) / d[..., None, None]", "        return adjugate(A) * np.reciprocal(d)[..., None, None]", "E12.inv", "inv")
V("twin: inv as a product with the true reciprocal", "C20", MATH, "        return adjugate(A) / d[..., None, None]", "        return adjugate(A) * (1 / d)[..., None, None]", "silent")
V("triangle: orientation by np.sign of the sum, zero for points at infinity", "C16", SHAPES,
  "        ind = area < 0\n        result[ind] &= (lambda1[ind] <= 0) & (lambda2[ind] <= 0) & (lambda3[ind] <= 0)\n        result[~ind] &= (lambda1[~ind] >= 0) & (lambda2[~ind] >= 0) & (lambda3[~ind] >= 0)\n\n        return result",
  "        orientation = np.sign(area)\n        return result & (orientation * lambda1 >= 0) & (orientation * lambda2 >= 0) & (orientation * lambda3 >= 0)", "E11.T", "Triangle.contains")
V("twin: orientation by np.sign with the degenerate sum excluded", "C16", SHAPES,
  "        ind = area < 0\n        result[ind] &= (lambda1[ind] <= 0) & (lambda2[ind] <= 0) & (lambda3[ind] <= 0)\n        result[~ind] &= (lambda1[~ind] >= 0) & (lambda2[~ind] >= 0) & (lambda3[~ind] >= 0)\n\n        return result",
  "        orientation = np.sign(area)\n        return result & (orientation != 0) & (orientation * lambda1 >= 0) & (orientation * lambda2 >= 0) & (orientation * lambda3 >= 0)", "silent")


# ------------------------------------------------------------------------------------------------ definite inhomogeneous scalars (found by seeding, R6_C13)
RAD_OLD = "        c = self.array[:-1, -1] / self.array[0, 0]\n        return np.sqrt(c.dot(c) - self.array[-1, -1] / self.array[0, 0])"
for _p in ("C13", "C03"):
    V(f"Sphere.radius from the raw last column (degree 2 minus degree 0) ({_p})", _p, CURVE, RAD_OLD,
      "        c = self.array[:-1, -1]\n        return np.sqrt(c.dot(c) - self.array[-1, -1] / self.array[0, 0])", "E5.ret", "Sphere")
    V(f"twin: Sphere.radius with the quotient taken after the subtraction ({_p})", _p, CURVE, RAD_OLD,
      "        c = self.array[:-1, -1]\n        k = self.array[0, 0]\n        return np.sqrt((c.dot(c) - self.array[-1, -1] * k) / k**2)", "silent")


# ------------------------------------------------------------------------------------------------ index bookkeeping (E13)
GIM_NEW = '    def _get_index_mapping(self, index: TensorIndex) -> list[int | None]:\n        # maps every axis of self.array[index] to the axis of self.array it comes from (None for a new axis),\n        # following the indexing rules of numpy\n        if not isinstance(index, tuple):\n            index = (index,)\n\n        # every index element as (kind, number of consumed axes, dimension of the index array)\n        elements: list[tuple[str, int, int]] = []\n        for ind in index:\n            if ind is None:\n                elements.append(("newaxis", 0, 0))\n            elif ind is Ellipsis:\n                elements.append(("ellipsis", 0, 0))\n            elif isinstance(ind, slice):\n                elements.append(("slice", 1, 0))\n            elif isinstance(ind, (int, np.integer)):\n                elements.append(("integer", 1, 0))\n            else:\n                index_array = np.asarray(ind)\n                if index_array.dtype == bool:\n                    # a boolean mask consumes one axis per dimension and is equivalent to 1-dimensional index arrays\n                    elements.append(("array", index_array.ndim, 1))\n                else:\n                    elements.append(("array", 1, index_array.ndim))\n\n        # replace the ellipsis by slices and add the omitted slices at the end\n        missing = self.rank - sum(e[1] for e in elements)\n        expanded: list[tuple[str, int, int]] = []\n        for e in elements:\n            if e[0] != "ellipsis":\n                expanded.append(e)\n            elif missing > 0:\n                expanded.extend([("slice", 1, 0)] * missing)\n                missing = 0\n            else:\n                # an ellipsis that stands for no axis still separates the advanced indices on both sides\n                expanded.append(("separator", 0, 0))\n        expanded.extend([("slice", 1, 0)] * missing)\n\n        # integers are advanced indices too as soon as there is an index array\n        array_dims = [e[2] for e in expanded if e[0] == "array"]\n        advanced = [i for i, e in enumerate(expanded) if e[0] == "array" or (len(array_dims) > 0 and e[0] == "integer")]\n        broadcast_ndim = max(array_dims) if len(array_dims) > 0 else 0\n        adjacent = len(advanced) == 0 or advanced == list(range(advanced[0], advanced[-1] + 1))\n\n        index_mapping: list[int | None] = []\n        axis = 0\n        for i, e in enumerate(expanded):\n            if e[0] == "slice":\n                index_mapping.append(axis)\n            elif e[0] == "newaxis":\n                index_mapping.append(None)\n            elif len(advanced) > 0 and adjacent and i == advanced[0]:\n                # the broadcast dimensions of adjacent advanced indices replace them in place\n                index_mapping.extend([None] * broadcast_ndim)\n            axis += e[1]\n\n        if not adjacent:\n            # advanced indices that are separated by a slice or a new axis are moved to the front\n            return [None] * broadcast_ndim + index_mapping\n\n        return index_mapping\n\n'
GIM_OLD = '    def _get_index_mapping(self, index: TensorIndex) -> list[int | None]:\n        normalized_index = normalize_index(index, self.shape)  # type: ignore[no-untyped-call]\n        advanced_indices = []\n        index_mapping: list[int | None] = list(range(self.rank))\n        i = 0\n        for ind in normalized_index:\n            # axis with integer index will be removed\n            if isinstance(ind, int):\n                index_mapping.pop(i)\n                continue\n\n            # new axis inserted by None index\n            if ind is None:\n                index_mapping.insert(i, None)\n\n            # advanced indexing\n            elif isinstance(ind, np.ndarray):\n                advanced_indices.append(i)\n\n            i += 1\n\n        if len(advanced_indices) == 0:\n            return index_mapping\n\n        b = np.broadcast(*[normalized_index[i] for i in advanced_indices])\n        a0, a1 = advanced_indices[0], advanced_indices[-1]\n\n        if advanced_indices != list(range(a0, a1 + 1)):\n            # create advanced indices in front\n            for i in advanced_indices:\n                index_mapping.remove(i)\n            new_indices: list[int | None] = [None] * b.ndim\n            return new_indices + index_mapping\n        else:\n            # replace indices with broadcast shape\n            return index_mapping[:a0] + [None] * b.ndim + index_mapping[a1 + 1 :]\n\n'
V("D22 regression: the dask-normalised index mapping with one counter for two index spaces", "C19", BASE, GIM_NEW, GIM_OLD, "E13", "_get_index_mapping",
  extra=[(BASE, "    is_numerical_scalar,\n    posify_index,", "    is_numerical_scalar,\n    normalize_index,\n    posify_index,")])
V("index mapping: a mask counted like an integer array", "C19", BASE, '                    elements.append(("array", index_array.ndim, 1))', '                    elements.append(("array", 1, index_array.ndim))', "E13", "_get_index_mapping")
V("index mapping: integers next to arrays not treated as advanced indices", "C19", BASE, "e[0] == \"array\" or (len(array_dims) > 0 and e[0] == \"integer\")]", "e[0] == \"array\"]", "E13", "_get_index_mapping")
V("index mapping: separated advanced indices appended instead of moved to the front", "C19", BASE, "            return [None] * broadcast_ndim + index_mapping", "            return index_mapping + [None] * broadcast_ndim", "E13", "_get_index_mapping")
V("index mapping: ellipsis expanded without counting the consumed axes", "C19", BASE, "        missing = self.rank - sum(e[1] for e in elements)", "        missing = self.rank - len([e for e in elements if e[0] != \"newaxis\" and e[0] != \"ellipsis\"])", "E13", "_get_index_mapping")
V("twin: index mapping with the kinds tested in another order", "C19", BASE, "            if ind is None:\n                elements.append((\"newaxis\", 0, 0))\n            elif ind is Ellipsis:\n                elements.append((\"ellipsis\", 0, 0))",
  "            if ind is Ellipsis:\n                elements.append((\"ellipsis\", 0, 0))\n            elif ind is None:\n                elements.append((\"newaxis\", 0, 0))", "silent")
V("index mapping: an ellipsis that stands for no axis does not separate", "C19", BASE, "                expanded.append((\"separator\", 0, 0))", "                pass", "missed")


# ------------------------------------------------------------------------------------------------ tensor diagrams over shapes (E14) and operand identity (E14.id)
V("add_edge takes the LAST unused covariant index of the source", "C05", BASE, "        i = free_source.pop(0)\n", "        i = free_source.pop()\n", "E14", "TensorDiagram.calculate")
V("calculate: contravariant indices before the covariant ones in the result", "C05", BASE, "result_indices[0] + result_indices[1] + result_indices[2])", "result_indices[0] + result_indices[2] + result_indices[1])", "E14", "TensorDiagram.calculate")
V("calculate: one covariant index too many in the result type", "C05", BASE, "        return Tensor(result, covariant=range(n_cov), tensor_rank=result.ndim - n_free, copy=False)",
  "        return Tensor(result, covariant=range(n_cov + 1), tensor_rank=result.ndim - n_free, copy=False)", "E14", "TensorDiagram.calculate")
V("calculate: collection axes aligned from the left", "C05", BASE, "                free_ind = list(reversed(range(node.free_indices)))", "                free_ind = list(range(node.free_indices))", "E14", "TensorDiagram.calculate")
V("calculate: result offsets of the unused contravariant indices dropped", "C05", BASE, "            result_indices[2].extend(offset + x for x in ind[1])", "            result_indices[2].extend(x for x in ind[1])", "E14", "TensorDiagram.calculate")
PAIR_CALL_OLD = "        # Build the list of indices for einsum\n        indices = list(range(self._index_count))\n"
PAIR_CALL_NEW = ("        if len(self._nodes) == 2 and all(node.free_indices == 0 for node in self._nodes):\n"
                 "            if all(source_index != target_index for source_index, target_index, _, _ in self._contraction_list):\n"
                 "                return self._calculate_pair()\n\n" + PAIR_CALL_OLD)
PAIR_DEF_OLD = "    def copy(self) -> TensorDiagram:\n        result = TensorDiagram()\n"


def _pair_def(perm: str) -> str:
    return ("    def _calculate_pair(self) -> Tensor:\n"
            "        a, b = self._nodes\n"
            "        axes_a = [i if source_index == 0 else j for source_index, _, i, j in self._contraction_list]\n"
            "        axes_b = [j if source_index == 0 else i for source_index, _, i, j in self._contraction_list]\n"
            "        result = np.tensordot(a.array, b.array, axes=(axes_a, axes_b))\n"
            "        remaining = [(0, x) for x in range(a.rank) if x not in axes_a]\n"
            "        remaining += [(1, x) for x in range(b.rank) if x not in axes_b]\n"
            "        (cov_a, con_a), (cov_b, con_b) = self._unused_indices\n"
            "        order = [(0, x) for x in cov_a] + [(1, x) for x in cov_b] + [(0, x) for x in con_a] + [(1, x) for x in con_b]\n"
            f"        result = np.transpose(result, axes={perm})\n"
            "        return Tensor(result, covariant=range(len(cov_a) + len(cov_b)), copy=False)\n\n" + PAIR_DEF_OLD)


V("calculate: tensordot fast path for two single tensors that applies the inverse of the result permutation", "C05", BASE, PAIR_CALL_OLD, PAIR_CALL_NEW, "E14",
  "TensorDiagram.calculate", extra=[(BASE, PAIR_DEF_OLD, _pair_def("[order.index(axis) for axis in remaining]"))])
V("twin: tensordot fast path for two single tensors with the right result permutation", "C05", BASE, PAIR_CALL_OLD, PAIR_CALL_NEW, "silent",
  extra=[(BASE, PAIR_DEF_OLD, _pair_def("[remaining.index(axis) for axis in order]"))])
PAIR_CALL_GATED = PAIR_CALL_NEW.replace("all(node.free_indices == 0 for node in self._nodes):", "all(node.free_indices == 0 for node in self._nodes) and max(node.array.size for node in self._nodes) >= 4096:")
V("calculate: the tensordot fast path with the inverse permutation, taken only for operands with many entries", "C05", BASE, PAIR_CALL_OLD, PAIR_CALL_GATED, "E14",
  "TensorDiagram.calculate", extra=[(BASE, PAIR_DEF_OLD, _pair_def("[order.index(axis) for axis in remaining]"))])
V("twin: the size-gated tensordot fast path with the right permutation", "C05", BASE, PAIR_CALL_OLD, PAIR_CALL_GATED, "silent",
  extra=[(BASE, PAIR_DEF_OLD, _pair_def("[remaining.index(axis) for axis in order]"))])
V("twin: add_edge removes the first unused index with del", "C05", BASE, "        i = free_source.pop(0)\n        j = free_target.pop(0)\n", "        i = free_source[0]\n        del free_source[0]\n        j = free_target[0]\n        del free_target[0]\n", "silent")
V("twin: calculate labels a contracted pair with the larger subscript", "C05", BASE, "            indices[max(i, j)] = min(i, j)", "            indices[min(i, j)] = max(i, j)", "missed")
V("D24 regression: join/meet put the caller's objects themselves into the diagram", "C02", POINT, "    args = tuple(o.copy() for o in args)\n", "", "E14.id", "_join_meet_duality")
V("twin: join/meet copy their arguments one by one", "C02", POINT, "    args = tuple(o.copy() for o in args)\n", "    args = tuple([a.copy() for a in args])\n", "silent")


# ------------------------------------------------------------------------------------------------ index types follow the axes (E15)
V("transpose: index sets through the inverse permutation (E15 view)", "C19", BASE, "        for i, j in enumerate(perm):\n            if j in self._covariant_indices:\n                covariant_indices.append(i)\n            elif j in self._contravariant_indices:\n                contravariant_indices.append(i)",
  "        for i, j in enumerate(perm):\n            if i in self._covariant_indices:\n                covariant_indices.append(j)\n            elif i in self._contravariant_indices:\n                contravariant_indices.append(j)", "E15", "Tensor.transpose")
V("tensor_product: contravariant indices of the first factor placed last", "C19", BASE, "        contravariant = list(self._contravariant_indices) + [offset + i for i in other._contravariant_indices]",
  "        contravariant = [offset + i for i in other._contravariant_indices] + list(self._contravariant_indices)", "silent")
V("tensor_product: result typed with one covariant index too few", "C19", BASE, "        return Tensor(result, covariant=range(len(covariant)), copy=False)", "        return Tensor(result, covariant=range(len(covariant) - 1), copy=False)", "E15", "Tensor.tensor_product")
V("expand_dims: index sets shifted for positions after the new axis only", "C19", BASE, "        result._covariant_indices = {i + 1 if i >= axis else i for i in self._covariant_indices}", "        result._covariant_indices = {i + 1 if i > axis else i for i in self._covariant_indices}", "E15", "expand_dims")
V("__getitem__: covariant and contravariant sets exchanged when the mapping is applied", "C19", BASE, "            if old_axis in self._covariant_indices:\n                covariant_indices.append(new_axis)\n            elif old_axis in self._contravariant_indices:\n                contravariant_indices.append(new_axis)",
  "            if old_axis in self._covariant_indices:\n                contravariant_indices.append(new_axis)\n            elif old_axis in self._contravariant_indices:\n                covariant_indices.append(new_axis)", "E15", "Tensor.__getitem__")
V("_with_array passes absolute index positions as relative ones (E15 view)", "C19", BASE, "        covariant = [i - n for i in self._covariant_indices]", "        covariant = list(self._covariant_indices)", "E15", "Tensor.__add__")
V("_with_array takes the tensor rank of the operand instead of the result's", "C19", BASE, "        return Tensor(array, covariant=covariant, tensor_rank=self.rank - n, copy=False)", "        return Tensor(array, covariant=covariant, tensor_rank=array.ndim - n, copy=False)", "E15", "Tensor.__add__")


# ------------------------------------------------------------------------------------------------ element class by interpretation (E16)
V("D18/D19 regression seen by interpretation: Tensor arguments skip constructor validation", "C04", BASE, "                self._contravariant_indices = args[0]._contravariant_indices\n                self._validate_tensor()\n                return",
  "                self._contravariant_indices = args[0]._contravariant_indices\n                return", "E16", "PointCollection")
V("collection __getitem__ hands every tensor result to the element class", "C04", BASE, "        if result.free_indices > 0:\n            return TensorCollection(result, copy=False)\n\n        return self._element_class(result, copy=False)",
  "        return self._element_class(result, copy=False)", "E16", "Collection")
V("QuadricCollection[i] forgets is_dual (E16 view)", "C04", CURVE, "        return QuadricCollection.from_tensor(result, is_dual=self.is_dual)", "        return QuadricCollection.from_tensor(result)", "E16", "QuadricCollection")
V("Tensor.__init__ takes covariant= positions as absolute axis numbers", "C19", BASE, "                self._covariant_indices.add(n_free_indices + idx)", "                self._covariant_indices.add(idx)", "E15", "Tensor.__init__")
V("Tensor.__init__ leaves the collection axes among the contravariant indices", "C19", BASE, "        self._contravariant_indices = set(range(self.rank)) - self._covariant_indices - free_indices", "        self._contravariant_indices = set(range(self.rank)) - self._covariant_indices", "E15", "Tensor.__init__")


# ------------------------------------------------------------------------------------------------ closed-form roots (E12.roots)
V("D7 regression: triple root with the wrong sign", "C20", MATH, "        x = -np.cbrt(d / a)", "        x = np.cbrt(d / a)", "E12.roots", "roots")
V("quadratic branch: discriminant with the wrong factor", "C20", MATH, "        D = c**2 - 4 * b * d", "        D = c**2 - 2 * b * d", "E12.roots", "roots")
V("quadratic branch: denominator without the factor 2", "C20", MATH, "        x1 = (-c + D) / (2 * b)", "        x1 = (-c + D) / b", "E12.roots", "roots")
V("linear branch: sign of the root", "C20", MATH, "        return np.array([-d / c])", "        return np.array([d / c])", "E12.roots", "roots")
QUAD_OLD = "        D = c**2 - 4 * b * d\n        D = csqrt(D)\n        x1 = (-c + D) / (2 * b)\n        x2 = (-c - D) / (2 * b)\n"


def _stable_quadratic(guarded: bool) -> str:
    dq = "d / q if q != 0 else 0 * q" if guarded else "d / q"
    return ("        D = csqrt(c**2 - 4 * b * d)\n        if c >= 0:\n            q = -(c + D) / 2\n"
            f"            x1 = {dq}\n            x2 = q / b\n        else:\n            q = -(c - D) / 2\n            x1 = q / b\n            x2 = {dq}\n")


V("quadratic branch in the cancellation-free form d/q, q/b: 0/0 for the double root 0 (c = d = 0)", "C20", MATH, QUAD_OLD, _stable_quadratic(False), "E12.roots.div", "roots")
V("twin: the cancellation-free quadratic form with the case q = 0 handled", "C20", MATH, QUAD_OLD, _stable_quadratic(True), "silent")
V("triple root read from -3d/c: 0/0 for the triple root 0", "C20", MATH, "        x = -np.cbrt(d / a)", "        x = -3 * d / c", "E12.roots.div", "roots")
V("twin: triple root read from -b/(3a)", "C20", MATH, "        x = -np.cbrt(d / a)", "        x = -b / (3 * a)", "silent")
V("twin: quadratic roots written with the quotient distributed", "C20", MATH, "        x1 = (-c + D) / (2 * b)", "        x1 = -c / (2 * b) + D / (2 * b)", "silent")
V("twin: triple root from the sum of the roots", "C20", MATH, "        x = -np.cbrt(d / a)", "        x = -b / (3 * a)", "silent")


# ------------------------------------------------------------------------------------------------ flattening numpy calls (K9; found by seeding, R8_C16)
for _p in ("C16", "C04"):
    V(f"ray casting: start-vertex mask as a roll of the end-vertex mask without axis ({_p})", _p, SHAPES,
      "        v1_intersections = (v1[..., 1] <= v2[..., 1]) & is_multiple(\n            intersections.array, v1, atol=EQ_TOL_ABS, rtol=EQ_TOL_REL, axis=-1\n        )",
      "        v2_on_ray = is_multiple(intersections.array, v2, atol=EQ_TOL_ABS, rtol=EQ_TOL_REL, axis=-1)\n        v1_intersections = (v1[..., 1] <= v2[..., 1]) & np.roll(v2_on_ray, 1)", "E6.K9", "PolygonTensor.contains")
    V(f"twin: the same roll along the edge axis ({_p})", _p, SHAPES,
      "        v1_intersections = (v1[..., 1] <= v2[..., 1]) & is_multiple(\n            intersections.array, v1, atol=EQ_TOL_ABS, rtol=EQ_TOL_REL, axis=-1\n        )",
      "        v2_on_ray = is_multiple(intersections.array, v2, atol=EQ_TOL_ABS, rtol=EQ_TOL_REL, axis=-1)\n        v1_intersections = (v1[..., 1] <= v2[..., 1]) & np.roll(v2_on_ray, 1, axis=-1)", "silent")
V("vertex cycle rolled without axis when the edges are built", "C04", SHAPES, "        v2 = np.roll(v1, -1, axis=-2)", "        v2 = np.roll(v1, -1)", "E6.K9", "edges")


# ------------------------------------------------------------------------------------------------ vectorised closed forms (E12.det; found by seeding, R8_C20)
DET4_ANCHOR = "    return np.linalg.det(A)\n\n\ndef inv("
def _det4(sign: str) -> str:
    return ("    if n == 4 and A.size >= 16 * 128:\n        p, q = np.triu_indices(4, 1)\n        r, s = p[::-1], q[::-1]\n"
            "        upper = A[..., 0, p] * A[..., 1, q] - A[..., 0, q] * A[..., 1, p]\n        lower = A[..., 2, r] * A[..., 3, s] - A[..., 2, s] * A[..., 3, r]\n"
            f"        return np.sum((-1) ** ({sign}) * upper * lower, axis=-1)\n\n") + DET4_ANCHOR
V("new 4x4 branch of det by Laplace expansion along two rows, sign without the row indices", "C20", MATH, DET4_ANCHOR, _det4("p + q"), "E12.det", "det")
V("twin: new 4x4 branch of det by Laplace expansion along two rows", "C20", MATH, DET4_ANCHOR, _det4("p + q + 1"), "silent")


# ------------------------------------------------------------------------------------------------ int8 accumulation (K10; found by seeding, R5_C05 / R8_C05)
V("Kronecker delta for p == n as a contraction of the int8 epsilon arrays", "C05", BASE, "np.tensordot(e.array, e.array, 0)", "np.tensordot(e.array, e.array, ([], []))", "silent")
V("general Kronecker delta by contracting two int8 epsilon arrays", "C05", BASE, "            array = np.tensordot(e.array, e.array, 0)", "            array = np.tensordot(e.array, e.array, (list(range(p, n)), list(range(p, n))))", "E6.K10", "KroneckerDelta", quick=True)
V("twin: the same contraction with a widened operand", "C05", BASE, "            array = np.tensordot(e.array, e.array, 0)", "            array = np.tensordot(e.array.astype(int), e.array, (list(range(p, n)), list(range(p, n))))", "silent")


# ------------------------------------------------------------------------------------------------ the generic action by interpretation (E17)
for _p in ("C06", "C07"):
    V(f"generic action: the inverse is used for the covariant indices ({_p})", _p, BASE, "        edges: list[tuple[Tensor, Tensor]] = [(self, transformation.copy()) for _ in range(ts[0])]",
      "        edges: list[tuple[Tensor, Tensor]] = [(self, transformation.inverse().copy()) for _ in range(ts[0])]", "E17", "Tensor.__apply__")
    V(f"generic action: one contravariant index is left untransformed ({_p})", _p, BASE, "            edges.extend((inv.copy(), self) for _ in range(ts[1]))", "            edges.extend((inv.copy(), self) for _ in range(ts[1] - 1))", "E17", "Tensor.__apply__")
AP_OLD = "        ts = self.tensor_shape\n        edges: list[tuple[Tensor, Tensor]] = [(self, transformation.copy()) for _ in range(ts[0])]\n"
AP_IMPORT = (BASE, "    is_numerical_scalar,\n    posify_index,", "    is_numerical_scalar,\n    matmul,\n    posify_index,")


def _ap_fast(correct: bool) -> str:
    if correct:
        body = ("            if ts[1] > 0:\n                m = transformation.inverse().array\n"
                "                result_fast.array = matmul(matmul(m, self.array, transpose_a=True), m)\n"
                "            else:\n                m = transformation.array\n"
                "                result_fast.array = matmul(matmul(m, self.array), m, transpose_b=True)\n")
    else:
        body = ("            m = transformation.inverse().array if ts[1] > 0 else transformation.array\n"
                "            result_fast.array = matmul(matmul(m, self.array, transpose_a=True), m)\n")
    return ("        ts = self.tensor_shape\n        if ts in ((0, 2), (2, 0)):\n            result_fast = self.copy()\n" + body
            + "            return result_fast\n        edges: list[tuple[Tensor, Tensor]] = [(self, transformation.copy()) for _ in range(ts[0])]\n")


for _p in ("C06", "C07"):
    V(f"generic action: matrix-product fast path for rank 2 that uses M^T A M for two covariant indices too ({_p})", _p, BASE, AP_OLD, _ap_fast(False), "E17", "Tensor.__apply__",
      extra=[AP_IMPORT])
    V(f"twin: matrix-product fast path for rank 2 with M A M^T for covariant and M^-T A M^-1 for contravariant indices ({_p})", _p, BASE, AP_OLD, _ap_fast(True), "silent",
      extra=[AP_IMPORT])
V("generic action: the inverse contracted from the other side", "C07", BASE, "            edges.extend((inv.copy(), self) for _ in range(ts[1]))", "            edges.extend((self, inv.copy()) for _ in range(ts[1]))", "E17", "Tensor.__apply__")
V("twin: generic action with the edge list built in one expression", "C07", BASE,
  "        edges: list[tuple[Tensor, Tensor]] = [(self, transformation.copy()) for _ in range(ts[0])]\n        if ts[1] > 0:\n            inv = transformation.inverse()\n            edges.extend((inv.copy(), self) for _ in range(ts[1]))",
  "        inv = transformation.inverse()\n        edges: list[tuple[Tensor, Tensor]] = [(self, transformation.copy()) for _ in range(ts[0])] + [(inv.copy(), self) for _ in range(ts[1])]", "silent")


# ------------------------------------------------------------------------------------------------ sibling paths of one try statement (E10.F6; found by seeding, R9_C18)
F6_OLD = '        if isinstance(other, SegmentTensor):\n            try:\n                result = self._plane.meet(other._line)\n            except LinearDependenceError as e:\n                if isinstance(other, SegmentCollection):\n                    other = cast(SegmentTensor, other[~e.dependent_values])\n                result = cast(PlaneTensor, self._plane[~e.dependent_values]).meet(other._line)\n                return list(\n                    result[\n                        PolygonCollection.from_tensor(self[~e.dependent_values]).contains(result)\n                        & other.contains(result)\n                    ]\n                )\n            else:\n                return list(result[self.contains(result) & other.contains(result)])\n\n        try:\n            result = self._plane.meet(other)\n        except LinearDependenceError as e:\n            if other.free_indices > 0:\n                other = other[~e.dependent_values]\n            result = cast(PlaneTensor, self._plane[~e.dependent_values]).meet(other)\n            return list(result[PolygonCollection.from_tensor(self[~e.dependent_values]).contains(result)])\n        else:\n            return list(result[self.contains(result)])'
F6_NEW = '        # a segment is intersected via its supporting line, the hits are restricted to the segment afterwards\n        segment = other if isinstance(other, SegmentTensor) else None\n        line = other if segment is None else segment._line\n\n        try:\n            result = self._plane.meet(line)\n            ind = self.contains(result)\n        except LinearDependenceError as e:\n            # the line lies in some of the planes, only the remaining polygons can be hit in a single point\n            independent = ~e.dependent_values\n            if isinstance(segment, SegmentCollection):\n                segment = cast(SegmentTensor, segment[independent])\n                line = segment._line\n            elif line.free_indices > 0:\n                line = cast(LineTensor, line[independent])\n            result = cast(PlaneTensor, self._plane[independent]).meet(line)\n            ind = PolygonCollection.from_tensor(self[independent]).contains(result)\n        else:\n            if segment is not None:\n                ind &= segment.contains(result)\n\n        return list(result[ind])'
F6_TWIN = '        # a segment is intersected via its supporting line, the hits are restricted to the segment afterwards\n        segment = other if isinstance(other, SegmentTensor) else None\n        line = other if segment is None else segment._line\n\n        try:\n            result = self._plane.meet(line)\n            ind = self.contains(result)\n        except LinearDependenceError as e:\n            # the line lies in some of the planes, only the remaining polygons can be hit in a single point\n            independent = ~e.dependent_values\n            if isinstance(segment, SegmentCollection):\n                segment = cast(SegmentTensor, segment[independent])\n                line = segment._line\n            elif line.free_indices > 0:\n                line = cast(LineTensor, line[independent])\n            result = cast(PlaneTensor, self._plane[independent]).meet(line)\n            ind = PolygonCollection.from_tensor(self[independent]).contains(result)\n\n        if segment is not None:\n            ind &= segment.contains(result)\n\n        return list(result[ind])'
V("segment and line operands merged, the segment restriction only on the path without an exception", "C18", SHAPES, F6_OLD, F6_NEW, "E10.F6", "PolygonTensor.intersect", quick=True)
V("twin: segment and line operands merged, the segment restriction after the try statement", "C18", SHAPES, F6_OLD, F6_TWIN, "silent")


# ------------------------------------------------------------------------------------------------ constructors as closed forms (E18)
V("affine_transform stores the offset into the last row", "C08", TRANS, "    result[:-1, -1] = offset\n", "    result[-1, :-1] = offset\n", "E18.affine", "affine_transform", quick=True)
V("affine_transform stores the matrix shifted by one row and column", "C08", TRANS, "        result[:-1, :-1] = matrix\n", "        result[1:, 1:] = matrix\n", "missed")
V("affine_transform forgets the matrix", "C08", TRANS, "    if matrix is not None:\n        result[:-1, :-1] = matrix\n\n", "", "E18.affine", "affine_transform")
V("twin: affine_transform with the blocks addressed through n - 1", "C08", TRANS, "    if matrix is not None:\n        result[:-1, :-1] = matrix\n\n    result[:-1, -1] = offset\n",
  "    if matrix is not None:\n        result[: n - 1, : n - 1] = matrix\n\n    result[: n - 1, n - 1] = offset\n", "silent")
V("translation by the unnormalised homogeneous coordinates", "C08", TRANS, "    return affine_transform(offset=offset.normalized_array[:-1])", "    return affine_transform(offset=offset.array[:-1])",
  "E18.trans", "translation")
V("translation in the opposite direction", "C08", TRANS, "    return affine_transform(offset=offset.normalized_array[:-1])", "    return affine_transform(offset=-offset.normalized_array[:-1])",
  "E18.trans", "translation")
V("twin: translation with the offset in a local", "C08", TRANS, "    return affine_transform(offset=offset.normalized_array[:-1])",
  "    shift = offset.normalized_array[:-1]\n    return affine_transform(None, shift)", "silent")
V("rotation of the plane turns clockwise", "C08", TRANS, "[[np.cos(angle), -np.sin(angle)], [np.sin(angle), np.cos(angle)]]", "[[np.cos(angle), np.sin(angle)], [-np.sin(angle), np.cos(angle)]]",
  "E18.rot", "rotation")
V("rotation of the plane with sine and cosine exchanged", "C08", TRANS, "[[np.cos(angle), -np.sin(angle)], [np.sin(angle), np.cos(angle)]]", "[[np.sin(angle), -np.cos(angle)], [np.cos(angle), np.sin(angle)]]",
  "E18.rot", "rotation")
V("twin: rotation of the plane with cos and sin in locals", "C08", TRANS, "        return affine_transform([[np.cos(angle), -np.sin(angle)], [np.sin(angle), np.cos(angle)]])",
  "        c, s = np.cos(angle), np.sin(angle)\n        return affine_transform([[c, -s], [s, c]])", "silent")
V("Rodrigues formula with (1 + cos) on the axis term", "C08", TRANS, "+ (1 - np.cos(angle)) * v", "+ (1 + np.cos(angle)) * v", "E18.rot", "rotation")
V("Rodrigues formula with the identity term scaled by sin", "C08", TRANS, "    result = np.cos(angle) * np.eye(dimension) + np.sin(angle) * u", "    result = np.sin(angle) * np.eye(dimension) + np.cos(angle) * u", "E18.rot", "rotation")
V("Rodrigues formula with an axis that is not normalised", "C08", TRANS, "    a = a / np.linalg.norm(a)\n", "", "E18.rot", "rotation")
V("twin: Rodrigues formula with the terms in another order", "C08", TRANS, "    result = np.cos(angle) * np.eye(dimension) + np.sin(angle) * u + (1 - np.cos(angle)) * v",
  "    c = np.cos(angle)\n    result = v + c * (np.eye(dimension) - v) + u * np.sin(angle)", "silent")
V("Householder matrix without the factor 2", "C08", TRANS, "np.eye(axis.dim) - 2 * outer(v, v.conj())", "np.eye(axis.dim) - outer(v, v.conj())", "E18.refl", "reflection")
V("Householder matrix from a normal that is not normalised", "C08", TRANS, "    v = v / np.linalg.norm(v)  # type: ignore[operator]\n", "", "E18.refl", "reflection")
V("twin: Householder matrix with the factor inside the outer product", "C08", TRANS, "np.eye(axis.dim) - 2 * outer(v, v.conj())", "np.eye(axis.dim) - outer(v, v.conj()) * 2", "silent")
FP_OLD = "        t1 = m1.dot(np.diag(d1))\n        t2 = m2.dot(np.diag(d2))\n\n        return cls(t2.dot(np.linalg.inv(t1)))"
V("from_points with the two scalings merged the wrong way round (d1/d2)", "C08", TRANS, FP_OLD, "        return cls((m2 * (d1 / d2)).dot(np.linalg.inv(m1)))", "E18.frame", "Transformation.from_points", quick=True)
V("twin: from_points with the two scalings merged into d2/d1", "C08", TRANS, FP_OLD, "        return cls((m2 * (d2 / d1)).dot(np.linalg.inv(m1)))", "silent")
V("twin: from_points through solve on the transposes", "C08", TRANS, "        return cls(t2.dot(np.linalg.inv(t1)))", "        return cls(np.linalg.solve(t1.T, t2.T).T)", "silent")
V("from_points maps the targets to the sources", "C08", TRANS, "        return cls(t2.dot(np.linalg.inv(t1)))", "        return cls(t1.dot(np.linalg.inv(t2)))", "E18.frame", "Transformation.from_points")
V("from_points multiplies by the inverse on the wrong side", "C08", TRANS, "        return cls(t2.dot(np.linalg.inv(t1)))", "        return cls(np.linalg.inv(t1).dot(t2))", "E18.frame", "Transformation.from_points")
V("from_points solves the target scale from the last source", "C08", TRANS, "        d2 = np.linalg.solve(m2, b[-1])", "        d2 = np.linalg.solve(m2, a[-1])", "E18.frame", "Transformation.from_points")
V("from_points stacks the points as rows", "C08", TRANS, "        m1 = np.column_stack(a[:-1])\n", "        m1 = np.array(a[:-1])\n", "E18.frame", "Transformation.from_points")
V("from_points without the scale of the sources", "C08", TRANS, "        t1 = m1.dot(np.diag(d1))\n", "        t1 = m1\n", "E18.frame", "Transformation.from_points")
V("from_points_and_conics pairs the third points the wrong way round", "C08", TRANS, "        return cls.from_points((a1, a2), (b1, b2), (c1, c2), (d1, d2))", "        return cls.from_points((a1, a2), (b1, b2), (c2, c1), (d1, d2))",
  "E18.pairs", "Transformation.from_points_and_conics")


# ------------------------------------------------------------------------------------------------ parametrised quadrics as polynomial tables (E19)
V("Sphere: radius term with the wrong sign", "C13", CURVE, "        m[-1, -1] = c[:-1].dot(c[:-1]) - radius**2", "        m[-1, -1] = c[:-1].dot(c[:-1]) + radius**2", "E19", "Sphere.__init__", quick=True)
V("Sphere: centre taken from the raw homogeneous coordinates", "C13", CURVE, "        c = -center.normalized_array\n        m = np.eye(center.shape[0]", "        c = -center.array\n        m = np.eye(center.shape[0]",
  "E19", "Sphere.__init__")
V("Sphere: constant term from all homogeneous coordinates", "C13", CURVE, "        m[-1, -1] = c[:-1].dot(c[:-1]) - radius**2", "        m[-1, -1] = c.dot(c) - radius**2", "E19", "Sphere.__init__")
V("twin: Sphere filled block by block", "C13", CURVE, "        m[-1, :] = c\n        m[:, -1] = c\n        m[-1, -1] = c[:-1].dot(c[:-1]) - radius**2",
  "        m[-1, :-1] = c[:-1]\n        m[:-1, -1] = c[:-1]\n        p = c[:-1]\n        m[-1, -1] = p.dot(p) - radius * radius", "silent")
V("Ellipse: horizontal and vertical radius exchanged", "C13", CURVE, "        r = np.array([vradius**2, hradius**2, 1])", "        r = np.array([hradius**2, vradius**2, 1])", "E19", "Ellipse.__init__")
V("Ellipse: radii not squared", "C13", CURVE, "        r = np.array([vradius**2, hradius**2, 1])", "        r = np.array([vradius, hradius, 1])", "E19", "Ellipse.__init__")
V("Ellipse: constant term without the correction for the homogeneous coordinate", "C13", CURVE, "        m[2, 2] = d.dot(c) - (r[0] * r[1] + 1)", "        m[2, 2] = d.dot(c) - r[0] * r[1]", "E19", "Ellipse.__init__")
V("twin: Ellipse without the determinant normalisation", "C13", CURVE, "        m = m / (np.prod(np.maximum(r[:2], 1))) ** (2 / 3)\n", "", "silent")
V("Circle: passes the diameter as the vertical radius", "C13", CURVE, "        super().__init__(center, radius, radius, **kwargs)", "        super().__init__(center, radius, 2 * radius, **kwargs)", "E19", "Circle.__init__")
V("Cone: opening term with the wrong sign", "C13", CURVE, "            m[2:, 2:] *= -c", "            m[2:, 2:] *= c", "E19", "Cone.__init__")
V("Cone: constant term linear in the height of the vertex", "C13", CURVE, "v[2] ** 2 * c)", "v[2] * c)", "E19", "Cone.__init__")
V("Cone: the cylinder keeps the vertex at infinity as its centre", "C13", CURVE, "            v = base_center.normalized_array\n", "            v = vertex.normalized_array\n", "E19", "Cone.__init__")
V("twin: Cone with the opening applied entry by entry", "C13", CURVE, "            m[2:, 2:] *= -c", "            m[2, 2] *= -c\n            m[2, 3] *= -c\n            m[3, 2] *= -c", "silent")


# ------------------------------------------------------------------------------------------------ conics through points, degenerate quadrics, the pencil (E19.pts, E19.deg)
V("from_points: one determinant weight taken with the wrong point", "C13", CURVE, "        bde = det([b, d, e])\n", "        bde = det([b, c, e])\n", "E19.pts", "Conic.from_points")
V("from_points: cross products pair the points the other way", "C13", CURVE, "outer(np.cross(a, c), np.cross(b, d))", "outer(np.cross(a, b), np.cross(c, d))", "E19.pts", "Conic.from_points")
V("from_points: matrix not symmetrised", "C13", CURVE, "        return Conic(np.real_if_close(m + m.T), normalize_matrix=True)", "        return Conic(np.real_if_close(m), normalize_matrix=True)", "E19.pts", "Conic.from_points")
V("twin: from_points with the symmetrisation in a local", "C13", CURVE, "        return Conic(np.real_if_close(m + m.T), normalize_matrix=True)", "        sym = m.T + m\n        return Conic(np.real_if_close(sym), normalize_matrix=True)", "silent")
V("from_crossratio: second pair of joins exchanged", "C13", CURVE, "        matrix = outer(ac, bd) - cr * outer(ad, bc)", "        matrix = outer(ac, bc) - cr * outer(ad, bd)", "E19.pts", "Conic.from_crossratio")
V("from_crossratio: a row of the adjugate instead of a column", "C13", CURVE, "        ac = adjugate([np.ones(3), a.array, c.array])[:, 0]", "        ac = adjugate([np.ones(3), a.array, c.array])[0, :]", "E19.pts", "Conic.from_crossratio")
V("from_lines: antisymmetrised", "C15", CURVE, "        m = outer(g.array, h.array)\n        m += m.T", "        m = outer(g.array, h.array)\n        m -= m.T", "E19.deg", "Conic.from_lines", quick=True)
V("from_planes: not symmetrised", "C15", CURVE, "        m = outer(e.array, f.array)\n        m += m.T\n", "        m = outer(e.array, f.array)\n", "E19.deg", "QuadricTensor.from_planes")
V("from_lines: one line used twice", "C15", CURVE, "        m = outer(g.array, h.array)\n        m += m.T", "        m = outer(g.array, g.array)\n        m += m.T", "E19.deg", "Conic.from_lines")
V("twin: from_lines as the sum of the two outer products", "C15", CURVE, "        m = outer(g.array, h.array)\n        m += m.T", "        m = outer(g.array, h.array) + outer(h.array, g.array)", "silent")
V("pencil: the root multiplies the other conic", "C15", CURVE, "                c = Conic(sol[0] * self.array + other.array, is_dual=self.is_dual, copy=False)", "                c = Conic(self.array + sol[0] * other.array, is_dual=self.is_dual, copy=False)",
  "E19.deg", "Conic.intersect")
V("pencil: the two middle coefficients exchanged", "C15", CURVE, "                sol = roots([alpha, beta, gamma, delta])", "                sol = roots([alpha, gamma, beta, delta])", "E19.deg", "Conic.intersect")
V("pencil: a mixed determinant with a repeated row", "C15", CURVE, "                beta = det([a1, a2, b3]) + det([a1, b2, a3]) + det([b1, a2, a3])", "                beta = det([a1, a2, b3]) + det([a1, b2, a3]) + det([b1, a2, a2])", "E19.deg", "Conic.intersect")
V("twin: the pencil parametrised from the other end", "C15", CURVE, "                sol = roots([alpha, beta, gamma, delta])\n\n                c = Conic(sol[0] * self.array + other.array, is_dual=self.is_dual, copy=False)",
  "                sol = roots([delta, gamma, beta, alpha])\n\n                c = Conic(self.array + sol[0] * other.array, is_dual=self.is_dual, copy=False)", "silent")


# ------------------------------------------------------------------------------------------------ K7 across a helper that receives the dtype
_EMBED_BODY_OLD = "    result = np.eye(n, dtype=dtype)\n\n    if matrix is not None:\n        result[:-1, :-1] = matrix\n\n    result[:-1, -1] = offset\n    return Transformation(result, copy=False)\n"
_EMBED_BODY_NEW = "    return Transformation(_embed(matrix, offset, n, dtype), copy=False)\n"
_EMBED_DEF = ("def _embed(matrix, offset, n, dtype):\n    result = np.eye(n, dtype=dtype)\n    if matrix is not None:\n        result[:-1, :-1] = matrix\n    result[:-1, -1] = offset\n"
              "    return result\n\n\ndef rotation(angle: float")
V("twin: the affine matrix assembled in a helper that receives the dtype", "C08", TRANS, _EMBED_BODY_OLD, _EMBED_BODY_NEW, "silent", extra=[(TRANS, "def rotation(angle: float", _EMBED_DEF)])
V("the affine matrix assembled in a helper, the caller takes the dtype from the matrix only", "C08", TRANS, _EMBED_BODY_OLD, _EMBED_BODY_NEW, "E6.K7", "affine_transform",
  extra=[(TRANS, "def rotation(angle: float", _EMBED_DEF), (TRANS, "        dtype = np.promote_types(dtype, matrix.dtype)", "        dtype = matrix.dtype")])


# ------------------------------------------------------------------------------------------------ rotation about an axis as a literal matrix (E18.orth)
_ROT3_OLD = ("    d = TensorDiagram(*[(Tensor(a, copy=False), e) for _ in range(dimension - 2)])\n    u = d.calculate().array\n    v = outer(a, a)\n"
             "    result = np.cos(angle) * np.eye(dimension) + np.sin(angle) * u + (1 - np.cos(angle)) * v\n")


def _quaternion(entry12: str) -> str:
    return ("    w = np.cos(angle / 2)\n    x, y, z = np.sin(angle / 2) * a\n"
            "    result = np.array(\n        [\n"
            "            [1 - 2 * (y * y + z * z), 2 * (x * y + z * w), 2 * (x * z - y * w)],\n"
            f"            [2 * (x * y - z * w), 1 - 2 * (x * x + z * z), {entry12}],\n"
            "            [2 * (x * z + y * w), 2 * (y * z - x * w), 1 - 2 * (x * x + y * y)],\n"
            "        ]\n    )\n")


V("rotation about an axis as the unit-quaternion matrix with one wrong entry", "C08", TRANS, _ROT3_OLD, _quaternion("2 * (x * z + x * w)"), "E18.orth", "rotation")
V("twin: rotation about an axis as the unit-quaternion matrix", "C08", TRANS, _ROT3_OLD, _quaternion("2 * (y * z + x * w)"), "silent")
V("rotation about an axis: half angle in the cosine only", "C08", TRANS, _ROT3_OLD, _quaternion("2 * (y * z + x * w)").replace("np.sin(angle / 2)", "np.sin(angle)"), "E18.orth", "rotation")


# ------------------------------------------------------------------------------------------------ the bounded operand carried in a local (E10.F7)
F7_OLD = '        if self.dim == 2:\n            return list(distinct(self.edges.intersect(other)))\n\n        if isinstance(other, SegmentTensor):\n            try:\n                result = self._plane.meet(other._line)\n            except LinearDependenceError as e:\n                if isinstance(other, SegmentCollection):\n                    other = cast(SegmentTensor, other[~e.dependent_values])\n                result = cast(PlaneTensor, self._plane[~e.dependent_values]).meet(other._line)\n                return list(\n                    result[\n                        PolygonCollection.from_tensor(self[~e.dependent_values]).contains(result)\n                        & other.contains(result)\n                    ]\n                )\n            else:\n                return list(result[self.contains(result) & other.contains(result)])\n\n        try:\n            result = self._plane.meet(other)\n        except LinearDependenceError as e:\n            if other.free_indices > 0:\n                other = other[~e.dependent_values]\n            result = cast(PlaneTensor, self._plane[~e.dependent_values]).meet(other)\n            return list(result[PolygonCollection.from_tensor(self[~e.dependent_values]).contains(result)])\n        else:\n            return list(result[self.contains(result)])\n'
F7_NEW = '        if self.dim == 2:\n            return list(distinct(self.edges.intersect(other)))\n\n        # A segment is intersected through its supporting line, so lines and segments share one code path;\n        # the points that are found are tested against the segment at the end.\n        segment = other if isinstance(other, SegmentTensor) else None\n        line = other if segment is None else segment._line\n\n        polygons: PolygonTensor = self\n\n        try:\n            result = self._plane.meet(line)\n        except LinearDependenceError as e:\n            # The planes that contain the line have no single point in common with it: drop these polygons\n            # and intersect the remaining ones. With one line (segment) per polygon, the partners of the\n            # dropped polygons have to go as well to keep the shapes aligned.\n            keep = ~e.dependent_values\n            polygons = PolygonCollection.from_tensor(self[keep])\n            if line.free_indices > 0:\n                line = cast(LineTensor, line[keep])\n            segment = cast(SegmentTensor, segment[keep]) if isinstance(segment, SegmentCollection) else None\n            result = cast(PlaneTensor, self._plane[keep]).meet(line)\n\n        ind = polygons.contains(result)\n        if segment is not None:\n            ind = ind & segment.contains(result)\n\n        return list(result[ind])\n'
F7_TWIN = '        if self.dim == 2:\n            return list(distinct(self.edges.intersect(other)))\n\n        # A segment is intersected through its supporting line, so lines and segments share one code path;\n        # the points that are found are tested against the segment at the end.\n        segment = other if isinstance(other, SegmentTensor) else None\n        line = other if segment is None else segment._line\n\n        polygons: PolygonTensor = self\n\n        try:\n            result = self._plane.meet(line)\n        except LinearDependenceError as e:\n            # The planes that contain the line have no single point in common with it: drop these polygons\n            # and intersect the remaining ones. With one line (segment) per polygon, the partners of the\n            # dropped polygons have to go as well to keep the shapes aligned.\n            keep = ~e.dependent_values\n            polygons = PolygonCollection.from_tensor(self[keep])\n            if line.free_indices > 0:\n                line = cast(LineTensor, line[keep])\n            segment = cast(SegmentTensor, segment[keep]) if isinstance(segment, SegmentCollection) else segment\n            result = cast(PlaneTensor, self._plane[keep]).meet(line)\n\n        ind = polygons.contains(result)\n        if segment is not None:\n            ind = ind & segment.contains(result)\n\n        return list(result[ind])\n'
V("intersect restructured around one try statement: the single segment is dropped in the handler", "C18", SHAPES, F7_OLD, F7_NEW, "E10.F7", "PolygonTensor.intersect", quick=True)
V("twin: the same restructuring keeping the single segment", "C18", SHAPES, F7_OLD, F7_TWIN, "silent")


# ------------------------------------------------------------------------------------------------ the cone with a general axis (E19, after the repair D25)
_CONE_ANGLE = "            a = np.arctan2(np.linalg.norm(n), d[2])\n"
V("Cone: rotation about the normal taken the other way round", "C13", CURVE, "            n = np.cross([0, 0, 1], d)\n", "            n = np.cross(d, [0, 0, 1])\n", "E19", "Cone.__init__")
V("Cone: the complement of the angle between the axes", "C13", CURVE, _CONE_ANGLE, "            a = np.arctan2(d[2], np.linalg.norm(n))\n", "E19", "Cone.__init__")
V("Cone: the acute angle between the axes (wrong for axes pointing downwards)", "C13", CURVE, _CONE_ANGLE, "            a = np.arctan2(np.linalg.norm(n), np.abs(d[2]))\n", "E19", "Cone.__init__")
V("Cone: the angle from the sine only (arcsin covers a quarter turn)", "C13", CURVE, _CONE_ANGLE, "            a = np.arcsin(min(np.linalg.norm(n) / np.linalg.norm(d), 1.0))\n", "E19", "Cone.__init__")
V("twin: Cone with the angle from the cosine", "C13", CURVE, _CONE_ANGLE, "            a = np.arccos(d[2] / np.linalg.norm(d))\n", "silent")
V("twin: Cone with the axis direction reversed (the double cone is symmetric)", "C13", CURVE, "            d = base_center.normalized_array[:3] - v[:3]\n", "            d = v[:3] - base_center.normalized_array[:3]\n", "silent")
V("Cone: conjugation of the quadric matrix with the transposes exchanged", "C13", CURVE, "            m = t.array.T.dot(m).dot(t.array)", "            m = t.array.dot(m).dot(t.array.T)", "E19", "Cone.__init__")
V("Cone: rotation about the origin instead of the vertex", "C13", CURVE, "            t = translation(v) * t * translation(-v)\n", "", "E19", "Cone.__init__")
V("D25 regression: Cone aligned by the Laguerre angle about the normal of the join", "C13", CURVE,
  "            n = np.cross([0, 0, 1], d)\n" + _CONE_ANGLE + "            t = rotation(a, axis=Point(*n))\n",
  "            from geometer.operators import angle\n            a = angle(axis, new_axis)\n            e = axis.join(new_axis)\n            t = rotation(a, axis=Point(*e.array[:3]))\n", "missed")


# ------------------------------------------------------------------------------------------------ E19: buffers written through helpers, tuple targets, loops (first false alarms of the rule)
_BORDER_DEF = "def _border(m, v):\n    m[-1, :] = v\n    m[:, -1] = v\n\n\nclass Sphere(Quadric):"
V("twin: Sphere with the border written by a helper that fills the buffer in place", "C13", CURVE, "        m[-1, :] = c\n        m[:, -1] = c\n        m[-1, -1] = c[:-1].dot(c[:-1]) - radius**2",
  "        _border(m, c)\n        m[-1, -1] = c[:-1].dot(c[:-1]) - radius**2", "silent", extra=[(CURVE, "class Sphere(Quadric):", _BORDER_DEF)])
V("Sphere with the border written by an in-place helper that is handed the centre with the wrong sign", "C13", CURVE, "        m[-1, :] = c\n        m[:, -1] = c\n        m[-1, -1] = c[:-1].dot(c[:-1]) - radius**2",
  "        _border(m, -c)\n        m[-1, -1] = c[:-1].dot(c[:-1]) - radius**2", "E19", "Sphere.__init__", extra=[(CURVE, "class Sphere(Quadric):", _BORDER_DEF)])
V("twin: Ellipse with the diagonal stored through a tuple of item targets", "C13", CURVE, "        m[[0, 1], [0, 1]] = r[:2]\n", "        m[0, 0], m[1, 1] = r[0], r[1]\n", "silent")
V("twin: Sphere with the last row written in a loop", "C13", CURVE, "        m[-1, :] = c\n        m[:, -1] = c\n", "        for k in range(len(c)):\n            m[-1, k] = c[k]\n        m[:, -1] = c\n", "silent")
V("twin: Sphere with the last column written through a view", "C13", CURVE, "        m[:, -1] = c\n        m[-1, -1] = c[:-1].dot(c[:-1]) - radius**2", "        col = m[:, -1]\n        col[:] = c\n        col[-1] = c[:-1].dot(c[:-1]) - radius**2", "silent")
V("twin: Sphere built on an alias of the buffer", "C13", CURVE, "        m[-1, :] = c\n        m[:, -1] = c\n", "        k = m\n        k[-1, :] = c\n        k[:, -1] = c\n", "silent")
V("twin: from_points that patches an entry of the source matrix afterwards (unread write)", "C08", TRANS, "        d1 = np.linalg.solve(m1, a[-1])  # type: ignore[arg-type]\n",
  "        m1[0, 0] = m1[0, 0] + 0\n        d1 = np.linalg.solve(m1, a[-1])  # type: ignore[arg-type]\n", "silent")


# ------------------------------------------------------------------------------------------------ the closed form of the cross ratio (E19.cr)
OPERATORS = "geometer/operators.py"
V("crossratio returns the reciprocal", "C11", OPERATORS, "        return ac * bd / (ad * bc)", "        return ad * bc / (ac * bd)", "E19.cr", "crossratio", quick=True)
V("crossratio pairs a with b in one determinant", "C11", OPERATORS, "    ad = det(np.stack([*o, a, d], axis=-2))", "    ad = det(np.stack([*o, a, b], axis=-2))", "E19.cr", "crossratio")
V("crossratio with c and d exchanged in the numerator only", "C11", OPERATORS, "    bd = det(np.stack([*o, b, d], axis=-2))", "    bd = det(np.stack([*o, b, c], axis=-2))", "E19.cr", "crossratio")
V("crossratio reduces the points with the basis (a, c)", "C11", OPERATORS, "        basis = np.stack([a.array, b.array], axis=-2)", "        basis = np.stack([a.array, c.array], axis=-2)", "silent")
V("twin: crossratio as a product of two quotients", "C11", OPERATORS, "        return ac * bd / (ad * bc)", "        return (ac / ad) * (bd / bc)", "silent")
V("twin: crossratio with both determinant pairs transposed", "C11", OPERATORS, "    ac = det(np.stack([*o, a, c], axis=-2))\n    bd = det(np.stack([*o, b, d], axis=-2))",
  "    ac = det(np.stack([*o, c, a], axis=-2))\n    bd = det(np.stack([*o, d, b], axis=-2))", "silent")


# ------------------------------------------------------------------------------------------------ area and centroid of the planar polygon (E19.poly)
V("centroid weights the fan triangles by absolute areas", "C17", SHAPES, "weights = [det(self._normalized_projection()[[0, i, i + 1]]) / 2 for i in range(1, points.shape[0] - 1)]",
  "weights = [np.abs(det(self._normalized_projection()[[0, i, i + 1]])) / 2 for i in range(1, points.shape[0] - 1)]", "E19.poly", "Polygon.centroid", quick=True)
V("centroid of the fan triangles taken over two of their vertices", "C17", SHAPES, "centroids = [np.average(points[[0, i, i + 1], :-1], axis=0) for i in range(1, points.shape[0] - 1)]",
  "centroids = [np.average(points[[i, i + 1], :-1], axis=0) for i in range(1, points.shape[0] - 1)]", "E19.poly", "Polygon.centroid")
V("area leaves out the last triangle of the fan", "C17", SHAPES, "for i in range(1, points.shape[-2] - 1))\n        return 1 / 2 * np.abs(a)", "for i in range(1, points.shape[-2] - 2))\n        return 1 / 2 * np.abs(a)",
  "E19.poly", "PolygonTensor.area")
V("area without the factor 1/2", "C17", SHAPES, "        return 1 / 2 * np.abs(a)", "        return np.abs(a)", "E19.poly", "PolygonTensor.area")
V("twin: area as half the absolute shoelace sum written the other way round", "C17", SHAPES, "        return 1 / 2 * np.abs(a)", "        return np.abs(a) / 2", "silent")
V("twin: centroid with the fan anchored at the last vertex", "C17", SHAPES,
  "        centroids = [np.average(points[[0, i, i + 1], :-1], axis=0) for i in range(1, points.shape[0] - 1)]\n        weights = [det(self._normalized_projection()[[0, i, i + 1]]) / 2 for i in range(1, points.shape[0] - 1)]",
  "        centroids = [np.average(points[[-1, i, i + 1], :-1], axis=0) for i in range(0, points.shape[0] - 2)]\n        weights = [det(self._normalized_projection()[[-1, i, i + 1]]) / 2 for i in range(0, points.shape[0] - 2)]", "silent")
_CENTROID_OLD = ("        centroids = [np.average(points[[0, i, i + 1], :-1], axis=0) for i in range(1, points.shape[0] - 1)]\n"
                 "        weights = [det(self._normalized_projection()[[0, i, i + 1]]) / 2 for i in range(1, points.shape[0] - 1)]\n")
_CENTROID_VEC = ("        projection = self._normalized_projection()\n        triangles = [[0, i, i + 1] for i in range(1, points.shape[0] - 1)]\n"
                 "        centroids = np.average(points[triangles, :-1], axis=1)\n        weights = {w} / 2\n")
V("centroid vectorised over the fan, weighted by absolute areas", "C17", SHAPES, _CENTROID_OLD, _CENTROID_VEC.format(w="np.abs(det(projection[triangles]))"), "E19.poly", "Polygon.centroid")
V("twin: centroid vectorised over the fan with signed areas", "C17", SHAPES, _CENTROID_OLD, _CENTROID_VEC.format(w="det(projection[triangles])"), "silent")
V("Simplex.volume: Cayley-Menger normalisation with 2**n", "C17", SHAPES, "(math.factorial(n - 1) ** 2 * 2 ** (n - 1))", "(math.factorial(n - 1) ** 2 * 2**n)", "E19.simplex", "Simplex.volume")
V("Simplex.volume: Cayley-Menger matrix without the border of ones in the last row", "C17", SHAPES, "        m[-1, :-1] = 1\n        m[:-1, -1] = 1\n", "        m[:-1, -1] = 1\n", "E19.simplex", "Simplex.volume")
V("Simplex.volume: determinant branch divided by n!", "C17", SHAPES, "            return 1 / math.factorial(n - 1) * abs(det(points))", "            return 1 / math.factorial(n) * abs(det(points))", "E19.simplex", "Simplex.volume")
V("twin: Simplex.volume with the squared distances summed by einsum-free dot products", "C17", SHAPES, "        distances = np.sum(distances**2, axis=1)", "        distances = np.sum(distances * distances, axis=1)", "silent")
V("D26 regression: the pencil of lines represented by the base points of the lines", "C11", OPERATORS,
  "        t = PlaneCollection.from_array(np.conj(from_point.array))\n        a, b, c, d = a.meet(t), b.meet(t), c.meet(t), d.meet(t)\n",
  "        a, b, c, d = a.base_point, b.base_point, c.base_point, d.base_point\n", "missed")
V("the pencil of lines cut with the line y = 0 (0/0 for a vertex on the x-axis)", "C11", OPERATORS,
  "        t = PlaneCollection.from_array(np.conj(from_point.array))\n", "        t = PlaneCollection.from_array(np.array([0, 1, 0]))\n", "E19.cr", "crossratio")
V("the pencil of lines cut with the line x + y = 0 (0/0 for a vertex on that line: not a coordinate hyperplane)", "C11", OPERATORS,
  "        t = PlaneCollection.from_array(np.conj(from_point.array))\n", "        t = PlaneCollection.from_array(np.array([1, 1, 0]))\n", "missed")
V("the pencil of lines cut with the line x = 0 (0/0 for a vertex on the y-axis)", "C11", OPERATORS,
  "        t = PlaneCollection.from_array(np.conj(from_point.array))\n", "        t = PlaneCollection.from_array(np.array([1, 0, 0]))\n", "E19.cr", "crossratio")


# ------------------------------------------------------------------------------------------------ from_points evaluated in a centred frame (E19.pts with a point at infinity)
_FP_OLD = ("        a, b, c, d, e = (\n            a.normalized_array,\n            b.normalized_array,\n            c.normalized_array,\n            d.normalized_array,\n"
           "            e.normalized_array,\n        )\n")
_FP_RET_OLD = "        return Conic(np.real_if_close(m + m.T), normalize_matrix=True)"


def _fp_centred(shift: str) -> list:
    new1 = ("        pts = np.stack([a.normalized_array, b.normalized_array, c.normalized_array, d.normalized_array, e.normalized_array])\n"
            "        t = np.append(np.mean(pts[:, :-1], axis=0), 0)\n" + f"        a, b, c, d, e = {shift}\n")
    new2 = ("        m = m + m.T\n        s = np.eye(3, dtype=m.dtype)\n        s[:, -1] -= t\n        m = matmul(matmul(s, m, transpose_a=True), s)\n"
            "        return Conic(np.real_if_close(m), normalize_matrix=True)")
    return [(CURVE, _FP_OLD, new1), (CURVE, _FP_RET_OLD, new2)]


V("from_points in a centred frame: the shift is subtracted from points at infinity too", "C13", CURVE, _FP_OLD, _fp_centred("pts - t")[0][2], "E19.pts", "Conic.from_points",
  extra=[_fp_centred("pts - t")[1]])
V("twin: from_points in a centred frame, the shift scaled by the homogeneous coordinate", "C13", CURVE, _FP_OLD, _fp_centred("pts - pts[:, -1:] * t")[0][2], "silent",
  extra=[_fp_centred("pts - t")[1]])


# ------------------------------------------------------------------------------------------------ the decomposition itself (E19.comp)
_COMP_NEW = ("            pairs = np.array([np.delete(np.arange(n), i) for i in combinations(range(n), n - 2)])\n"
             "            minors = det(self.array[..., pairs[:, None, :, None], pairs[None, :, None, :]])\n"
             "            diagonal = np.diagonal(minors, axis1=-2, axis2=-1)\n"
             "            i = np.argmax(np.abs(diagonal), axis=-1)\n"
             "            beta = csqrt(-diagonal[(*indices, i)])\n"
             "            p = -minors[(*indices, slice(None), i)] / np.where(beta != 0, beta, -1)[..., None]\n")
_COMP_OLD = ("            ind = np.indices((n, n))\n            ind = np.stack(\n"
             "                [np.delete(np.delete(ind, i, axis=1), i, axis=2) for i in combinations(range(n), n - 2)], axis=1\n            )\n"
             "            minors = det(self.array[..., ind[0], ind[1]])\n            p = csqrt(-minors)  # type: ignore[arg-type]\n")
V("D27 regression: the Pluecker coordinates of a pair of planes as square roots of the principal minors", "C15", CURVE, _COMP_NEW, _COMP_OLD, "E19.comp", "QuadricTensor.components")
V("components of a pair of lines from the square roots of the diagonal of the adjugate", "C15", CURVE,
  "            p = -b[(*indices, slice(None), i)] / np.where(beta != 0, beta, -1)[..., None]\n\n        else:",
  "            p = csqrt(-np.diagonal(b, axis1=-2, axis2=-1))\n\n        else:", "E19.comp", "QuadricTensor.components")
V("components: the skew symmetric correction subtracted and the column taken for both components", "C15", CURVE,
  "        p, q = t[indices + i[:1]], t[(*indices, slice(None), i[1])]", "        p, q = t[(*indices, slice(None), i[0])], t[(*indices, slice(None), i[1])]", "E19.comp", "QuadricTensor.components")
V("twin: components with the correction subtracted", "C15", CURVE, "        t = self.array + m\n", "        t = self.array - m\n", "silent")


# ------------------------------------------------------------------------------------------------ the point distance in the plane (E19.dist)
V("point distance with the factor 2", "C09", OPERATORS, "        return 4 * np.abs(np.sqrt(pqi * pqj) / (pij * qij))", "        return 2 * np.abs(np.sqrt(pqi * pqj) / (pij * qij))", "E19.dist", "_point_dist")
V("point distance with the bracket [p, q, I] taken twice", "C09", OPERATORS, "    pqj = det(np.stack([p, q, j], axis=-2))", "    pqj = det(np.stack([p, q, i], axis=-2))", "E19.dist", "_point_dist")
V("point distance normalised by [p, I, J] only", "C09", OPERATORS, "        return 4 * np.abs(np.sqrt(pqi * pqj) / (pij * qij))", "        return 4 * np.abs(np.sqrt(pqi * pqj) / (pij * pij))", "E19.dist", "_point_dist")
V("twin: point distance with the magnitude of numerator and denominator taken separately", "C09", OPERATORS, "        return 4 * np.abs(np.sqrt(pqi * pqj) / (pij * qij))",
  "        return 4 * np.abs(np.sqrt(pqj * pqi)) / np.abs(qij * pij)", "silent")


# ------------------------------------------------------------------------------------------------ join and meet of 1-tensors (E19.join)
_JM_OLD = "        result = TensorDiagram(*[(o, e) if covariant else (e, o) for o in args]).calculate()"
V("join/meet contracts the first argument with every index of the epsilon tensor", "C01", "geometer/point.py", _JM_OLD,
  "        result = TensorDiagram(*[(o.copy(), e) if covariant else (e, o.copy()) for o in [args[0]] * len(args)]).calculate()", "E19.join", "_join_meet_duality")
V("join/meet leaves the last argument out", "C01", "geometer/point.py", _JM_OLD,
  "        result = TensorDiagram(*[(o, e) if covariant else (e, o) for o in args[:-1]]).calculate()", "E19.join", "_join_meet_duality", quick=True)
V("twin: join/meet contracts the arguments in reverse order", "C01", "geometer/point.py", _JM_OLD,
  "        result = TensorDiagram(*[(o, e) if covariant else (e, o) for o in reversed(args)]).calculate()", "silent")


# ------------------------------------------------------------------------------------------------ parallels and mirror images of the plane (E19.metric)
V("mirror at a line joins both auxiliary points with the same circular point", "C10", POINT, "        m2 = join(p2, I, _normalize_result=False)", "        m2 = join(p2, J, _normalize_result=False)", "E19.metric", "LineTensor.mirror", quick=True)
V("mirror at a line with the auxiliary lines exchanged", "C10", POINT, "        p1 = l.meet(l1)\n        p2 = l.meet(l2)", "        p1 = l.meet(l2)\n        p2 = l.meet(l1)", "E19.metric", "LineTensor.mirror")
V("parallel through the intersection with a finite line", "C10", POINT, "        x = self.meet(infty_hyperplane(self.dim))\n        return join(x, through)", "        x = self.meet(Line(0, 1, 0))\n        return join(x, through)", "E19.metric", "SubspaceTensor.parallel")
V("twin: parallel with the arguments of join exchanged", "C10", POINT, "        x = self.meet(infty_hyperplane(self.dim))\n        return join(x, through)", "        x = self.meet(infty_hyperplane(self.dim))\n        return join(through, x)", "silent")
V("twin: mirror with the roles of I and J exchanged throughout", "C10", POINT,
  "        l1 = join(I, pt, _normalize_result=False)\n        l2 = join(J, pt, _normalize_result=False)\n        p1 = l.meet(l1)\n        p2 = l.meet(l2)\n        m1 = join(p1, J, _normalize_result=False)\n        m2 = join(p2, I, _normalize_result=False)",
  "        l1 = join(J, pt, _normalize_result=False)\n        l2 = join(I, pt, _normalize_result=False)\n        p1 = l.meet(l1)\n        p2 = l.meet(l2)\n        m1 = join(p1, I, _normalize_result=False)\n        m2 = join(p2, J, _normalize_result=False)", "silent")


# ------------------------------------------------------------------------------------------------ degenerate arguments of join / meet (E19.join, degenerate part)
V("skew lines of 3-space are joined without an error", "C02", POINT, "            elif intersect_lines or n == 4:", "            elif intersect_lines and n == 4:", "E19.join", "_join_meet_duality")
V("single dependent arguments are not reported", "C02", POINT, "        if result.free_indices == 0 and is_zero:", "        if result.free_indices > 0 and is_zero:", "E19.join", "_join_meet_duality",
  extra=[(POINT, "        elif np.any(is_zero):", "        elif result.free_indices > 0 and np.any(is_zero):")])
V("twin: single dependent arguments reported by the second raise", "C02", POINT, "        if result.free_indices == 0 and is_zero:", "        if result.free_indices > 0 and is_zero:", "silent")
V("twin: the dependence test written with the free indices first", "C02", POINT, "        if result.free_indices == 0 and is_zero:", "        if is_zero and result.free_indices == 0:", "silent")


# ------------------------------------------------------------------------------------------------ the action as values (E19.act)
TRANS = "geometer/transformation.py"
V("inverse() returns the transposed inverse (C07)", "C07", TRANS, "        return type(self)(inv(self.array), copy=False)", "        return type(self)(np.swapaxes(inv(self.array), -1, -2), copy=False)", "E19.act", "Tensor.__apply__", quick=True)
V("inverse() returns the transposed inverse (C06)", "C06", TRANS, "        return type(self)(inv(self.array), copy=False)", "        return type(self)(np.swapaxes(inv(self.array), -1, -2), copy=False)", "E19.act", "Tensor.__apply__", quick=True)
V("twin: inverse() through a local (C07)", "C07", TRANS, "        return type(self)(inv(self.array), copy=False)", "        inverted = inv(self.array)\n        return type(self)(inverted, copy=False)", "silent")


# ------------------------------------------------------------------------------------------------ helpers that raise, renamed helpers (false alarms of the refactoring matrix)
_DEP_OLD = '''    if check_dependence:
        is_zero = result.is_zero()
        if result.free_indices == 0 and is_zero:
            raise LinearDependenceError("Arguments are not linearly independent.")
        elif np.any(is_zero):
            raise LinearDependenceError("Some arguments are not linearly independent.", is_zero)
'''
_DEP_HELPER = '''

def _raise_if_dependent(result: Tensor) -> None:
    is_zero = result.is_zero()
    if result.free_indices == 0 and is_zero:
        raise LinearDependenceError("Arguments are not linearly independent.")
    if np.any(is_zero):
        raise LinearDependenceError("Some arguments are not linearly independent.", is_zero)


def _divide_by_power_of_two(array: np.ndarray, power: int) -> np.ndarray:'''
for _p in ("C02", "C01"):
    V(f"twin: the dependence check in a helper that raises ({_p})", _p, "geometer/point.py", _DEP_OLD,
      "    if check_dependence:\n        _raise_if_dependent(result)\n", "silent", quick=(_p == "C02"),
      extra=[("geometer/point.py", "\n\ndef _divide_by_power_of_two(array: np.ndarray, power: int) -> np.ndarray:", _DEP_HELPER)])
    V(f"twin: the normalisation helper made public ({_p})", _p, "geometer/point.py", "_divide_by_power_of_two", "divide_by_power_of_two", "silent", count=2)
V("the dependence check in a helper that raises for collections only", "C02", "geometer/point.py", _DEP_OLD,
  "    if check_dependence:\n        _raise_if_dependent(result)\n", "E19.join", "_join_meet_duality",
  extra=[("geometer/point.py", "\n\ndef _divide_by_power_of_two(array: np.ndarray, power: int) -> np.ndarray:",
          _DEP_HELPER.replace("    if result.free_indices == 0 and is_zero:\n        raise LinearDependenceError(\"Arguments are not linearly independent.\")\n", "")
          .replace("    if np.any(is_zero):", "    if result.free_indices > 0 and np.any(is_zero):"))])


# ------------------------------------------------------------------------------------------------ pencils with the vertex at infinity, repeated arguments (E19.cr)
OPS = "geometer/operators.py"
_TRANSV = "        t = PlaneCollection.from_array(np.conj(from_point.array))\n        a, b, c, d = a.meet(t), b.meet(t), c.meet(t), d.meet(t)\n"
V("concurrent lines reduced to their points at infinity, seen from the vertex", "C11", OPS, _TRANSV,
  "        a, b, c, d = a.direction, b.direction, c.direction, d.direction\n", "E19.cr", "crossratio", quick=True)
V("twin: the transversal scaled by two", "C11", OPS, _TRANSV,
  "        t = PlaneCollection.from_array(2 * np.conj(from_point.array))\n        a, b, c, d = a.meet(t), b.meet(t), c.meet(t), d.meet(t)\n", "silent")
V("the shortcut for equal arguments only after the pencil is reduced", "C11", OPS, "    if a == b:\n        return np.ones(a.shape[: a.free_indices])\n\n    if (\n", "    if (\n", "E19.cr", "crossratio",
  extra=[(OPS, "    if a.dim > 2 or (from_point is None and a.dim == 2):\n        if not np.all(is_collinear(a, b, c, d)):",
          "    if a == b:\n        return np.ones(a.shape[: a.free_indices])\n\n    if a.dim > 2 or (from_point is None and a.dim == 2):\n        if not np.all(is_collinear(a, b, c, d)):")])


# ------------------------------------------------------------------------------------------------ buffer typed after the raw representative (E6.K7w)
V("Sphere matrix typed after the raw centre", "C03", CURVE, "m = np.eye(center.shape[0], dtype=np.promote_types(c.dtype, type(radius)))",
  "m = np.eye(center.shape[0], dtype=np.promote_types(center.dtype, type(radius)))", "E6.K7w", "Sphere.__init__", quick=True)
V("twin: Sphere matrix typed after the normalised centre, written out", "C03", CURVE, "m = np.eye(center.shape[0], dtype=np.promote_types(c.dtype, type(radius)))",
  "m = np.eye(center.shape[0], dtype=np.promote_types(center.normalized_array.dtype, type(radius)))", "silent")
V("twin: Sphere matrix as a floating buffer", "C03", CURVE, "m = np.eye(center.shape[0], dtype=np.promote_types(c.dtype, type(radius)))",
  "m = np.eye(center.shape[0], dtype=np.promote_types(np.float64, center.dtype))", "silent")
V("Ellipse matrix typed after the raw centre", "C03", CURVE, "        m = np.eye(3, dtype=d.dtype)", "        m = np.eye(3, dtype=np.result_type(center.array, r))", "E6.K7w", "Ellipse.__init__")


# ------------------------------------------------------------------------------------------------ the unit axis of rotation from the raw representative (E18.rot)
V("rotation: unit axis from the raw homogeneous coordinates", "C08", TRANS, "    a = axis.normalized_array[:-1]\n", "    a = axis.array[:-1]\n", "E18.rot", "rotation", quick=True)
V("twin: rotation axis through a local for the dehomogenised point", "C08", TRANS, "    a = axis.normalized_array[:-1]\n", "    direction = axis.normalized_array\n    a = direction[:-1]\n", "silent")


# ------------------------------------------------------------------------------------------------ composition (E19.act, C06)
_COMP = "        return TransformationCollection.from_array(matmul(transformation.array, self.array))"
V("composition with the factors exchanged", "C06", TRANS, _COMP, "        return TransformationCollection.from_array(matmul(self.array, transformation.array))", "E19.act", "Tensor.__apply__", quick=True)
V("composition normalised by its bottom-right entry", "C06", TRANS, _COMP,
  "        result = matmul(transformation.array, self.array)\n        return TransformationCollection.from_array(result / result[..., -1:, -1:])", "E19.act", "Tensor.__apply__")
V("twin: composition through a local", "C06", TRANS, _COMP, "        product = matmul(transformation.array, self.array)\n        return TransformationCollection.from_array(product)", "silent")
V("twin: composition as the transposed product of the transposes", "C06", TRANS, _COMP,
  "        product = matmul(self.array, transformation.array, transpose_a=True, transpose_b=True)\n        return TransformationCollection.from_array(np.swapaxes(product, -1, -2))", "silent")
V("negative powers without the inverse", "C06", TRANS, "            return self.inverse().__pow__(-power, modulo)", "            return self.__pow__(-power, modulo)", "E19.act", "Tensor.__apply__")
V("t**0 is t", "C06", TRANS, "        if power == 0:\n            if self.free_indices == 0:\n                return identity(self.dim)", "        if power == 0:\n            if self.free_indices == 0:\n                return self.copy()", "E19.act", "Tensor.__apply__")
V("twin: negative powers through a local", "C06", TRANS, "            return self.inverse().__pow__(-power, modulo)", "            inverse = self.inverse()\n            return inverse.__pow__(-power, modulo)", "silent")
V("power chain with the edge reversed keeps the product (twin)", "C06", "geometer/base.py", "            d.add_edge(cur, prev)", "            d.add_edge(prev, cur)", "silent")


# ------------------------------------------------------------------------------------------------ a matrix divided by its own entry (E6.K11)
V("from_points normalised by the corner entry", "C08", TRANS, "        return cls(t2.dot(np.linalg.inv(t1)))", "        t = t2.dot(np.linalg.inv(t1))\n        return cls(t / t[-1, -1], copy=False)", "E6.K11", "from_points", quick=True)
V("twin: from_points scaled by a constant", "C08", TRANS, "        return cls(t2.dot(np.linalg.inv(t1)))", "        t = t2.dot(np.linalg.inv(t1))\n        return cls(t / 2, copy=False)", "silent")
V("twin: from_points divided by the norm of the matrix", "C08", TRANS, "        return cls(t2.dot(np.linalg.inv(t1)))", "        t = t2.dot(np.linalg.inv(t1))\n        return cls(t / np.linalg.norm(t), copy=False)", "silent")


# ------------------------------------------------------------------------------------------------ tangent / polar / dual as values (E19.polar, C14)
V("is_tangent tests the hyperplane against the quadric itself", "C14", CURVE, "        return self.dual.contains(plane)", "        return self.contains(plane)", "E19.polar", "QuadricTensor", quick=True)
V("dual keeps the dual flag", "C14", CURVE, "        return cls(inv(self.array), is_dual=not self.is_dual, copy=False)", "        return cls(inv(self.array), is_dual=self.is_dual, copy=False)", "E19.polar", "QuadricTensor")
V("is_tangent as a sesquilinear form of the pole", "C14", CURVE, "        return self.dual.contains(plane)",
  "        h = np.expand_dims(plane.array, -1)\n        pole = np.linalg.solve(self.array, h)\n        return np.isclose(np.squeeze(matmul(h, pole, adjoint_a=True), (-2, -1)), 0, atol=EQ_TOL_ABS)", "E19.polar", "QuadricTensor")
V("twin: is_tangent as the bilinear form of the pole", "C14", CURVE, "        return self.dual.contains(plane)",
  "        h = np.expand_dims(plane.array, -1)\n        pole = np.linalg.solve(self.array, h)\n        return np.isclose(np.squeeze(matmul(h, pole, transpose_a=True), (-2, -1)), 0, atol=EQ_TOL_ABS)", "silent")
V("tangent from the conjugated point", "C14", CURVE, "        return PlaneCollection.from_array(matvec(self.array, at.array))", "        return PlaneCollection.from_array(matvec(self.array, np.conj(at.array)))", "E19.polar", "QuadricTensor")
V("twin: tangent through the transposed matrix", "C14", CURVE, "        return PlaneCollection.from_array(matvec(self.array, at.array))", "        return PlaneCollection.from_array(matvec(self.array, at.array, transpose_a=True))", "silent")
V("intersect hands the point pair on as a conic of the same kind", "C14", CURVE, "                p, q = QuadricCollection.from_array(b, is_dual=not self.is_dual).components",
  "                p, q = QuadricCollection.from_array(b, is_dual=self.is_dual).components", "E19.isect", "QuadricTensor.intersect", quick=True)
V("intersect pulls the conic back by a sum instead of a product", "C14", CURVE, "                b = matmul(matmul(m, self.array, transpose_a=True), m)",
  "                b = matmul(m, self.array, transpose_a=True) + matmul(self.array, m)", "E19.isect", "QuadricTensor.intersect")
V("twin: intersect with the skew matrix untransposed and the sign restored", "C14", CURVE, "                b = matmul(matmul(m, self.array, transpose_a=True), m)",
  "                b = -matmul(matmul(m, self.array), m)", "silent")


# ------------------------------------------------------------------------------------------------ perpendiculars and the foot of the perpendicular (E19.metric, C10)
V("perpendicular through a point of the line takes the wrong two coefficients as the normal", "C10", POINT,
  "                np.append(l.array[..., :-1], np.zeros(l.shape[:-1] + (1,), dtype=l.dtype), axis=-1)",
  "                np.append(l.array[..., 1:], np.zeros(l.shape[:-1] + (1,), dtype=l.dtype), axis=-1)", "E19.metric", "LineTensor.perpendicular", quick=True)
V("perpendicular through a point off the line is the parallel", "C10", POINT, "                result[~contains] = self.mirror(through).join(through)",
  "                result[~contains] = self.parallel(through)", "E19.metric", "LineTensor.perpendicular")
V("project meets the perpendicular with the parallel through the point", "C10", POINT, "        l = self.perpendicular(pt)\n        return self.meet(l)",
  "        l = self.perpendicular(pt)\n        return l.meet(self.parallel(pt))", "E19.metric", "SubspaceTensor.project")
V("twin: project with the operands of meet exchanged", "C10", POINT, "        l = self.perpendicular(pt)\n        return self.meet(l)",
  "        l = self.perpendicular(pt)\n        return l.meet(self)", "silent")
V("perpendicular to a plane from the last three coefficients", "C10", POINT, "        p = self.array[..., :-1]\n        p = PointCollection.from_array(np.append(p, np.zeros(p.shape[:-1] + (1,), dtype=p.dtype), axis=-1))",
  "        p = self.array[..., 1:]\n        p = PointCollection.from_array(np.append(p, np.zeros(p.shape[:-1] + (1,), dtype=p.dtype), axis=-1))", "E19.metric", "PlaneTensor.perpendicular")
V("twin: perpendicular to a plane with the join written as a function call", "C10", POINT, "        return through.join(p)", "        return join(through, p)", "silent")


# ------------------------------------------------------------------------------------------------ lines of 3-space from two points / two planes (E19.join)
V("1-tensor branch joins with the first argument twice", "C01", POINT, "        result = TensorDiagram(*[(o, e) if covariant else (e, o) for o in args]).calculate()",
  "        result = TensorDiagram(*[(o, e) if covariant else (e, o) for o in (args[0], *args[:-1])]).calculate()", "E19.join", "_join_meet_duality")
V("twin: the line of two planes handed out in its other representation", "C01", POINT, "        return LineCollection.from_tensor(result).contravariant_tensor", "        return LineCollection.from_tensor(result).contravariant_tensor.copy()", "silent")


# ------------------------------------------------------------------------------------------------ a static helper called on an instance (false alarm of round 13)
_MUL_OLD = '''        if not isinstance(other, Tensor):
            other = Tensor(other, copy=False)
        return TensorDiagram((other, self)).calculate()

    def __rmul__'''
_MUL_NEW = '''        return self._contract(other, self)

    @staticmethod
    def _contract(source, target):
        if not isinstance(source, Tensor):
            source = Tensor(source, copy=False)
        diagram = TensorDiagram()
        diagram.add_edge(source, target)
        return diagram.calculate()

    def __rmul__'''
for _p in ("C01", "C10"):
    V(f"twin: Tensor.__mul__ through a static helper called on the instance ({_p})", _p, "geometer/base.py", _MUL_OLD, _MUL_NEW, "silent")


# ------------------------------------------------------------------------------------------------ exponentiation by squaring (E19.act powers; seed R13_C06a)
_POW_OLD = "        result = super().__pow__(power, modulo)\n        return type(self)(result, copy=False)"
_POW_SQ = '''        square = self.array
        rest = None
        while power > 1:
            if power & 1:
                rest = %s
            square = matmul(square, square)
            power >>= 1
        if rest is not None:
            square = matmul(square, rest)
        return type(self)(square, copy=False)'''
V("powers by repeated squaring that keep only the last odd factor", "C06", TRANS, _POW_OLD, _POW_SQ % "square", "E19.act", "Tensor.__apply__", quick=True)
V("twin: powers by repeated squaring", "C06", TRANS, _POW_OLD, _POW_SQ % "square if rest is None else matmul(rest, square)", "silent")


# ------------------------------------------------------------------------------------------------ np.vdot always flattens (E6.K9; seed R13_C10a)
V("a scale taken with np.vdot in code a collection reaches", "C04", POINT, "        l = LineCollection.from_array(np.cross(basis[..., 0, :-1], basis[..., 1, :-1]))\n        p = l.base_point",
  "        l = LineCollection.from_array(np.cross(basis[..., 0, :-1], basis[..., 1, :-1]))\n        l = l / np.sqrt(np.vdot(l.array, l.array))\n        p = l.base_point", "E6.K9", "PlaneTensor.mirror")
V("twin: the same scale as a sum along the last axis", "C04", POINT, "        l = LineCollection.from_array(np.cross(basis[..., 0, :-1], basis[..., 1, :-1]))\n        p = l.base_point",
  "        l = LineCollection.from_array(np.cross(basis[..., 0, :-1], basis[..., 1, :-1]))\n        l = LineCollection.from_array(l.array / np.sqrt(np.sum(l.array * l.array, axis=-1, keepdims=True)))\n        p = l.base_point", "silent")
V("is_tangent through np.linalg.solve with the hyperplane coordinates as they are", "C04", CURVE, "        return self.dual.contains(plane)",
  "        h = plane.array\n        pole = np.linalg.solve(self.array, h)\n        return np.isclose(np.sum(h * pole, axis=-1), 0, atol=EQ_TOL_ABS)", "E6.K9", "QuadricTensor.is_tangent")
V("twin: is_tangent through np.linalg.solve with a trailing axis on the right-hand side", "C04", CURVE, "        return self.dual.contains(plane)",
  "        h = plane.array[..., None]\n        pole = np.linalg.solve(self.array, h)\n        return np.isclose(np.sum(h * pole, axis=(-2, -1)), 0, atol=EQ_TOL_ABS)", "silent")
V("twin: np.vdot of two coordinate vectors in a function that takes single objects only", "C04", TRANS, "    x = Point(*x)\n\n    return translation(x) * p * translation(-x)",
  "    x = Point(*x)\n    _offset = 2 * np.vdot(axis.array[:-1], x.array[:-1])  # (a scalar of two vectors: nothing to flatten)\n\n    return translation(x) * p * translation(-x)", "silent")


# ------------------------------------------------------------------------------------------------ equality of polygons (E19.eq, C17)
SHAPES = "geometer/shapes.py"
_EQ_REV = """            if np.all(
                is_multiple(self.array, np.roll(reversed_array, i, axis=-2), axis=-1, rtol=EQ_TOL_REL, atol=EQ_TOL_ABS)
            ):
                return True
"""
V("polygon equality without the reversed vertex cycle", "C17", SHAPES, _EQ_REV, "", "E19.eq", "PolytopeTensor.__eq__", quick=True)
V("polygon equality rolls the coordinates instead of the vertices", "C17", SHAPES, "is_multiple(self.array, np.roll(other.array, i, axis=-2), axis=-1, rtol=EQ_TOL_REL, atol=EQ_TOL_ABS)",
  "is_multiple(self.array, np.roll(other.array, i, axis=-1), axis=-1, rtol=EQ_TOL_REL, atol=EQ_TOL_ABS)", "E19.eq", "PolytopeTensor.__eq__")
V("polygon equality accepts any vertex of the other polygon in each position", "C17", SHAPES, "            if np.all(\n                is_multiple(self.array, np.roll(other.array, i, axis=-2)",
  "            if np.any(\n                is_multiple(self.array, np.roll(other.array, i, axis=-2)", "E19.eq", "PolytopeTensor.__eq__")
V("twin: polygon equality rolls the receiver instead of the argument", "C17", SHAPES, "is_multiple(self.array, np.roll(other.array, i, axis=-2), axis=-1, rtol=EQ_TOL_REL, atol=EQ_TOL_ABS)",
  "is_multiple(np.roll(self.array, i, axis=-2), other.array, axis=-1, rtol=EQ_TOL_REL, atol=EQ_TOL_ABS)", "silent")


# ------------------------------------------------------------------------------------------------ the fourth harmonic point (E19.harm, C11)
_HARM = "    result = l.meet(join(meet(o.join(a), p.join(b)), meet(o.join(b), p.join(a))))"
V("harmonic_set closes the quadrilateral through c instead of a", "C11", OPS, _HARM, "    result = l.meet(join(meet(o.join(a), p.join(b)), meet(o.join(b), p.join(c))))", "E19.harm", "harmonic_set", quick=True)
V("harmonic_set returns the diagonal point instead of meeting the line", "C11", OPS, _HARM, "    result = meet(o.join(a), p.join(b))", "E19.harm", "harmonic_set")
V("twin: harmonic_set with another second point on the line through the auxiliary point", "C11", OPS, "    p = o + 1 / 2 * m.direction", "    p = o + 2 * m.direction", "silent")
V("twin: harmonic_set with the two diagonal points exchanged", "C11", OPS, _HARM, "    result = l.meet(join(meet(o.join(b), p.join(a)), meet(o.join(a), p.join(b))))", "silent")


# ------------------------------------------------------------------------------------------------ the midpoint of a segment (E19.mid, C17)
V("midpoint as the harmonic conjugate of the first vertex", "C17", SHAPES, "        return harmonic_set(*self.vertices, l)", "        return harmonic_set(l, self.vertices[1], self.vertices[0])", "E19.mid", "SegmentTensor.midpoint", quick=True)
V("twin: midpoint with the vertices unpacked by hand", "C17", SHAPES, "        return harmonic_set(*self.vertices, l)", "        a, b = self.vertices\n        return harmonic_set(a, b, l)", "silent")


# ------------------------------------------------------------------------------------------------ the circumcenter of a triangle (E19.circ, C17)
V("circumcenter: the second bisector through the midpoint of the first edge", "C17", SHAPES, "        bisector2 = e2._line.perpendicular(e2.midpoint, plane=self._plane)",
  "        bisector2 = e2._line.perpendicular(e1.midpoint, plane=self._plane)", "E19.circ", "Triangle.circumcenter", quick=True)
V("twin: circumcenter from the first and the third edge", "C17", SHAPES, "        bisector2 = e2._line.perpendicular(e2.midpoint, plane=self._plane)",
  "        bisector2 = e3._line.perpendicular(e3.midpoint, plane=self._plane)", "silent")
