"""E7 - error discipline: documented errors are raised, reachable, validated before use, carry their payload and are
not intercepted inside the documented entry point's own call tree. Serves C02, C05 (i), C11."""

from __future__ import annotations

import ast

from geolint import callgraph
from geolint.intersect import Ctx, walk_ctx
from geolint.model import ClassInfo, FunctionInfo, Program, norm_stmt, walk_no_nested
from geolint.report import INFO, PROVEN, UNDECIDED, VIOLATION, Run

MUTATORS = {"pop", "append", "extend", "insert", "remove", "clear", "sort", "fill", "update", "add", "discard",
            "setdefault", "resize", "itemset", "put", "popitem", "reverse"}


def exc_ancestors(prog: Program, c: ClassInfo) -> set[str]:
    out = {"BaseException", "Exception"}
    for k in prog.mro(c):
        out.add(k.name)
        for e in k.external_bases:
            out.add(e)
            if e in ("ValueError", "TypeError", "IndexError", "KeyError", "ArithmeticError", "RuntimeError", "LookupError"):
                out.add("Exception")
            if e in ("IndexError", "KeyError"):
                out.add("LookupError")
    return out


def raise_sites(prog: Program, exc: ClassInfo) -> list[tuple[FunctionInfo, ast.Raise, Ctx]]:
    out = []
    for fn in prog.package_functions():
        for st, ctx in walk_ctx(fn.node.body):
            if isinstance(st, ast.Raise) and st.exc is not None:
                e = st.exc.func if isinstance(st.exc, ast.Call) else st.exc
                t = prog.resolve_expr_name(fn.module, e, fn)
                if t in prog.classes and prog.is_subclass(prog.classes[t], exc):
                    out.append((fn, st, ctx))
    return out


def handler_catches(prog: Program, fn: FunctionInfo, h: ast.ExceptHandler, anc: set[str]) -> bool:
    if h.type is None:
        return True
    ts = h.type.elts if isinstance(h.type, ast.Tuple) else [h.type]
    for t in ts:
        q = prog.resolve_expr_name(fn.module, t, fn)
        name = q.rsplit(".", 1)[-1] if q else ast.unparse(t).rsplit(".", 1)[-1]
        if name in anc:
            return True
    return False


def _reraises(h: ast.ExceptHandler) -> bool:
    return any(isinstance(x, ast.Raise) for x in walk_no_nested(h)) and not any(
        isinstance(x, ast.Return) for x in walk_no_nested(h))


def rule_raised_and_reachable(run: Run, prog: Program, cg: callgraph.CallGraph, exc_name: str, entries: list[str]) -> list:
    run.rule("E7.a", "a raise of the documented error class exists and is reachable in the call graph from each documented public entry point")
    exc = prog.cls(exc_name)
    sites = raise_sites(prog, exc)
    site_fns = {fn.qualname for fn, _st, _c in sites}
    if not sites:
        run.add("E7.a", exc_name, "raise site", VIOLATION,
                f"{exc_name} is documented but no longer raised anywhere in the package: degenerate inputs yield a silently wrong "
                f"object or a different exception", exc.loc)
        return sites
    for en in entries:
        ef = prog.find_func(en)
        if ef is None:
            if "." not in en:
                run.error(f"public anchor: function {en} not found")
            continue
        reach = cg.reachable(ef)
        hit = sorted(site_fns & reach)
        if hit:
            run.add("E7.a", exc_name, f"reachable from {ef.short}", PROVEN, f"raised in {', '.join(h.replace('geometer.', '') for h in hit)}", ef.loc)
        else:
            unresolved = sum(1 for q in reach for cs in cg.sites.get(q, []) if cs.how == "unresolved")
            if unresolved:
                run.add("E7.a", exc_name, f"reachable from {ef.short}", UNDECIDED,
                        f"no raise of {exc_name} found in the call tree of {ef.short}, but {unresolved} call(s) in it could not be resolved", ef.loc)
            else:
                run.add("E7.a", exc_name, f"reachable from {ef.short}", VIOLATION,
                        f"no raise of {exc_name} is reachable from {ef.short}; it is raised only in "
                        f"{', '.join(s.replace('geometer.', '') for s in sorted(site_fns))}", ef.loc)
    return sites


def rule_no_interception(run: Run, prog: Program, cg: callgraph.CallGraph, exc_name: str, entries: list[str], sites) -> None:
    run.rule("E7.d", "inside the documented entry point's own call tree no try/except catches the documented error (or a base class, "
                     "Exception, bare) on the way from the raise site to the entry point")
    exc = prog.cls(exc_name)
    anc = exc_ancestors(prog, exc)
    site_fns = {fn.qualname for fn, _st, _c in sites}
    reach_cache: dict[str, set[str]] = {}

    def reach(f: FunctionInfo) -> set[str]:
        if f.qualname not in reach_cache:
            reach_cache[f.qualname] = cg.reachable(f)
        return reach_cache[f.qualname]

    for en in entries:
        ef = prog.find_func(en)
        if ef is None:
            continue
        tree = reach(ef)
        found = False
        for q in sorted(tree):
            f = prog.functions.get(q)
            if f is None or not (reach(f) & site_fns):
                continue
            for st, ctx in walk_ctx(f.node.body):
                if not isinstance(st, ast.Try):
                    continue
                hs = [h for h in st.handlers if handler_catches(prog, f, h, anc) and not _reraises(h)]
                if not hs:
                    continue
                # does the try body contain a raise of exc or a call that reaches a raise site?
                body_nodes = [n for b in st.body for n in walk_no_nested(b)]
                direct = any(isinstance(n, ast.Raise) and any(n is s for _f, s, _c in sites) for n in body_nodes)
                via = False
                for cs in cg.sites.get(f.qualname, []):
                    if any(cs.node is n for n in body_nodes):
                        for cal in cs.callees:
                            if cal.qualname in site_fns or (reach(cal) & site_fns):
                                via = True
                if (direct or via) and f is not ef and ef.qualname in reach(f):
                    # f is (also) a caller of the entry point: a consumer reached through recursive dispatch, not an interceptor
                    found = True
                    run.add("E7.d", exc_name, f"{f.short}: {norm_stmt(hs[0])}", UNDECIDED,
                            f"{f.short} both calls and is called from {ef.short} in the over-approximated call graph; handler not judged",
                            f"{f.module.rel}:{hs[0].lineno}")
                elif direct or via:
                    found = True
                    run.add("E7.d", exc_name, f"{f.short}: {norm_stmt(hs[0])}", VIOLATION,
                            f"{f.short} (in the call tree of {ef.short}) catches {ast.unparse(hs[0].type) if hs[0].type else 'everything'} "
                            f"around code that raises {exc_name}: the documented error never reaches the caller", f"{f.module.rel}:{hs[0].lineno}")
        if not found:
            run.add("E7.d", exc_name, f"call tree of {ef.short}", PROVEN, f"{len(tree)} functions, no intercepting handler", ef.loc)


def consumers(run: Run, prog: Program, cg: callgraph.CallGraph, exc_name: str) -> None:
    """Handlers elsewhere in the package that consume the error: listed for the reader."""
    exc = prog.cls(exc_name)
    anc = exc_ancestors(prog, exc)
    for f in prog.package_functions():
        for st, _ctx in walk_ctx(f.node.body):
            if isinstance(st, ast.Try):
                for h in st.handlers:
                    if h.type is not None and handler_catches(prog, f, h, anc):
                        run.add("E7.d", exc_name, f"consumer {f.short}: {norm_stmt(h)}", INFO,
                                "handler in a caller of the entry points (consumer, not an interceptor)", f"{f.module.rel}:{h.lineno}")


def _names(e: ast.AST) -> set[str]:
    return {x.id for x in ast.walk(e) if isinstance(x, ast.Name)}


def _bindings(fn: FunctionInfo) -> dict[str, list[ast.stmt]]:
    out: dict[str, list[ast.stmt]] = {}
    for st in walk_no_nested(fn.node):
        tgts = []
        if isinstance(st, ast.Assign):
            tgts = st.targets
        elif isinstance(st, (ast.AugAssign, ast.AnnAssign)):
            tgts = [st.target]
        elif isinstance(st, ast.For):
            tgts = [st.target]
        for t in tgts:
            for x in ast.walk(t):
                if isinstance(x, ast.Name) and isinstance(x.ctx, ast.Store):
                    out.setdefault(x.id, []).append(st)
    return out


def _mutations_of(fn: FunctionInfo, name: str) -> list[ast.stmt]:
    """Statements that change the object bound to `name` in place (attribute/item store, mutator method)."""
    out = []
    for st in walk_no_nested(fn.node):
        if isinstance(st, (ast.Assign, ast.AugAssign)):
            tgts = st.targets if isinstance(st, ast.Assign) else [st.target]
            for t in tgts:
                base = t
                while isinstance(base, (ast.Attribute, ast.Subscript)):
                    base = base.value
                if isinstance(t, (ast.Attribute, ast.Subscript)) and isinstance(base, ast.Name) and base.id == name:
                    out.append(st)
        if isinstance(st, (ast.Assign, ast.AugAssign, ast.Expr, ast.Return)):
            v = st.value
            if v is None:
                continue
            for x in ast.walk(v):
                if (isinstance(x, ast.Call) and isinstance(x.func, ast.Attribute) and x.func.attr in MUTATORS
                        and isinstance(x.func.value, ast.Name) and x.func.value.id == name):
                    out.append(st)
    return out


def rule_guard_first(run: Run, prog: Program, sites, exc_name: str) -> None:
    run.rule("E7.b", "validate before use: between the last definition of the local values a raise condition tests and the conditional raise "
                     "there is no in-place change of those values (attribute/item store, pop/append...) and no return of them")
    for fn, rs, ctx in sites:
        guards = [c for c in ctx if c[0] == "if"]
        loc = f"{fn.module.rel}:{rs.lineno}"
        label = norm_stmt(rs)[:120]
        if not guards:
            run.add("E7.b", fn.short, label, INFO, "unconditional raise", loc)
            continue
        if any(isinstance(x, (ast.For, ast.While)) and any(rs is y for y in ast.walk(x)) for x in walk_no_nested(fn.node)):
            run.add("E7.b", fn.short, label, UNDECIDED, "raise inside a loop: order of validation and use not decided", loc)
            continue
        params = set(fn.param_names())
        binds = _bindings(fn)
        tested: set[str] = set()
        for g in guards:
            tested |= _names(g[1])
        # follow single-step derivations: is_zero = result.is_zero()
        derived = set(tested)
        for v in list(tested):
            for st in binds.get(v, []):
                if isinstance(st, ast.Assign) and st.lineno < rs.lineno and not any(
                        isinstance(x, ast.Call) and isinstance(x.func, ast.Attribute) and x.func.attr in MUTATORS for x in ast.walk(st.value)):
                    derived |= _names(st.value)
        locals_tested = {v for v in derived if v in binds and v not in params and not _is_callable_name(prog, fn, v)}
        problems = []
        for v in sorted(locals_tested):
            # the guard that validates v: the first enclosing test that reads v (directly or through a one-step derivation); enclosing tests
            # about other things (an earlier type check whose else arm holds the rest of the function) do not count
            mine = []
            for g in guards:
                gn = set(_names(g[1]))
                for w in list(gn):
                    for st in binds.get(w, []):
                        if isinstance(st, ast.Assign) and st.lineno < rs.lineno:
                            gn |= _names(st.value)
                if v in gn:
                    mine.append(g[1].lineno)
            guard_line = min(mine) if mine else min(g[1].lineno for g in guards)
            last_bind = max([st.lineno for st in binds[v] if st.lineno < guard_line] or [0])
            first_bind = min([st.lineno for st in binds[v]] or [0])
            for m in _mutations_of(fn, v):
                if last_bind < m.lineno < guard_line or (m.lineno == last_bind and False):
                    problems.append((m, f"`{norm_stmt(m)[:70]}` changes `{v}` in place before `{norm_stmt(guards[-1][1])[:60]}` validates it"))
            for r in walk_no_nested(fn.node):
                if isinstance(r, ast.Return) and r.value is not None and first_bind < r.lineno < guard_line and v in _names(r.value):
                    # a return in an arm that excludes the guard arm is a different path
                    problems.append((r, f"`{norm_stmt(r)[:70]}` returns `{v}` before `{norm_stmt(guards[-1][1])[:60]}` validates it"))
        if problems:
            for m, msg in problems:
                run.add("E7.b", fn.short, f"{label} <- {norm_stmt(m)[:80]}", VIOLATION,
                        f"{msg}: the documented {exc_name} is raised too late or not at all for that input", f"{fn.module.rel}:{m.lineno}")
        else:
            run.add("E7.b", fn.short, label, PROVEN,
                    f"tested locals {sorted(locals_tested) or '[] (parameters only)'} are neither changed nor returned before the test", loc)


def _is_callable_name(prog: Program, fn: FunctionInfo, name: str) -> bool:
    t = prog.resolve_name(fn.module, name, fn)
    return t is not None and (t in prog.functions or t in prog.classes or not t.startswith("geometer"))


def rule_payload(run: Run, prog: Program, sites) -> None:
    run.rule("E7.c", "a LinearDependenceError raised under `np.any(M)` (collection case) passes that very array M as dependent_values")
    for fn, rs, ctx in sites:
        guards = [c for c in ctx if c[0] == "if" and c[2] is True]
        if not guards:
            continue
        t = guards[-1][1]
        m = None
        if isinstance(t, ast.Call) and isinstance(t.func, ast.Attribute) and t.func.attr == "any" and len(t.args) == 1 and isinstance(t.args[0], ast.Name):
            m = t.args[0].id
        if m is None:
            continue
        loc = f"{fn.module.rel}:{rs.lineno}"
        label = norm_stmt(rs)[:120]
        call = rs.exc if isinstance(rs.exc, ast.Call) else None
        if call is None:
            run.add("E7.c", fn.short, label, VIOLATION, "the error is raised without its dependent_values mask", loc)
            continue
        arg = call.args[1] if len(call.args) > 1 else next((k.value for k in call.keywords if k.arg == "dependent_values"), None)
        if arg is None:
            run.add("E7.c", fn.short, label, VIOLATION,
                    f"collection case (`np.any({m})`) raises without the mask: dependent_values defaults to True and consumers drop every position", loc)
        elif isinstance(arg, ast.Name) and arg.id == m:
            run.add("E7.c", fn.short, label, PROVEN, f"mask `{m}` is the tested array", loc)
        elif isinstance(arg, ast.Name) or (isinstance(arg, ast.UnaryOp) and isinstance(arg.operand, ast.Name)):
            run.add("E7.c", fn.short, label, VIOLATION,
                    f"the mask passed (`{ast.unparse(arg)}`) is not the array `{m}` whose np.any() is the guard: wrong positions are reported as dependent", loc)
        else:
            run.add("E7.c", fn.short, label, UNDECIDED, f"mask expression `{ast.unparse(arg)[:40]}` not recognised", loc)


def rule_predicate_args(run: Run, prog: Program, sites, quad: list[str]) -> None:
    run.rule("E7.c2", "the collinearity/concurrency predicate that guards the raise is applied to all four arguments of the cross ratio")
    for fn, rs, ctx in sites:
        guards = [c for c in ctx if c[0] == "if"]
        if not guards:
            continue
        t = guards[-1][1]
        calls = [x for x in ast.walk(t) if isinstance(x, ast.Call) and isinstance(x.func, ast.Name) and x.func.id.startswith("is_")]
        loc = f"{fn.module.rel}:{rs.lineno}"
        label = norm_stmt(rs)[:100]
        if not calls:
            run.add("E7.c2", fn.short, label, UNDECIDED, "guard is not a predicate call", loc)
            continue
        args = set()
        for c in calls:
            for a in c.args:
                args |= _names(a)
        missing = [q for q in quad if q not in args]
        if missing:
            run.add("E7.c2", fn.short, label, VIOLATION,
                    f"the guard `{ast.unparse(t)[:70]}` does not test {', '.join(missing)}: a configuration that is degenerate only through "
                    f"{'that argument' if len(missing) == 1 else 'those arguments'} is not rejected", loc)
        else:
            run.add("E7.c2", fn.short, label, PROVEN, "predicate receives all four arguments", loc)


def _reduction_form(t: ast.AST, env: dict[str, ast.AST], depth: int = 0):
    """('all'|'any', negated?, operand) for tests of the form [not] np.all/any(X) / [not] all/any(X), through single-assignment locals."""
    neg = False
    while isinstance(t, ast.UnaryOp) and isinstance(t.op, ast.Not):
        neg, t = not neg, t.operand
    if isinstance(t, ast.Name) and t.id in env and depth < 3:
        r = _reduction_form(env[t.id], env, depth + 1)
        if r is not None:
            return r[0], r[1] ^ neg, r[2]
        return None
    if isinstance(t, ast.Call) and t.args:
        red = t.func.attr if isinstance(t.func, ast.Attribute) else getattr(t.func, "id", "")
        if red in ("all", "any"):
            return red, neg, t.args[0]
    return None


def _predicate_in(e: ast.AST, env: dict[str, ast.AST], depth: int = 0) -> str | None:
    """name of a package validity predicate (is_*, contains, is_multiple ...) the array expression is computed from"""
    for x in ast.walk(e):
        if isinstance(x, ast.Call):
            nm = x.func.attr if isinstance(x.func, ast.Attribute) else getattr(x.func, "id", "")
            if nm.startswith("is_") or nm in ("contains",):
                return nm
        if isinstance(x, ast.Name) and x.id in env and depth < 3:
            r = _predicate_in(env[x.id], env, depth + 1)
            if r:
                return r
    return None


def rule_quantifier(run: Run, prog: Program, sites, exc_name: str) -> None:
    run.rule("E7.q", "a documented error guarded by a per-element predicate over a collection is raised as soon as ONE element is affected: "
                     "`if not np.all(ok): raise` / `if np.any(bad): raise`. The universal forms `if not np.any(X): raise` and `if np.all(X): raise` "
                     "fire only when every element agrees and let mixed collections through silently - whatever the polarity of X")
    from geolint.dunder import _single_assign_env

    for fn, rs, ctx in sites:
        guards = [c for c in ctx if c[0] == "if"]
        if not guards:
            continue
        env = _single_assign_env(fn)
        loc = f"{fn.module.rel}:{rs.lineno}"
        label = norm_stmt(rs)[:100]
        todo = []
        for g in guards:
            if g[2] is True:
                for t in (g[1].values if isinstance(g[1], ast.BoolOp) and isinstance(g[1].op, ast.And) else [g[1]]):
                    todo.append((t, False))
            elif not (isinstance(g[1], ast.BoolOp)):
                todo.append((g[1], True))  # the raise sits in the else-arm of this test
        for t, flip in todo:
            form = _reduction_form(t, env)
            if form is None:
                continue
            red, neg, operand = form
            if flip:
                neg = not neg
            pred = _predicate_in(operand, env)
            if pred is None:
                continue
            universal = (red == "all" and not neg) or (red == "any" and neg)
            if universal:
                run.add("E7.q", fn.short, label, VIOLATION,
                        f"`{ast.unparse(t)[:70]}` (predicate {pred}): {exc_name} is raised only when ALL elements of a collection agree; a collection "
                        f"in which only some elements are degenerate is processed as if none were (silently wrong result at those positions)", loc)
            else:
                run.add("E7.q", fn.short, label, PROVEN, f"raised as soon as one element fails ({pred})", loc)
