"""E14 - tensor diagrams denote their Einstein sum (C05), decided over diagram SHAPES.

What `TensorDiagram.add_edge` / `calculate` do with a diagram depends only on the structure of its nodes - how many collection
axes, which axes are covariant and which contravariant - and on the sequence of edges, never on the numbers in the arrays. The
bodies of `__init__`, `add_node`, `add_edge` and `calculate` are interpreted (geolint/absint.py) on abstract tensors for every
diagram of an enumerated domain; the `np.einsum(...)` call and the `Tensor(...)` construction at the end are recorded instead of
evaluated. The record is compared with the statement of C05:

  * every edge pairs the FIRST still-unused covariant index of its source with the FIRST still-unused contravariant index of its
    target (an edge with no index left raises TensorComputationError, and so do mismatching dimensions);
  * collection axes of the nodes are broadcast against each other from the right;
  * the result has the shared collection axes first, then the uncontracted covariant indices in node order, then the uncontracted
    contravariant ones, and is typed accordingly (covariant=range(n_cov), tensor_rank = ndim - n_collection).
"""

from __future__ import annotations

import itertools

from geolint import absint
from geolint.model import Program
from geolint.report import PROVEN, UNDECIDED, VIOLATION, Run

# (collection axes, covariant indices, contravariant indices); the index sets give positions inside the tensor part
NODE_TYPES = [
    (0, 1, 0), (0, 0, 1), (0, 1, 1), (0, 2, 0), (0, 0, 2), (0, 2, 1), (0, 1, 2),
    (1, 1, 0), (1, 0, 1), (1, 1, 1), (2, 1, 0), (1, 0, 2),
]
DIM = 3


def make_node(t, tensor_cls, mixed_layout: bool = False, dim: int = DIM):
    f, c, d = t
    rank = f + c + d
    cov = list(range(f, f + c))
    con = list(range(f + c, rank))
    if mixed_layout and c and d:
        # a (1,1) tensor stored contravariant-first: index TYPES are sets of positions, any layout is legal
        cov, con = list(range(f + d, rank)), list(range(f, f + d))
    return absint.Obj(__cls__=tensor_cls, rank=rank, free_indices=f, shape=tuple([2] * f + [dim] * (c + d)), _covariant_indices=set(cov),
                      _contravariant_indices=set(con), array=absint.Arr(rank, "f"), tensor_shape=(c, d))


def expected(nodes: list, edges: list[tuple[int, int]], objs: list):
    """reference semantics of the statement: ('error', name) or (classes, output) where classes maps (node position in the diagram, axis) ->
    label and output is the list of labels of the result axes; plus n_free, n_cov"""
    order: list[int] = []  # diagram position -> index into objs (first appearance in the edge list, source before target)
    unused: dict[int, tuple[list[int], list[int]]] = {}
    pairs: list[tuple[tuple[int, int], tuple[int, int]]] = []
    for a, b in edges:
        for k in (a, b):
            if k not in unused:
                unused[k] = (sorted(objs[k]._covariant_indices), sorted(objs[k]._contravariant_indices))
                order.append(k)
        fs, ft = unused[a][0], unused[b][1]
        if not fs or not ft:
            return ("error", "TensorComputationError")
        i, j = fs.pop(0), ft.pop(0)
        if objs[a].shape[i] != objs[b].shape[j]:
            return ("error", "TensorComputationError")
        pairs.append(((a, i), (b, j)))
    # union-find over axes
    label: dict[tuple[int, int], tuple[int, int]] = {}

    def find(x):
        while label.get(x, x) != x:
            x = label[x]
        return x

    for x, y in pairs:
        label[find(y)] = find(x)
    fmax = max(objs[k].free_indices for k in order)
    for k in order:
        f = objs[k].free_indices
        for ax in range(f):
            # aligned from the right with a virtual result axis ('free', position from the right)
            label[find((k, ax))] = find(("free", f - 1 - ax))
    out = [find(("free", fmax - 1 - p)) for p in range(fmax)]
    for which in (0, 1):
        for k in order:
            out += [find((k, ax)) for ax in unused[k][which]]
    n_cov = sum(len(unused[k][0]) for k in order)
    return ("ok", order, find, out, fmax, n_cov)


def run_diagram(prog: Program, diagram_cls, tensor_cls, objs: list, edges: list[tuple[int, int]]):
    """interprets TensorDiagram(*edges).calculate(); returns the captures"""
    captured: dict = {}

    def einsum(*args, **kw):
        captured["einsum"] = args
        ops = args[:-1]
        out = args[-1]
        return absint.Capture("einsum", args, kw, ndim=len(out))

    def tensor_ctor(args, kwargs):
        captured["tensor"] = (args, kwargs)
        return absint.Capture("Tensor", tuple(args), kwargs)

    it = absint.Interp(prog, constructors={tensor_cls.qualname: tensor_ctor}, np_extra={"einsum": einsum})
    init = prog.lookup(diagram_cls, "__init__")
    calc = prog.lookup(diagram_cls, "calculate")
    me = absint.Obj(__cls__=diagram_cls)
    it.call(init, [me] + [(objs[a], objs[b]) for a, b in edges])
    it.call(calc, [me])
    return captured, me


def compare(exp, captured, objs) -> str | None:
    """None when the recorded einsum is the expected contraction, else a description of the difference"""
    _ok, order, find, out, n_free, n_cov = exp
    if "einsum" not in captured:
        return "np.einsum is not called"
    args = captured["einsum"]
    operands, out_labels = args[:-1], list(args[-1])
    if len(operands) != 2 * len(order):
        return f"{len(operands) // 2} operands for {len(order)} nodes"
    # labels used by the code -> our classes
    code_to_class: dict = {}
    class_to_code: dict = {}
    for pos, k in enumerate(order):
        arr, labels = operands[2 * pos], list(operands[2 * pos + 1])
        if arr is not objs[k].array:
            return f"operand {pos} is not the array of node {pos}"
        if len(labels) != objs[k].rank:
            return f"node {pos} of rank {objs[k].rank} gets {len(labels)} subscripts"
        for ax, lab in enumerate(labels):
            cl = find((k, ax))
            if code_to_class.setdefault(lab, cl) != cl:
                return f"axis {ax} of node {pos} shares a subscript with an axis it is not contracted / broadcast with"
            if class_to_code.setdefault(cl, lab) != lab:
                return f"axis {ax} of node {pos} does not share the subscript of the axis it is paired with"
    want = [class_to_code.get(cl) for cl in out]
    if want != out_labels:
        return f"result subscripts {out_labels}, expected {want} (collection axes, uncontracted covariant indices in node order, then contravariant)"
    if "tensor" not in captured:
        return "the result is not wrapped in a Tensor"
    targs, tkw = captured["tensor"]
    cov = tkw.get("covariant")
    cov = list(cov) if cov is not None and not isinstance(cov, bool) else cov
    rank = tkw.get("tensor_rank")
    if cov != list(range(n_cov)):
        return f"result constructed with covariant={cov}, expected the first {n_cov} tensor indices"
    if rank != len(out) - n_free:
        return f"result constructed with tensor_rank={rank}, expected {len(out) - n_free}"
    return None


def diagrams(thorough: bool):
    """(node types, layouts, edges): two-node diagrams with up to three edges, three-node chains and stars, repeated edges, one node object
    used at both ends"""
    two = [((0, 1),), ((1, 0),), ((0, 1), (0, 1)), ((0, 1), (1, 0)), ((0, 1), (0, 1), (0, 1)), ((0, 1), (0, 1), (1, 0)), ((0, 0),), ((0, 1), (1, 1))]
    three = [((0, 1), (1, 2)), ((0, 1), (2, 1)), ((0, 1), (0, 2)), ((1, 0), (2, 0)), ((0, 1), (1, 2), (2, 0)), ((0, 1), (0, 2), (1, 2)), ((2, 1), (0, 1), (0, 2))]
    types = NODE_TYPES
    for ta, tb in itertools.product(types, repeat=2):
        for e in two:
            yield (ta, tb), e
    pick = types if thorough else types[:8]
    for ta, tb, tc in itertools.product(pick, repeat=3):
        if not thorough and (ta[0] + tb[0] + tc[0] > 1):
            continue
        for e in three:
            yield (ta, tb, tc), e


def rule_E14(run: Run, prog: Program) -> int:
    run.rule(
        "E14",
        "for every diagram of the enumerated shapes (node types with 0-2 collection axes and up to three tensor indices in both storage layouts; "
        "two-node diagrams with up to three edges incl. repeated and opposite edges and a node joined to itself; three-node chains, stars and "
        "cycles) the np.einsum call that TensorDiagram.calculate issues - recorded by abstract interpretation of __init__/add_node/add_edge/"
        "calculate - is the contraction C05 describes, the result is typed covariant-first, and an edge with no index left or mismatching "
        "dimensions raises TensorComputationError",
    )
    dcls = prog.find_cls("TensorDiagram")
    tcls = prog.find_cls("Tensor")
    if dcls is None or tcls is None or prog.lookup(dcls, "calculate") is None:
        run.add("E14", "TensorDiagram", "calculate", UNDECIDED, "TensorDiagram.calculate not found", "")
        return 0
    loc = prog.lookup(dcls, "calculate").loc
    n = 0
    wrong: dict[str, list[str]] = {}
    unsupported: dict[str, int] = {}
    samples_: list[str] = []
    n_err = 0
    n_ok = 0
    for types, edges in diagrams(run.tier == "thorough"):
        for mixed in (False, True):
            if mixed and not any(t[1] and t[2] for t in types):
                continue
            n += 1
            objs = [make_node(t, tcls, mixed) for t in types]
            exp = expected(objs, list(edges), objs)
            desc = f"nodes {list(types)}{' (contravariant index stored first)' if mixed else ''}, edges {list(edges)}"
            try:
                captured, _me = run_diagram(prog, dcls, tcls, objs, list(edges))
                got_err = None
            except absint.Raised as e:
                got_err = e.name
                captured = {}
            except absint.Unsupported as e:
                unsupported[str(e)] = unsupported.get(str(e), 0) + 1
                continue
            if exp[0] == "error":
                n_err += 1
                if got_err != exp[1]:
                    wrong.setdefault("error clause", []).append(f"{desc}: {'raises ' + got_err if got_err else 'no error'}, C05 requires {exp[1]} (an edge without an index left)")
                continue
            if got_err:
                wrong.setdefault("spurious error", []).append(f"{desc}: raises {got_err} although every edge finds an unused index")
                continue
            n_ok += 1
            if len(samples_) < 6 and n_ok % 977 == 1:
                samples_.append(f"{desc}: recorded np.einsum subscripts {_canonical(captured['einsum'])}")
            diff = compare(exp, captured, objs)
            if diff:
                seen_nodes: set = set()
                first_mention_loop = False
                for a, b in edges:
                    if a == b and a not in seen_nodes:
                        first_mention_loop = True
                    seen_nodes |= {a, b}
                twice = diff.startswith(f"{len(set(x for e_ in edges for x in e_)) + 1} operands for")
                kind = ("edge from a node to itself as the first mention of that node: the node is added twice" if first_mention_loop and twice else
                        "edge from a node to itself as the first mention of that node" if first_mention_loop else
                        "edge from a node to itself" if any(a == b for a, b in edges) else ("three nodes" if len(types) == 3 else "two nodes"))
                wrong.setdefault(kind, []).append(f"{desc}: {diff}")
    # dimension mismatch raises
    for ta, tb in [((0, 1, 0), (0, 0, 1)), ((1, 1, 1), (0, 0, 2))]:
        n += 1
        objs = [make_node(ta, tcls), make_node(tb, tcls, dim=DIM + 1)]
        try:
            run_diagram(prog, dcls, tcls, objs, [(0, 1)])
            wrong.setdefault("error clause", []).append(f"nodes {ta} (dimension {DIM}) and {tb} (dimension {DIM + 1}): no error, C05 requires TensorComputationError")
        except absint.Raised as e:
            if e.name != "TensorComputationError":
                wrong.setdefault("error clause", []).append(f"mismatching dimensions raise {e.name}, C05 requires TensorComputationError")
        except absint.Unsupported as e:
            unsupported[str(e)] = unsupported.get(str(e), 0) + 1
    run.stats["diagram_shapes"] = n
    run.stats["diagram_shapes_with_exhausted_indices"] = n_err
    if not hasattr(run, "enumerated"):
        run.enumerated, run.case_samples = {}, {}
    run.enumerated["E14"] = n - sum(unsupported.values())
    run.case_samples["E14"] = samples_
    if unsupported:
        worst = sorted(unsupported.items(), key=lambda kv: -kv[1])[:3]
        run.add("E14", "TensorDiagram.calculate", "vocabulary", UNDECIDED,
                f"{sum(unsupported.values())} of {n} diagrams could not be interpreted ({'; '.join(f'{k} x{v}' for k, v in worst)})", loc)
    for kind, bad in sorted(wrong.items()):
        run.add("E14", "TensorDiagram.calculate", kind, VIOLATION,
                f"{len(bad)} diagram shape(s) are not evaluated as the Einstein sum C05 describes, e.g. " + "; ".join(bad[:2]), loc, {"failing": bad[:30], "count": len(bad)})
    if not wrong and not unsupported:
        run.add("E14", "TensorDiagram.calculate", "all shapes", PROVEN,
                f"{n} diagram shapes ({n_err} of them with an exhausted index, which raise TensorComputationError): every recorded einsum is the "
                f"contraction of the statement and the result is typed covariant-first", loc)
    return n


# ---------------------------------------------------------------------------------------------- identity of the operands
class _Stop(Exception):
    def __init__(self, form):
        self.form = form


def _canonical(args) -> tuple:
    """the einsum call up to renaming of subscripts: which operand positions carry the same array object does NOT matter"""
    ren: dict = {}
    out = []
    for lab in list(args[1::2][: len(args) // 2]) + [args[-1]]:
        out.append(tuple(ren.setdefault(x, len(ren)) for x in lab))
    return tuple(out)


def rule_alias(run: Run, prog: Program) -> int:
    run.rule(
        "E14.id",
        "equal operands are interchangeable: what join / meet contract does not depend on whether the caller passes one object twice or two "
        "equal objects. The nodes of a tensor diagram are identified by OBJECT IDENTITY, so a function that builds a diagram from its own "
        "arguments has to give every argument its own node. _join_meet_duality is interpreted up to its first np.einsum for every supported "
        "arity, once with distinct operand objects and once with the first two operands being the same object: both must issue the same contraction",
    )
    fn = prog.find_func("geometer.point._join_meet_duality") or prog.find_func("_join_meet_duality")
    dcls, tcls = prog.find_cls("TensorDiagram"), prog.find_cls("Tensor")
    lct = prog.find_cls("LeviCivitaTensor")
    kinds = {k: prog.find_cls(k) for k in ("Point", "Line", "Plane")}
    if fn is None or dcls is None or tcls is None or lct is None or None in kinds.values():
        run.add("E14.id", "_join_meet_duality", "operands", UNDECIDED, "_join_meet_duality / TensorDiagram / LeviCivitaTensor / Point / Line / Plane not all found", "")
        return 0

    def geo(kind: str, dim: int):
        n = dim + 1
        if kind == "Point":
            c, d = 1, 0
        elif kind == "Plane" or dim == 2:
            c, d = 0, 1
        else:
            c, d = 0, n - 2  # a line of 3-space
        rank = c + d
        return absint.Obj(__cls__=kinds[kind], dim=dim, rank=rank, free_indices=0, shape=(n,) * rank, tensor_shape=(c, d),
                          _covariant_indices=set(range(c)), _contravariant_indices=set(range(c, rank)), array=absint.Arr(rank, "f"))

    def levi_civita(args, kwargs):
        size = args[0]
        cov = args[1] if len(args) > 1 else kwargs.get("covariant", True)
        return absint.Obj(__cls__=lct, rank=size, free_indices=0, shape=(size,) * size, tensor_shape=(size, 0) if cov else (0, size),
                          _covariant_indices=set(range(size)) if cov else set(), _contravariant_indices=set() if cov else set(range(size)),
                          array=absint.Arr(size, "i"))

    def einsum(*args, **kw):
        raise _Stop(_canonical(args))

    scenarios = [("join of two points of the plane", ["Point", "Point"], 2), ("meet of two lines of the plane", ["Line", "Line"], 2),
                 ("join of two points of 3-space", ["Point", "Point"], 3), ("join of three points of 3-space", ["Point", "Point", "Point"], 3),
                 ("meet of two planes", ["Plane", "Plane"], 3), ("meet of three planes", ["Plane", "Plane", "Plane"], 3),
                 ("two lines of 3-space", ["Line", "Line"], 3)]
    n = 0
    for text, ks, dim in scenarios:
        outcomes = {}
        for aliased in (False, True):
            objs = [geo(k, dim) for k in ks]
            if aliased:
                objs[1] = objs[0]
            it = absint.Interp(prog, constructors={lct.qualname: levi_civita}, np_extra={"einsum": einsum})
            try:
                it.call(fn, list(objs), {})
                outcomes[aliased] = ("returns without a contraction",)
            except _Stop as s_:
                outcomes[aliased] = ("einsum", s_.form)
            except absint.Raised as e:
                outcomes[aliased] = ("raises", e.name)
            except absint.Unsupported as e:
                outcomes[aliased] = ("unsupported", str(e))
        n += 1
        loc = fn.loc
        if any(o[0] == "unsupported" for o in outcomes.values()):
            why = next(o[1] for o in outcomes.values() if o[0] == "unsupported")
            run.add("E14.id", fn.short, text, UNDECIDED, f"outside the interpreter's vocabulary: {why}", loc)
        elif outcomes[False] == outcomes[True]:
            run.add("E14.id", fn.short, text, PROVEN, "the same contraction is issued whether or not the first two operands are one object", loc)
        else:
            def show(o):
                return f"raises {o[1]}" if o[0] == "raises" else ("contracts " + str(o[1]) if o[0] == "einsum" else o[0])
            run.add("E14.id", fn.short, text, VIOLATION,
                    f"{text}: with two distinct (equal) operand objects the function {show(outcomes[False])[:120]}, with the SAME object passed twice it "
                    f"{show(outcomes[True])[:120]} - the diagram identifies nodes by identity, so the second mention finds the first one's indices used up. "
                    f"join(p, p) / meet(l, l) then fail with an internal error instead of the documented LinearDependenceError", loc)
    return n


# ---------------------------------------------------------------------------------------------- E17: the generic action
def rule_action(run: Run, prog: Program) -> int:
    run.rule(
        "E17",
        "the action t * x, interpreted for every kind of object (absint: Tensor.__apply__ and the __apply__ overrides that build a diagram, the "
        "TensorDiagram bookkeeping, the real Tensor.__init__; np.einsum recorded): every covariant index of x is contracted with the SECOND index of "
        "a copy of the matrix, every contravariant index with the FIRST index of a copy of the inverse, collection axes of x and of a "
        "transformation collection are broadcast from the right, and in the result every axis has the index type of the axis of x it replaces",
    )
    tcls, dcls = prog.find_cls("Tensor"), prog.find_cls("TensorDiagram")
    trafo = prog.find_cls("Transformation")
    trafo_coll = prog.find_cls("TransformationCollection")
    ap = prog.lookup(tcls, "__apply__") if tcls is not None else None
    inv_fn = prog.find_func("geometer.utils.math.inv") or prog.find_func("inv")
    if None in (tcls, dcls, trafo, ap, inv_fn):
        run.add("E17", "Tensor.__apply__", "action", UNDECIDED, "Tensor.__apply__ / Transformation / inv not all found", "")
        return 0
    n = 0
    wrong: list[str] = []
    unsupported: dict[str, int] = {}
    n_ok = 0
    samples: list[str] = []
    # typed objects: (collection axes, covariant positions, contravariant positions) within an array of f + k axes
    layouts = []
    for f in (0, 1, 2):
        for types in ["c", "d", "cc", "dd", "cd", "dc", "ddd"]:
            cov = [f + i for i, t_ in enumerate(types) if t_ == "c"]
            con = [f + i for i, t_ in enumerate(types) if t_ == "d"]
            layouts.append((f, cov, con, types))
    for tf in (0, 1):  # a single transformation / a collection of transformations
        for f, cov, con, types in layouts:
            n += 1
            rank = f + len(types)
            x = absint.Obj(__cls__=tcls, array=absint.Arr(rank, "f", tuple(("x", i) for i in range(rank))), _covariant_indices=set(cov), _contravariant_indices=set(con))
            m_arr = absint.Arr(tf + 2, "f", tuple(("M", i) for i in range(tf + 2)))
            t = absint.Obj(__cls__=trafo_coll if tf and trafo_coll is not None else trafo, array=m_arr, _covariant_indices={tf}, _contravariant_indices={tf + 1})
            inv_arrays: list = []
            captured: dict = {}

            def inv_override(args, kwargs):
                a = absint.as_array(args[0])
                out = absint.Arr(a.ndim, "f", tuple(("Minv", i) for i in range(a.ndim)))
                inv_arrays.append(out)
                return out

            def einsum(*args, **kw):
                captured["args"] = args
                out = args[-1]
                # provenance of the result: a label that belongs to an axis of x keeps it; the free label of a matrix copy stands for the axis of x it is contracted with
                ops = [(args[i], list(args[i + 1])) for i in range(0, len(args) - 1, 2)]
                owner: dict = {}
                xop = next(((a, l) for a, l in ops if isinstance(a, absint.Arr) and a.prov and a.prov[0][0] == "x"), None)
                if xop is None:
                    raise absint.Unsupported("x is not an operand of the einsum")
                xl = xop[1]
                for ax, lab in enumerate(xl):
                    owner[lab] = ("x", ax)
                for a, l in ops:
                    if isinstance(a, absint.Arr) and a.prov and a.prov[0][0] in ("M", "Minv"):
                        tensor_axes = l[-2:]
                        hit = [lab for lab in tensor_axes if lab in xl]
                        free = [lab for lab in tensor_axes if lab not in xl]
                        if len(hit) == 1 and len(free) == 1:
                            owner.setdefault(free[0], ("x", xl.index(hit[0])))
                        for ax, lab in enumerate(l[:-2]):  # collection axes of a transformation collection
                            owner.setdefault(lab, "new")
                return absint.Arr(len(out), "f", tuple(owner.get(lab, "new") for lab in out))

            it = absint.Interp(prog, np_extra={"einsum": einsum}, max_steps=60000, max_depth=14)
            it.function_overrides[inv_fn.qualname] = inv_override
            what = f"x with {f} collection axes and index types {types!r} under a {'collection of transformations' if tf else 'transformation'}"
            try:
                res = it.call(ap, [x, t])
            except absint.Unsupported as e:
                unsupported[str(e)] = unsupported.get(str(e), 0) + 1
                continue
            except absint.Raised as e:
                wrong.append(f"{what}: raises {e.name}")
                continue
            n_ok += 1
            problems = []
            args = captured.get("args")
            if args is None:
                problems.append("no einsum is issued")
            else:
                ops = [(args[i], list(args[i + 1])) for i in range(0, len(args) - 1, 2)]
                xl = next(l for a, l in ops if isinstance(a, absint.Arr) and a.prov and a.prov[0][0] == "x")
                used_m = {ax: 0 for ax in cov}
                used_i = {ax: 0 for ax in con}
                for a, l in ops:
                    if not (isinstance(a, absint.Arr) and a.prov):
                        continue
                    kind = a.prov[0][0]
                    if kind == "M":
                        # matrix: its SECOND tensor index must be the one shared with a covariant axis of x
                        if l[-1] in xl and xl.index(l[-1]) in used_m and l[-2] not in xl:
                            used_m[xl.index(l[-1])] += 1
                        else:
                            problems.append("a copy of the matrix is not contracted on its second index with a covariant index of x")
                    elif kind == "Minv":
                        if l[-2] in xl and xl.index(l[-2]) in used_i and l[-1] not in xl:
                            used_i[xl.index(l[-2])] += 1
                        else:
                            problems.append("a copy of the inverse is not contracted on its first index with a contravariant index of x")
                if any(v != 1 for v in used_m.values()):
                    problems.append(f"covariant indices of x acted on {sorted(used_m.values())} times each, expected once")
                if any(v != 1 for v in used_i.values()):
                    problems.append(f"contravariant indices of x acted on {sorted(used_i.values())} times each, expected once")
            if isinstance(res, absint.Obj) and isinstance(res.__dict__.get("array"), absint.Arr) and res.__dict__["array"].prov is not None:
                arr = res.__dict__["array"]
                rc, rn = res.__dict__.get("_covariant_indices", set()), res.__dict__.get("_contravariant_indices", set())
                for i, lab in enumerate(arr.prov):
                    got = "covariant" if i in rc else ("contravariant" if i in rn else "collection")
                    want = "collection" if lab == "new" else ("covariant" if lab[1] in cov else ("contravariant" if lab[1] in con else "collection"))
                    if got != want:
                        problems.append(f"axis {i} of the result stands for {'a new axis' if lab == 'new' else 'axis ' + str(lab[1]) + ' of x'} ({want}) but is typed {got}")
                        break
            else:
                problems.append("the result is not a tensor with a tracked array")
            if problems:
                wrong.append(f"{what}: " + "; ".join(dict.fromkeys(problems)))
            elif len(samples) < 4 and n_ok % 11 == 1:
                samples.append(f"{what}: einsum {_canonical(captured['args'])}")
    if not hasattr(run, "enumerated"):
        run.enumerated, run.case_samples = {}, {}
    run.enumerated["E17"] = n_ok
    run.case_samples["E17"] = samples
    loc = ap.loc
    if unsupported:
        worst = sorted(unsupported.items(), key=lambda kv: -kv[1])[:2]
        run.add("E17", ap.short, "vocabulary", UNDECIDED, f"{sum(unsupported.values())} of {n} cases could not be interpreted ({'; '.join(f'{k} x{v}' for k, v in worst)})", loc)
    from geolint.report import INFO

    outside = [w for w in wrong if "'dc'" in w or ("with 0 collection axes" in w and "collection of transformations" in w)]
    std = [w for w in wrong if w not in outside]
    odd = []
    if outside:
        run.add("E17", ap.short, "combinations outside the statement", INFO,
                f"{len(outside)} case(s) that C06/C07 do not speak about give a result whose index types do not follow its axes: a COLLECTION of "
                f"transformations applied to a SINGLE object (the new collection axis is typed like the object's first index: `ts * p` is a malformed Point), "
                f"and plain tensors that store a contravariant index before a covariant one (calculate() returns the indices covariant-first, the result "
                f"keeps the index sets of x). Recorded as information; e.g. " + outside[0][:200], loc, {"cases": outside[:12]})
    if std:
        run.add("E17", ap.short, "action on the geometric kinds", VIOLATION, f"{len(std)} of {n} cases: " + "; ".join(std[:3]), loc, {"failing": std[:20]})
    elif not unsupported:
        run.add("E17", ap.short, "action on the geometric kinds", PROVEN,
                f"{n_ok - len(odd)} cases (points, hyperplanes, quadrics and dual quadrics, (1,1)-tensors, lines of 3-space; 0-2 collection axes; single transformations and "
                f"collections): matrix on its second index for every covariant index, inverse on its first for every contravariant one, types follow the axes", loc)
    if odd:
        run.add("E17", ap.short, "tensors that store a contravariant index before a covariant one", VIOLATION,
                f"{len(odd)} case(s): " + "; ".join(odd[:2]) + " - calculate() returns the indices covariant-first while the result keeps the index sets of x", loc, {"failing": odd[:10]})
    return n
