"""E14 - tensor diagrams denote their Einstein sum (C05), decided over diagram SHAPES.

What `TensorDiagram.add_edge` / `calculate` do with a diagram depends only on the structure of its nodes - how many collection
axes, which axes are covariant and which contravariant - and on the sequence of edges, never on the numbers in the arrays. The
bodies of `__init__`, `add_node`, `add_edge` and `calculate` are interpreted (geolint/absint.py) on abstract tensors for every
diagram of an enumerated domain; the `np.einsum(...)` call and the `Tensor(...)` construction at the end are recorded instead of
evaluated. The record is compared with the statement of C05:

  * every edge pairs the FIRST still-unused covariant index of its source with the FIRST still-unused contravariant index of its
    target (an edge with no index left raises TensorComputationError, and so do mismatching dimensions);
  * collection axes of the nodes are broadcast against each other from the right;
  * the result has the shared collection axes first, then the uncontracted covariant indices in node order, then the uncontracted
    contravariant ones, and is typed accordingly (covariant=range(n_cov), tensor_rank = ndim - n_collection).
"""

from __future__ import annotations

import ast

import itertools

from geolint import absint
from geolint.model import Program
from geolint.report import PROVEN, UNDECIDED, VIOLATION, Run

# (collection axes, covariant indices, contravariant indices); the index sets give positions inside the tensor part
NODE_TYPES = [
    (0, 1, 0), (0, 0, 1), (0, 1, 1), (0, 2, 0), (0, 0, 2), (0, 2, 1), (0, 1, 2),
    (1, 1, 0), (1, 0, 1), (1, 1, 1), (2, 1, 0), (1, 0, 2),
]
DIM = 3


def make_node(t, tensor_cls, mixed_layout: bool = False, dim: int = DIM, idx: int = 0):
    f, c, d = t
    rank = f + c + d
    cov = list(range(f, f + c))
    con = list(range(f + c, rank))
    if mixed_layout and c and d:
        # a (1,1) tensor stored contravariant-first: index TYPES are sets of positions, any layout is legal
        cov, con = list(range(f + d, rank)), list(range(f, f + d))
    return absint.Obj(__cls__=tensor_cls, rank=rank, free_indices=f, shape=tuple([2] * f + [dim] * (c + d)), _covariant_indices=set(cov),
                      _contravariant_indices=set(con), array=absint.Arr(rank, "f", tuple(("node", idx, ax) for ax in range(rank))), tensor_shape=(c, d))


def expected(nodes: list, edges: list[tuple[int, int]], objs: list):
    """reference semantics of the statement: ('error', name) or (classes, output) where classes maps (node position in the diagram, axis) ->
    label and output is the list of labels of the result axes; plus n_free, n_cov"""
    order: list[int] = []  # diagram position -> index into objs (first appearance in the edge list, source before target)
    unused: dict[int, tuple[list[int], list[int]]] = {}
    pairs: list[tuple[tuple[int, int], tuple[int, int]]] = []
    for a, b in edges:
        for k in (a, b):
            if k not in unused:
                unused[k] = (sorted(objs[k]._covariant_indices), sorted(objs[k]._contravariant_indices))
                order.append(k)
        fs, ft = unused[a][0], unused[b][1]
        if not fs or not ft:
            return ("error", "TensorComputationError")
        i, j = fs.pop(0), ft.pop(0)
        if objs[a].shape[i] != objs[b].shape[j]:
            return ("error", "TensorComputationError")
        pairs.append(((a, i), (b, j)))
    # union-find over axes
    label: dict[tuple[int, int], tuple[int, int]] = {}

    def find(x):
        while label.get(x, x) != x:
            x = label[x]
        return x

    for x, y in pairs:
        label[find(y)] = find(x)
    fmax = max(objs[k].free_indices for k in order)
    for k in order:
        f = objs[k].free_indices
        for ax in range(f):
            # aligned from the right with a virtual result axis ('free', position from the right)
            label[find((k, ax))] = find(("free", f - 1 - ax))
    out = [find(("free", fmax - 1 - p)) for p in range(fmax)]
    for which in (0, 1):
        for k in order:
            out += [find((k, ax)) for ax in unused[k][which]]
    n_cov = sum(len(unused[k][0]) for k in order)
    return ("ok", order, find, out, fmax, n_cov, pairs)


def _members(lab) -> frozenset:
    """the (node, axis) pairs a provenance label stands for"""
    if isinstance(lab, frozenset):
        return lab
    if isinstance(lab, tuple) and lab and lab[0] == "node":
        return frozenset({(lab[1], lab[2])})
    return frozenset()


def _node_of(arr):
    """the node an operand array belongs to (None when it is already the result of a contraction)"""
    owners = {m[0] for lab in absint.as_array(arr).labels() for m in _members(lab)}
    return next(iter(owners)) if len(owners) == 1 else None


def run_diagram(prog: Program, diagram_cls, tensor_cls, objs: list, edges: list[tuple[int, int]]):
    """interprets TensorDiagram(*edges).calculate(); the contraction calls (np.einsum, np.tensordot) and the final Tensor(...) are recorded"""
    captured: dict = {"pairs": [], "n_operands": None, "shared_free": [], "operand_nodes": []}

    def einsum(*args, **kw):
        captured["einsum"] = args
        ops = [(args[i], list(args[i + 1])) for i in range(0, len(args) - 1, 2)]
        out = list(args[-1])
        captured["n_operands"] = len(ops)
        captured["operand_nodes"] += [_node_of(arr) for arr, _ in ops]
        members: dict = {}
        for arr, labs in ops:
            arr = absint.as_array(arr)
            if len(labs) != arr.ndim:
                raise absint.Raised("ValueError")
            for ax, lab in enumerate(labs):
                members.setdefault(lab, []).append(_members(arr.labels()[ax]))
        for lab, ms in members.items():
            if lab not in out and len(ms) >= 2:
                for i in range(len(ms) - 1):
                    captured["pairs"].append((ms[i], ms[i + 1]))
            elif lab in out and len(ms) >= 2:
                captured["shared_free"].append(frozenset().union(*ms))
        return absint.Arr(len(out), "f", tuple(frozenset().union(*members.get(lab, [frozenset()])) for lab in out))

    def tensordot(a, b, axes=2):
        a, b = absint.as_array(a), absint.as_array(b)
        if isinstance(axes, int):
            ax_a, ax_b = list(range(a.ndim - axes, a.ndim)), list(range(axes))
        else:
            ax_a, ax_b = axes
            ax_a = [ax_a] if isinstance(ax_a, int) else list(ax_a)
            ax_b = [ax_b] if isinstance(ax_b, int) else list(ax_b)
        if len(ax_a) != len(ax_b):
            raise absint.Raised("ValueError")
        captured["operand_nodes"] += [_node_of(a), _node_of(b)]
        for i, j in zip(ax_a, ax_b):
            captured["pairs"].append((_members(a.labels()[i % a.ndim]), _members(b.labels()[j % b.ndim])))
        rest = [a.labels()[i] for i in range(a.ndim) if i not in [x % a.ndim for x in ax_a]] + [b.labels()[j] for j in range(b.ndim) if j not in [x % b.ndim for x in ax_b]]
        return absint.Arr(len(rest), "f", tuple(_members(x) for x in rest))

    def tensor_ctor(args, kwargs):
        captured["tensor"] = (args, kwargs)
        return absint.Capture("Tensor", tuple(args), kwargs)

    it = absint.Interp(prog, constructors={tensor_cls.qualname: tensor_ctor}, np_extra={"einsum": einsum, "tensordot": tensordot})
    init = prog.lookup(diagram_cls, "__init__")
    calc = prog.lookup(diagram_cls, "calculate")
    me = absint.Obj(__cls__=diagram_cls)
    it.call(init, [me] + [(objs[a], objs[b]) for a, b in edges])
    it.call(calc, [me])
    return captured, me


def compare(exp, captured, objs) -> str | None:
    """None when the recorded contraction is the expected one, else a description of the difference"""
    _ok, order, find, out, n_free, n_cov, pairs = exp
    if "tensor" not in captured:
        return "the result is not wrapped in a Tensor"
    if "einsum" in captured and captured["n_operands"] != len(order):
        return f"{captured['n_operands']} operands for {len(order)} nodes"
    targs, tkw = captured["tensor"]
    res = targs[0] if targs else None
    if not isinstance(res, absint.Arr) or res.prov is None:
        return "the array handed to the result Tensor was not produced by a recorded contraction"
    # contracted pairs
    want_pairs = {frozenset({a_, b_}) for a_, b_ in pairs}
    got_pairs = set()
    for ma, mb in captured["pairs"]:
        if len(ma) != 1 or len(mb) != 1:
            return "an axis that is already the result of a contraction is contracted again"
        got_pairs.add(frozenset({next(iter(ma)), next(iter(mb))}))
    if got_pairs != want_pairs:
        missing = sorted(tuple(sorted(p)) for p in want_pairs - got_pairs)
        extra = sorted(tuple(sorted(p)) for p in got_pairs - want_pairs)
        return f"contracted index pairs (node, axis) differ: missing {missing[:2]}, unexpected {extra[:2]}"
    # result axes: every axis must stand for the class the statement puts at that position
    classes: dict = {}
    for k in order:
        for ax in range(objs[k].rank):
            classes.setdefault(find((k, ax)), set()).add((k, ax))
    if len(res.prov) != len(out):
        return f"the result has {len(res.prov)} axes, expected {len(out)}"
    for i, (lab, cl) in enumerate(zip(res.prov, out)):
        got = _members(lab)
        want = classes.get(cl, set())
        if not got or not got <= want or (i < n_free and got != want):
            return (f"result axis {i} stands for {sorted(got)}, expected {sorted(want)} (collection axes, uncontracted covariant indices in node order, "
                    f"then contravariant)")
    cov = tkw.get("covariant")
    cov = list(cov) if cov is not None and not isinstance(cov, bool) else cov
    rank = tkw.get("tensor_rank")
    if cov != list(range(n_cov)):
        return f"result constructed with covariant={cov}, expected the first {n_cov} tensor indices"
    if rank is not None and rank != len(out) - n_free:
        return f"result constructed with tensor_rank={rank}, expected {len(out) - n_free}"
    if rank is None and n_free:
        return "result constructed without tensor_rank although there are collection axes"
    return None


def diagrams(thorough: bool):
    """(node types, layouts, edges): two-node diagrams with up to three edges, three-node chains and stars, repeated edges, one node object
    used at both ends"""
    two = [((0, 1),), ((1, 0),), ((0, 1), (0, 1)), ((0, 1), (1, 0)), ((0, 1), (0, 1), (0, 1)), ((0, 1), (0, 1), (1, 0)), ((0, 0),), ((0, 1), (1, 1))]
    three = [((0, 1), (1, 2)), ((0, 1), (2, 1)), ((0, 1), (0, 2)), ((1, 0), (2, 0)), ((0, 1), (1, 2), (2, 0)), ((0, 1), (0, 2), (1, 2)), ((2, 1), (0, 1), (0, 2))]
    types = NODE_TYPES
    for ta, tb in itertools.product(types, repeat=2):
        for e in two:
            yield (ta, tb), e
    # deeper collections: operands with up to three collection axes of different depth, directly and through a node without collection axes
    # (the epsilon tensor of join / meet): the alignment of collection axes from the right must not depend on the order of the operands
    for k, c in ((3, 2), (2, 3), (3, 1), (1, 3), (3, 3), (2, 2), (3, 0), (0, 3)):
        yield ((k, 1, 0), (c, 0, 1)), ((0, 1),)
        yield ((k, 1, 0), (0, 0, 2), (c, 1, 0)), ((0, 1), (2, 1))
        yield ((0, 2, 0), (k, 0, 1), (c, 0, 1)), ((0, 1), (0, 2))
    pick = types if thorough else types[:8]
    for ta, tb, tc in itertools.product(pick, repeat=3):
        if not thorough and (ta[0] + tb[0] + tc[0] > 1):
            continue
        for e in three:
            yield (ta, tb, tc), e


def rule_E14(run: Run, prog: Program) -> int:
    run.rule(
        "E14",
        "for every diagram of the enumerated shapes (node types with 0-2 collection axes and up to three tensor indices in both storage layouts; "
        "two-node diagrams with up to three edges incl. repeated and opposite edges and a node joined to itself; three-node chains, stars and "
        "cycles) the np.einsum call that TensorDiagram.calculate issues - recorded by abstract interpretation of __init__/add_node/add_edge/"
        "calculate - is the contraction C05 describes, the result is typed covariant-first, and an edge with no index left or mismatching "
        "dimensions raises TensorComputationError",
    )
    dcls = prog.find_cls("TensorDiagram")
    tcls = prog.find_cls("Tensor")
    if dcls is None or tcls is None or prog.lookup(dcls, "calculate") is None:
        run.add("E14", "TensorDiagram", "calculate", UNDECIDED, "TensorDiagram.calculate not found", "")
        return 0
    loc = prog.lookup(dcls, "calculate").loc
    n = 0
    wrong: dict[str, list[str]] = {}
    unsupported: dict[str, int] = {}
    samples_: list[str] = []
    n_err = 0
    n_ok = 0
    # code gated on the number of entries of an operand (a fast path for large tensors) is interpreted for both answers
    region = [f_ for f_ in prog.functions.values() if f_.cls is dcls]
    size_gated = any(isinstance(x, ast.Attribute) and x.attr in ("size", "nbytes") for f_ in region for x in ast.walk(f_.node))
    run.stats["diagram_size_gated"] = size_gated
    for large, types, edges in [(lg, t_, e_) for lg in ([False, True] if size_gated else [False]) for t_, e_ in diagrams(run.tier == "thorough")]:
        absint._SIZE_MODE["large"] = large
        for mixed in (False, True):
            if mixed and not any(t[1] and t[2] for t in types):
                continue
            n += 1
            objs = [make_node(t, tcls, mixed, idx=k_) for k_, t in enumerate(types)]
            exp = expected(objs, list(edges), objs)
            desc = f"nodes {list(types)}{' (contravariant index stored first)' if mixed else ''}, edges {list(edges)}{' [operands with many entries]' if large else ''}"
            try:
                captured, _me = run_diagram(prog, dcls, tcls, objs, list(edges))
                got_err = None
            except absint.Raised as e:
                got_err = e.name
                captured = {}
            except absint.Unsupported as e:
                unsupported[str(e)] = unsupported.get(str(e), 0) + 1
                continue
            if exp[0] == "error":
                n_err += 1
                if got_err != exp[1]:
                    wrong.setdefault("error clause", []).append(f"{desc}: {'raises ' + got_err if got_err else 'no error'}, C05 requires {exp[1]} (an edge without an index left)")
                continue
            if got_err:
                wrong.setdefault("spurious error", []).append(f"{desc}: raises {got_err} although every edge finds an unused index")
                continue
            n_ok += 1
            if len(samples_) < 6 and n_ok % 977 == 1:
                samples_.append(f"{desc}: contracted (node, axis) pairs {sorted(tuple(sorted(next(iter(m)) for m in p)) for p in captured['pairs'])}")
            diff = compare(exp, captured, objs)
            if diff:
                seen_nodes: set = set()
                first_mention_loop = False
                for a, b in edges:
                    if a == b and a not in seen_nodes:
                        first_mention_loop = True
                    seen_nodes |= {a, b}
                owners = [x for x in captured.get("operand_nodes", []) if x is not None]
                twice = len(owners) > len(set(owners))  # one node object is an operand of the contraction more than once
                kind = ("edge from a node to itself as the first mention of that node: the node is added twice" if first_mention_loop and twice else
                        "edge from a node to itself as the first mention of that node" if first_mention_loop else
                        "edge from a node to itself" if any(a == b for a, b in edges) else ("three nodes" if len(types) == 3 else "two nodes"))
                wrong.setdefault(kind, []).append(f"{desc}: {diff}")
    absint._SIZE_MODE["large"] = False
    # dimension mismatch raises
    for ta, tb in [((0, 1, 0), (0, 0, 1)), ((1, 1, 1), (0, 0, 2))]:
        n += 1
        objs = [make_node(ta, tcls, idx=0), make_node(tb, tcls, dim=DIM + 1, idx=1)]
        try:
            run_diagram(prog, dcls, tcls, objs, [(0, 1)])
            wrong.setdefault("error clause", []).append(f"nodes {ta} (dimension {DIM}) and {tb} (dimension {DIM + 1}): no error, C05 requires TensorComputationError")
        except absint.Raised as e:
            if e.name != "TensorComputationError":
                wrong.setdefault("error clause", []).append(f"mismatching dimensions raise {e.name}, C05 requires TensorComputationError")
        except absint.Unsupported as e:
            unsupported[str(e)] = unsupported.get(str(e), 0) + 1
    run.stats["diagram_shapes"] = n
    run.stats["diagram_shapes_with_exhausted_indices"] = n_err
    if not hasattr(run, "enumerated"):
        run.enumerated, run.case_samples = {}, {}
    run.enumerated["E14"] = n - sum(unsupported.values())
    run.case_samples["E14"] = samples_
    if unsupported:
        worst = sorted(unsupported.items(), key=lambda kv: -kv[1])[:3]
        run.add("E14", "TensorDiagram.calculate", "vocabulary", UNDECIDED,
                f"{sum(unsupported.values())} of {n} diagrams could not be interpreted ({'; '.join(f'{k} x{v}' for k, v in worst)})", loc)
    for kind, bad in sorted(wrong.items()):
        run.add("E14", "TensorDiagram.calculate", kind, VIOLATION,
                f"{len(bad)} diagram shape(s) are not evaluated as the Einstein sum C05 describes, e.g. " + "; ".join(bad[:2]), loc, {"failing": bad[:30], "count": len(bad)})
    if not wrong and not unsupported:
        run.add("E14", "TensorDiagram.calculate", "all shapes", PROVEN,
                f"{n} diagram shapes ({n_err} of them with an exhausted index, which raise TensorComputationError): every recorded einsum is the "
                f"contraction of the statement and the result is typed covariant-first", loc)
    return n


# ---------------------------------------------------------------------------------------------- identity of the operands
class _Stop(Exception):
    def __init__(self, form):
        self.form = form


def _canonical(args) -> tuple:
    """the einsum call up to renaming of subscripts: which operand positions carry the same array object does NOT matter"""
    ren: dict = {}
    out = []
    for lab in list(args[1::2][: len(args) // 2]) + [args[-1]]:
        out.append(tuple(ren.setdefault(x, len(ren)) for x in lab))
    return tuple(out)


def rule_alias(run: Run, prog: Program) -> int:
    run.rule(
        "E14.id",
        "equal operands are interchangeable: what join / meet contract does not depend on whether the caller passes one object twice or two "
        "equal objects. The nodes of a tensor diagram are identified by OBJECT IDENTITY, so a function that builds a diagram from its own "
        "arguments has to give every argument its own node. _join_meet_duality is interpreted up to its first np.einsum for every supported "
        "arity, once with distinct operand objects and once with the first two operands being the same object: both must issue the same contraction",
    )
    fn = prog.find_func("geometer.point._join_meet_duality") or prog.find_func("_join_meet_duality")
    dcls, tcls = prog.find_cls("TensorDiagram"), prog.find_cls("Tensor")
    lct = prog.find_cls("LeviCivitaTensor")
    kinds = {k: prog.find_cls(k) for k in ("Point", "Line", "Plane")}
    if fn is None or dcls is None or tcls is None or lct is None or None in kinds.values():
        run.add("E14.id", "_join_meet_duality", "operands", UNDECIDED, "_join_meet_duality / TensorDiagram / LeviCivitaTensor / Point / Line / Plane not all found", "")
        return 0

    def geo(kind: str, dim: int):
        n = dim + 1
        if kind == "Point":
            c, d = 1, 0
        elif kind == "Plane" or dim == 2:
            c, d = 0, 1
        else:
            c, d = 0, n - 2  # a line of 3-space
        rank = c + d
        return absint.Obj(__cls__=kinds[kind], dim=dim, rank=rank, free_indices=0, shape=(n,) * rank, tensor_shape=(c, d),
                          _covariant_indices=set(range(c)), _contravariant_indices=set(range(c, rank)), array=absint.Arr(rank, "f"))

    def levi_civita(args, kwargs):
        size = args[0]
        cov = args[1] if len(args) > 1 else kwargs.get("covariant", True)
        return absint.Obj(__cls__=lct, rank=size, free_indices=0, shape=(size,) * size, tensor_shape=(size, 0) if cov else (0, size),
                          _covariant_indices=set(range(size)) if cov else set(), _contravariant_indices=set() if cov else set(range(size)),
                          array=absint.Arr(size, "i"))

    def einsum(*args, **kw):
        raise _Stop(_canonical(args))

    scenarios = [("join of two points of the plane", ["Point", "Point"], 2), ("meet of two lines of the plane", ["Line", "Line"], 2),
                 ("join of two points of 3-space", ["Point", "Point"], 3), ("join of three points of 3-space", ["Point", "Point", "Point"], 3),
                 ("meet of two planes", ["Plane", "Plane"], 3), ("meet of three planes", ["Plane", "Plane", "Plane"], 3),
                 ("two lines of 3-space", ["Line", "Line"], 3)]
    n = 0
    for text, ks, dim in scenarios:
        outcomes = {}
        for aliased in (False, True):
            objs = [geo(k, dim) for k in ks]
            if aliased:
                objs[1] = objs[0]
            it = absint.Interp(prog, constructors={lct.qualname: levi_civita}, np_extra={"einsum": einsum})
            try:
                it.call(fn, list(objs), {})
                outcomes[aliased] = ("returns without a contraction",)
            except _Stop as s_:
                outcomes[aliased] = ("einsum", s_.form)
            except absint.Raised as e:
                outcomes[aliased] = ("raises", e.name)
            except absint.Unsupported as e:
                outcomes[aliased] = ("unsupported", str(e))
        n += 1
        loc = fn.loc
        if any(o[0] == "unsupported" for o in outcomes.values()):
            why = next(o[1] for o in outcomes.values() if o[0] == "unsupported")
            run.add("E14.id", fn.short, text, UNDECIDED, f"outside the interpreter's vocabulary: {why}", loc)
        elif outcomes[False] == outcomes[True]:
            run.add("E14.id", fn.short, text, PROVEN, "the same contraction is issued whether or not the first two operands are one object", loc)
        else:
            def show(o):
                return f"raises {o[1]}" if o[0] == "raises" else ("contracts " + str(o[1]) if o[0] == "einsum" else o[0])
            run.add("E14.id", fn.short, text, VIOLATION,
                    f"{text}: with two distinct (equal) operand objects the function {show(outcomes[False])[:120]}, with the SAME object passed twice it "
                    f"{show(outcomes[True])[:120]} - the diagram identifies nodes by identity, so the second mention finds the first one's indices used up. "
                    f"join(p, p) / meet(l, l) then fail with an internal error instead of the documented LinearDependenceError", loc)
    return n


# ---------------------------------------------------------------------------------------------- E17: the generic action
def rule_action(run: Run, prog: Program) -> int:
    run.rule(
        "E17",
        "the action t * x, interpreted for every kind of object (absint: Tensor.__apply__, every __apply__ override of a quadric class that replaces it, "
        "the TensorDiagram bookkeeping, the real Tensor.__init__; np.einsum / np.matmul / np.tensordot recorded): every covariant index of x is contracted "
        "with the SECOND index of a copy of the matrix, every contravariant index with the FIRST index of a copy of the inverse, collection axes of x and "
        "of a transformation collection are broadcast from the right, and in the result every axis has the index type of the axis of x it replaces",
    )
    tcls = prog.find_cls("Tensor")
    ap = prog.lookup(tcls, "__apply__") if tcls is not None else None
    if tcls is None or ap is None:
        run.add("E17", "Tensor.__apply__", "action", UNDECIDED, "Tensor.__apply__ not found", "")
        return 0
    layouts = []
    for f in (0, 1, 2):
        for types in ["c", "d", "cc", "dd", "cd", "dc", "ddd"]:
            layouts.append((f, types))
    n = _action_for(run, prog, tcls, ap, layouts, {})
    # overrides that replace the generic action (no super().__apply__): interpreted for the typings of their class
    quadric = prog.find_cls("QuadricTensor")
    seen = {ap.qualname}
    for c in prog.classes.values():
        m_ = c.methods.get("__apply__")
        if m_ is None or quadric is None or not prog.is_subclass(c, quadric):
            continue
        m_ = prog.body_of(m_)
        if m_.qualname in seen:
            continue
        seen.add(m_.qualname)
        calls_super = any(isinstance(x, ast.Attribute) and x.attr == "__apply__" and isinstance(x.value, ast.Call) and getattr(x.value.func, "id", "") == "super"
                          for x in ast.walk(m_.node))
        if calls_super:
            continue
        for is_dual, types in ((False, "dd"), (True, "cc")):
            n += _action_for(run, prog, c, m_, [(f, types) for f in (0, 1, 2)], {"is_dual": is_dual})
    return n


def _action_for(run: Run, prog: Program, recv_cls, ap, layouts_in: list, attrs: dict) -> int:
    tcls, dcls = recv_cls, prog.find_cls("TensorDiagram")
    trafo = prog.find_cls("Transformation")
    trafo_coll = prog.find_cls("TransformationCollection")
    inv_fn = prog.find_func("geometer.utils.math.inv") or prog.find_func("inv")
    if None in (tcls, dcls, trafo, ap, inv_fn):
        run.add("E17", ap.short if ap else "Tensor.__apply__", "action", UNDECIDED, "Tensor.__apply__ / Transformation / inv not all found", "")
        return 0
    n = 0
    wrong: list[str] = []
    unsupported: dict[str, int] = {}
    n_ok = 0
    samples: list[str] = []
    # typed objects: (collection axes, covariant positions, contravariant positions) within an array of f + k axes
    layouts = []
    for f, types in layouts_in:
        cov = [f + i for i, t_ in enumerate(types) if t_ == "c"]
        con = [f + i for i, t_ in enumerate(types) if t_ == "d"]
        layouts.append((f, cov, con, types))
    for tf in (0, 1):  # a single transformation / a collection of transformations
        for f, cov, con, types in layouts:
            n += 1
            rank = f + len(types)
            x = absint.Obj(__cls__=tcls, array=absint.Arr(rank, "f", tuple(("x", i) for i in range(rank))), _covariant_indices=set(cov), _contravariant_indices=set(con), **attrs)
            m_arr = absint.Arr(tf + 2, "f", tuple(("M", i) for i in range(tf + 2)))
            t = absint.Obj(__cls__=trafo_coll if tf and trafo_coll is not None else trafo, array=m_arr, _covariant_indices={tf}, _contravariant_indices={tf + 1})
            inv_arrays: list = []
            captured: dict = {"pairs": [], "calls": []}
            occurrence = [0]

            def inv_override(args, kwargs):
                a = absint.as_array(args[0])
                out = absint.Arr(a.ndim, "f", tuple(("Minv", i) for i in range(a.ndim)))
                inv_arrays.append(out)
                return out

            def tagged(arr) -> list:
                """the axis labels of an operand; every use of the matrix / the inverse in a contraction is a copy of its own"""
                labs = list(absint.as_array(arr).labels())
                if labs and all(isinstance(l_, tuple) and len(l_) == 2 and l_[0] in ("M", "Minv") for l_ in labs):
                    occurrence[0] += 1
                    return [(l_[0], occurrence[0], l_[1]) for l_ in labs]
                return labs

            def merged(labels_: list):
                """the label of a broadcast axis: the axis of x when x takes part"""
                real = [l_ for l_ in labels_ if l_ is not None]
                for l_ in real:
                    if isinstance(l_, tuple) and l_[0] == "x":
                        return l_
                return real[0] if real else None

            def einsum(*args, **kw):
                ops = [(tagged(args[i]), list(args[i + 1])) for i in range(0, len(args) - 1, 2)]
                out = list(args[-1])
                captured["calls"].append("einsum")
                members: dict = {}
                for labs, subs in ops:
                    if len(labs) != len(subs):
                        raise absint.Raised("ValueError")
                    for lab, sub in zip(labs, subs):
                        members.setdefault(sub, []).append(lab)
                for sub, ms in members.items():
                    if sub not in out:
                        for i in range(len(ms) - 1):
                            captured["pairs"].append((ms[i], ms[i + 1]))
                return absint.Arr(len(out), "f", tuple(merged(members.get(sub, [])) for sub in out))

            def np_matmul(a, b, out=None, **kw):
                la, lb = tagged(a), tagged(b)
                captured["calls"].append("matmul")
                if not la or not lb:
                    raise absint.Raised("ValueError")
                ka = la[-1]
                kb = lb[-2] if len(lb) >= 2 else lb[0]
                captured["pairs"].append((ka, kb))
                batch_a, batch_b = (la[:-2] if len(la) >= 2 else []), (lb[:-2] if len(lb) >= 2 else [])
                nb = max(len(batch_a), len(batch_b))
                batch = []
                for i in range(nb):
                    xa = batch_a[i - (nb - len(batch_a))] if i >= nb - len(batch_a) else None
                    xb = batch_b[i - (nb - len(batch_b))] if i >= nb - len(batch_b) else None
                    batch.append(merged([xa, xb]))
                tail = ([la[-2]] if len(la) >= 2 else []) + ([lb[-1]] if len(lb) >= 2 else [])
                res = batch + tail
                return absint.Arr(len(res), "f", tuple(res))

            def np_tensordot(a, b, axes=2):
                la, lb = tagged(a), tagged(b)
                captured["calls"].append("tensordot")
                if isinstance(axes, int):
                    ax_a, ax_b = list(range(len(la) - axes, len(la))), list(range(axes))
                else:
                    ax_a, ax_b = axes
                    ax_a = [ax_a] if isinstance(ax_a, int) else list(ax_a)
                    ax_b = [ax_b] if isinstance(ax_b, int) else list(ax_b)
                ax_a, ax_b = [i % len(la) for i in ax_a], [j % len(lb) for j in ax_b]
                for i, j in zip(ax_a, ax_b):
                    captured["pairs"].append((la[i], lb[j]))
                res = [l_ for i, l_ in enumerate(la) if i not in ax_a] + [l_ for j, l_ in enumerate(lb) if j not in ax_b]
                return absint.Arr(len(res), "f", tuple(res))

            linalg = absint.Capture("np.linalg", (), {}, inv=lambda a_, **kw_: inv_override([a_], kw_))
            it = absint.Interp(prog, np_extra={"einsum": einsum, "matmul": np_matmul, "tensordot": np_tensordot, "linalg": linalg}, max_steps=60000, max_depth=14)
            it.function_overrides[inv_fn.qualname] = inv_override
            what = f"x with {f} collection axes and index types {types!r} under a {'collection of transformations' if tf else 'transformation'}"
            try:
                res = it.call(ap, [x, t])
            except absint.Unsupported as e:
                unsupported[str(e)] = unsupported.get(str(e), 0) + 1
                continue
            except absint.Raised as e:
                wrong.append(f"{what}: raises {e.name}")
                continue
            n_ok += 1
            problems = []
            first_ax, second_ax = tf, tf + 1  # the two tensor indices of the matrix (after the collection axes of a collection)
            acted: dict = {}  # axis of x -> the matrix copy it is contracted with (kind, occurrence, axis of the copy)
            if not captured["calls"]:
                problems.append("no contraction is issued")
            for la_, lb_ in captured["pairs"]:
                xs = [l_ for l_ in (la_, lb_) if isinstance(l_, tuple) and l_[0] == "x"]
                ms = [l_ for l_ in (la_, lb_) if isinstance(l_, tuple) and l_[0] in ("M", "Minv") and len(l_) == 3]
                if len(xs) != 1 or len(ms) != 1:
                    problems.append("a contraction that does not pair an index of x with an index of a copy of the matrix or of the inverse")
                    continue
                xax, (kind, occ_, max_) = xs[0][1], ms[0]
                if xax in acted:
                    problems.append(f"index {xax} of x is acted on more than once")
                acted[xax] = (kind, occ_, max_)
                if xax in cov and not (kind == "M" and max_ == second_ax):
                    problems.append(f"a covariant index of x is contracted with the {'first' if max_ == first_ax else 'second'} index of "
                                    f"{'the matrix' if kind == 'M' else 'the INVERSE'}; C06/C07: with the second index of the matrix")
                elif xax in con and not (kind == "Minv" and max_ == first_ax):
                    problems.append(f"a contravariant index of x is contracted with the {'first' if max_ == first_ax else 'second'} index of "
                                    f"{'the MATRIX' if kind == 'M' else 'the inverse'}; C06/C07: with the first index of the inverse")
                elif xax not in cov and xax not in con:
                    problems.append("a collection axis of x is contracted")
            missing = [ax for ax in cov + con if ax not in acted]
            if missing and captured["calls"]:
                problems.append(f"tensor index(es) {missing} of x are not acted on")
            by_copy = {(k_, o_): xax for xax, (k_, o_, _m) in acted.items()}
            if isinstance(res, absint.Obj) and isinstance(res.__dict__.get("array"), absint.Arr) and res.__dict__["array"].prov is not None:
                arr = res.__dict__["array"]
                rc, rn = res.__dict__.get("_covariant_indices", set()), res.__dict__.get("_contravariant_indices", set())
                if arr.ndim != rank + (tf if f == 0 else max(tf - f, 0)):
                    problems.append(f"the result has {arr.ndim} axes")
                for i, lab in enumerate(arr.prov):
                    got = "covariant" if i in rc else ("contravariant" if i in rn else "collection")
                    stands = None
                    if isinstance(lab, tuple) and lab[0] == "x":
                        stands = lab[1]
                    elif isinstance(lab, tuple) and lab[0] in ("M", "Minv") and len(lab) == 3 and lab[2] >= tf:
                        stands = by_copy.get((lab[0], lab[1]))
                        if stands is None:
                            problems.append(f"axis {i} of the result is a free index of a matrix copy that is not contracted with x")
                            break
                    want = "collection" if stands is None else ("covariant" if stands in cov else ("contravariant" if stands in con else "collection"))
                    if got != want:
                        problems.append(f"axis {i} of the result stands for {'a new axis' if stands is None else 'axis ' + str(stands) + ' of x'} ({want}) but is typed {got}")
                        break
                # the tensor indices keep their order
                order = []
                for lab in arr.prov:
                    if isinstance(lab, tuple) and lab[0] in ("M", "Minv") and len(lab) == 3 and lab[2] >= tf:
                        order.append(by_copy.get((lab[0], lab[1])))
                    elif isinstance(lab, tuple) and lab[0] == "x" and (lab[1] in cov or lab[1] in con):
                        order.append(lab[1])
                if not problems and order != sorted(order):
                    problems.append(f"the transformed indices come back in the order {order} of the axes of x")
            else:
                problems.append("the result is not a tensor with a tracked array")
            if problems:
                wrong.append(f"{what}: " + "; ".join(dict.fromkeys(problems)))
            elif len(samples) < 4 and n_ok % 11 == 1:
                samples.append(f"{what}: {'+'.join(captured['calls'])}, x index -> (matrix copy, its index): {sorted((k_, v_[0], v_[2] - tf) for k_, v_ in acted.items())}")
    if not hasattr(run, "enumerated"):
        run.enumerated, run.case_samples = {}, {}
    run.enumerated["E17"] = run.enumerated.get("E17", 0) + n_ok
    run.case_samples["E17"] = (run.case_samples.get("E17") or []) + samples
    loc = ap.loc
    tag = "" if not attrs else " (" + ", ".join(f"{k_}={v_}" for k_, v_ in attrs.items()) + ")"
    if unsupported:
        worst = sorted(unsupported.items(), key=lambda kv: -kv[1])[:2]
        run.add("E17", ap.short, "vocabulary" + tag, UNDECIDED, f"{sum(unsupported.values())} of {n} cases could not be interpreted ({'; '.join(f'{k} x{v}' for k, v in worst)})", loc)
    from geolint.report import INFO

    outside = [w for w in wrong if "'dc'" in w or ("with 0 collection axes" in w and "collection of transformations" in w)]
    std = [w for w in wrong if w not in outside]
    odd = []
    if outside:
        run.add("E17", ap.short, "combinations outside the statement" + tag, INFO,
                f"{len(outside)} case(s) that C06/C07 do not speak about give a result whose index types do not follow its axes: a COLLECTION of "
                f"transformations applied to a SINGLE object (the new collection axis is typed like the object's first index: `ts * p` is a malformed Point), "
                f"and plain tensors that store a contravariant index before a covariant one (calculate() returns the indices covariant-first, the result "
                f"keeps the index sets of x). Recorded as information; e.g. " + outside[0][:200], loc, {"cases": outside[:12]})
    if std:
        run.add("E17", ap.short, "action on the geometric kinds" + tag, VIOLATION, f"{len(std)} of {n} cases: " + "; ".join(std[:3]), loc, {"failing": std[:20]})
    elif not unsupported:
        run.add("E17", ap.short, "action on the geometric kinds" + tag, PROVEN,
                f"{n_ok - len(odd)} cases (points, hyperplanes, quadrics and dual quadrics, (1,1)-tensors, lines of 3-space; 0-2 collection axes; single transformations and "
                f"collections): matrix on its second index for every covariant index, inverse on its first for every contravariant one, types follow the axes", loc)
    if odd:
        run.add("E17", ap.short, "tensors that store a contravariant index before a covariant one", VIOLATION,
                f"{len(odd)} case(s): " + "; ".join(odd[:2]) + " - calculate() returns the indices covariant-first while the result keeps the index sets of x", loc, {"failing": odd[:10]})
    return n
