"""E1 part 2: expression and call evaluation of one function under one context (mixin of FnAnalysis)."""

from __future__ import annotations

import ast
from dataclasses import replace

from geolint import av as A
from geolint import npmodel as N
from geolint.alias import Binding, Effect, EffectInfo, add_effect, subst_av
from geolint.av import AV, DEF, SOME, UNK
from geolint.callgraph import ctor_targets, dispatch_targets, methods_named
from geolint.model import FunctionInfo

PURE_BUILTINS_IMM = {"len", "isinstance", "issubclass", "hasattr", "str", "int", "float", "bool", "complex", "abs", "round", "repr",
                     "print", "id", "hash", "callable", "ord", "chr", "format", "divmod", "pow", "slice", "range", "all", "any",
                     "max", "min", "NotImplementedError", "TypeError", "ValueError", "IndexError", "RuntimeError", "object"}
IMM_MODULES = {"math", "cmath", "operator", "numbers"}


class ExprMixin:
    # attributes provided by FnAnalysis: engine, prog, fn, env, summary, kwname, chain_here(node)

    # ------------------------------------------------------------------ effects
    def effect(self, kind: str, path: str, node: ast.AST, cert: int = DEF, attr: str = "", value_fresh: bool = True, note: str = "") -> None:
        if getattr(self, "quiet", 0):
            return
        self.engine.note_site(self, node, kind, path if A.is_protected(path) else "")
        if not A.is_protected(path):
            return
        if kind == "cont" and path.startswith("C:") and self.engine.cache_fill_ok(self, path, value_fresh, note, node):
            return
        info = EffectInfo(cert=cert, origin=(self.fn.module.rel, getattr(node, "lineno", self.fn.node.lineno), norm_stmt_of(self, node), self.fn.short),
                          value_fresh=value_fresh, note=note)
        add_effect(self.summary.effects, Effect(kind, path, attr), info)

    def write_mem(self, v: AV, node: ast.AST, cap: int = DEF, note: str = "") -> None:
        if not v.mem and not getattr(self, "quiet", 0):
            self.engine.note_site(self, node, "mem", "")
        for p, c in v.mem:
            self.effect("mem", p, node, min(c, cap), note=note)
        if v.kind in (A.LIST, A.DICT, A.SET) and not v.mem:
            for p in v.ident:
                self.effect("cont", p, node, cap, note=note)

    def mutate_container(self, v: AV, node: ast.AST, value: AV | None = None, note: str = "") -> None:
        if not v.ident and not getattr(self, "quiet", 0):
            self.engine.note_site(self, node, "cont", "")
        for p in v.ident:
            self.effect("cont", p, node, DEF, value_fresh=(value is None or value.is_fresh or value.kind in (A.IMM, A.NONE)), note=note)

    def undecided(self, node: ast.AST, reason: str) -> None:
        self.summary.undecided.append((self.fn.module.rel, getattr(node, "lineno", 0), norm_stmt_of(self, node), reason, self.fn.short))

    # ------------------------------------------------------------------ expressions
    def ev(self, e: ast.AST | None) -> AV:
        if e is None:
            return A.NONE_AV
        m = getattr(self, "ev_" + type(e).__name__, None)
        if m is None:
            for ch in ast.iter_child_nodes(e):
                if isinstance(ch, ast.expr):
                    self.ev(ch)
            return A.fresh()
        return m(e)

    def ev_Constant(self, e: ast.Constant) -> AV:
        if e.value is None:
            return A.NONE_AV
        return A.imm(e.value)

    def ev_JoinedStr(self, e) -> AV:
        for v in e.values:
            if isinstance(v, ast.FormattedValue):
                self.ev(v.value)
        return A.imm()

    def ev_Lambda(self, e) -> AV:
        return AV(kind=A.FUNC)

    def ev_Name(self, e: ast.Name) -> AV:
        if e.id in self.env:
            return self.env[e.id]
        return self.engine.global_value(self.fn, e.id)

    def ev_NamedExpr(self, e) -> AV:
        v = self.ev(e.value)
        self.bind(e.target, v, e)
        return v

    def ev_Starred(self, e) -> AV:
        return A.elem_of(self.ev(e.value))

    def ev_IfExp(self, e) -> AV:
        self.ev(e.test)
        return A.join(self.ev(e.body), self.ev(e.orelse))

    def ev_BoolOp(self, e) -> AV:
        out = None
        for v in e.values:
            out = A.join(out, self.ev(v))
        return out

    def _container(self, kind, elts) -> AV:
        el = None
        for x in elts:
            v = self.ev(x)
            el = A.join(el, v)
        return AV(kind=kind, elem=el)

    def ev_List(self, e) -> AV:
        return self._container(A.LIST, e.elts)

    def ev_Tuple(self, e) -> AV:
        return self._container(A.TUPLE, e.elts)

    def ev_Set(self, e) -> AV:
        return self._container(A.SET, e.elts)

    def ev_Dict(self, e) -> AV:
        for k in e.keys:
            if k is not None:
                self.ev(k)
        return self._container(A.DICT, e.values)

    def _comp(self, e, kind) -> AV:
        saved = dict(self.env)
        for g in e.generators:
            it = self.ev(g.iter)
            self.iter_protocol(it, g.iter)
            self.bind(g.target, A.elem_of(it), g.target)
            for c in g.ifs:
                self.ev(c)
        if isinstance(e, ast.DictComp):
            self.ev(e.key)
            el = self.ev(e.value)
        else:
            el = self.ev(e.elt)
        self.env = saved
        return AV(kind=kind, elem=el)

    def ev_ListComp(self, e) -> AV:
        return self._comp(e, A.LIST)

    def ev_GeneratorExp(self, e) -> AV:
        return self._comp(e, A.LIST)

    def ev_SetComp(self, e) -> AV:
        return self._comp(e, A.SET)

    def ev_DictComp(self, e) -> AV:
        return self._comp(e, A.DICT)

    def ev_Yield(self, e) -> AV:
        v = self.ev(e.value) if e.value is not None else A.NONE_AV
        self.yielded = A.join(self.yielded, v)
        return A.fresh()

    def ev_YieldFrom(self, e) -> AV:
        v = self.ev(e.value)
        self.yielded = A.join(self.yielded, A.elem_of(v))
        return A.fresh()

    def ev_Await(self, e) -> AV:
        return self.ev(e.value)

    # ---- operators
    def _tensorish(self, v: AV) -> bool:
        return bool(v.types) and v.kind in (A.TENSOR, A.UNKN, A.OBJ)

    def ev_UnaryOp(self, e) -> AV:
        v = self.ev(e.operand)
        if isinstance(e.op, ast.Not):
            return A.imm()
        if self._tensorish(v):
            name = {ast.USub: "__neg__", ast.UAdd: "__pos__", ast.Invert: "__invert__"}[type(e.op)]
            tg = dispatch_targets(self.prog, v.types, name)
            if tg:
                return self.apply(tg, e, [], [], recv=v)
        if v.kind == A.IMM:
            c = v.const
            if isinstance(e.op, ast.USub) and isinstance(c, (int, float)) and not isinstance(c, bool):
                return A.imm(-c)
            return A.imm()
        return AV(kind=A.ND)

    def ev_BinOp(self, e) -> AV:
        l, r = self.ev(e.left), self.ev(e.right)
        core = {ast.Add: "add", ast.Sub: "sub", ast.Mult: "mul", ast.Div: "truediv", ast.Pow: "pow", ast.MatMult: "matmul",
                ast.FloorDiv: "floordiv", ast.Mod: "mod"}.get(type(e.op))
        if core and (self._tensorish(l) or self._tensorish(r)):
            out = None
            if self._tensorish(l):
                tg = dispatch_targets(self.prog, l.types, f"__{core}__")
                if tg:
                    out = A.join(out, self.apply(tg, e, [r], [], recv=l, raw_args=[e.right]))
            if self._tensorish(r) and not self._tensorish(l):
                tg = dispatch_targets(self.prog, r.types, f"__r{core}__")
                if tg:
                    out = A.join(out, self.apply(tg, e, [l], [], recv=r, raw_args=[e.left]))
            if out is not None:
                return out
        if l.kind in A.CONTAINERS and r.kind in A.CONTAINERS and isinstance(e.op, ast.Add):
            return AV(kind=l.kind, elem=A.join(l.elem, r.elem))
        if l.kind in A.CONTAINERS and isinstance(e.op, ast.Mult):
            return AV(kind=l.kind, elem=l.elem)
        if r.kind in A.CONTAINERS and isinstance(e.op, ast.Mult):
            return AV(kind=r.kind, elem=r.elem)
        if l.kind == A.IMM and r.kind == A.IMM:
            return A.imm()
        return AV(kind=A.ND)

    def ev_Compare(self, e) -> AV:
        l = self.ev(e.left)
        rs = [self.ev(c) for c in e.comparators]
        if len(e.ops) == 1 and isinstance(e.ops[0], (ast.Eq, ast.NotEq)):
            for a, b, raw in ((l, rs[0], e.comparators[0]), (rs[0], l, e.left)):
                if self._tensorish(a):
                    tg = dispatch_targets(self.prog, a.types, "__eq__")
                    if tg:
                        self.apply(tg, e, [b], [], recv=a, raw_args=[raw])
                        break
        if len(e.ops) == 1 and isinstance(e.ops[0], (ast.In, ast.NotIn)):
            el = A.elem_of(rs[0]) if rs[0].kind in A.CONTAINERS else None
            for a in (l, el):
                if a is not None and self._tensorish(a):
                    tg = dispatch_targets(self.prog, a.types, "__eq__")
                    if tg:
                        self.apply(tg, e, [l if a is el else (el or A.fresh())], [], recv=a)
                        break
        if all(x.kind == A.IMM for x in [l] + rs):
            return A.imm()
        return AV(kind=A.ND)

    # ---- attribute / subscript
    def ev_Attribute(self, e: ast.Attribute) -> AV:
        # module attributes: np.pi, np.int8, math.pi
        t = self.prog.resolve_expr_name(self.fn.module, e, self.fn)
        if t is not None and not self._is_local_root(e):
            if t in self.prog.functions:
                return AV(kind=A.FUNC, const=t)
            if t in self.prog.classes:
                return AV(kind=A.CLS, types=frozenset({t}), const=t)
            if self.prog.global_value(t) is not None:
                return self.engine.global_av(t)
            if not t.startswith("geometer"):
                return A.imm()
        v = self.ev(e.value)
        return self.load(v, e.attr, e)

    def _is_local_root(self, e: ast.AST) -> bool:
        while isinstance(e, ast.Attribute):
            e = e.value
        return isinstance(e, ast.Name) and e.id in self.env

    def load(self, v: AV, name: str, node: ast.AST) -> AV:
        if v.kind in (A.ND, A.ALIKE):
            return self.engine.load_attr(v, name)
        known = v.attr(name)
        if known is not None:
            return known
        if v.types and v.kind != A.CLS:
            props = [m for m in dispatch_targets(self.prog, v.types, name) if m.is_property]
            if props:
                return self.apply(props, node, [], [], recv=v)
        return self.engine.load_attr(v, name)

    def classify_index(self, sl: ast.AST) -> str:
        """'basic' | 'advanced' | 'unk' for an ndarray subscript."""
        comps = sl.elts if isinstance(sl, ast.Tuple) else [sl]
        res = set()
        for c in comps:
            res.add(self._classify_comp(c))
        if "advanced" in res:
            return "advanced"
        if res <= {"basic"}:
            return "basic"
        return "unk"

    def _classify_comp(self, c: ast.AST) -> str:
        if isinstance(c, ast.Slice):
            return "basic"
        if isinstance(c, ast.Constant):
            return "basic" if (c.value is None or c.value is Ellipsis or isinstance(c.value, int)) else "unk"
        if isinstance(c, ast.UnaryOp) and isinstance(c.op, ast.USub):
            return self._classify_comp(c.operand)
        if isinstance(c, ast.UnaryOp) and isinstance(c.op, ast.Invert):
            return "advanced"
        if isinstance(c, (ast.List, ast.ListComp, ast.Compare)):
            return "advanced"
        if isinstance(c, ast.BinOp) and isinstance(c.op, (ast.BitAnd, ast.BitOr, ast.BitXor)):
            return "advanced"
        if isinstance(c, ast.BinOp):
            l, r = self._classify_comp(c.left), self._classify_comp(c.right)
            if "advanced" in (l, r):
                return "advanced"
            return "basic" if l == r == "basic" else "unk"
        if isinstance(c, ast.Starred):
            return self._classify_comp(c.value)
        if isinstance(c, ast.Tuple):
            rs = {self._classify_comp(x) for x in c.elts}
            return "advanced" if "advanced" in rs else ("basic" if rs <= {"basic"} else "unk")
        if isinstance(c, ast.Call):
            f = c.func
            nm = f.attr if isinstance(f, ast.Attribute) else getattr(f, "id", "")
            if nm in N.MASK_CALLS:
                return "advanced"
            if nm in ("slice", "len", "int"):
                return "basic"
            v = self.ev_quiet(c)
            return self._kind_index(v)
        if isinstance(c, (ast.Name, ast.Attribute, ast.Subscript)):
            return self._kind_index(self.ev_quiet(c))
        return "unk"

    def _kind_index(self, v: AV) -> str:
        if v.kind in (A.IMM, A.NONE):
            return "basic"
        if v.kind in (A.ND,):
            return "advanced"
        if v.kind in (A.TUPLE, A.LIST):
            if v.elem is None:
                return "unk"
            k = self._kind_index(v.elem)
            if v.kind == A.LIST:
                return "advanced"
            return k
        return "unk"

    def ev_quiet(self, e: ast.AST) -> AV:
        """Evaluate without recording effects (used for classification only)."""
        saved_eff, saved_und, saved_env = dict(self.summary.effects), list(self.summary.undecided), dict(self.env)
        self.quiet = getattr(self, "quiet", 0) + 1
        try:
            return self.ev(e)
        finally:
            self.quiet -= 1
            self.summary.effects, self.summary.undecided, self.env = saved_eff, saved_und, saved_env

    def ev_Subscript(self, e: ast.Subscript) -> AV:
        v = self.ev(e.value)
        self.ev_index(e.slice)
        return self.subscript_load(v, e.slice, e)

    def ev_index(self, sl: ast.AST) -> None:
        if isinstance(sl, ast.Slice):
            for x in (sl.lower, sl.upper, sl.step):
                if x is not None:
                    self.ev(x)
        elif isinstance(sl, ast.Tuple):
            for x in sl.elts:
                self.ev_index(x)
        else:
            self.ev(sl)

    def subscript_load(self, v: AV, sl: ast.AST, node: ast.AST) -> AV:
        if v.kind in (A.ND, A.ALIKE) or (v.kind == A.UNKN and not v.types and v.mem and v.elem is None):
            cls = self.classify_index(sl)
            if cls == "basic":
                return A.view_of(v, DEF if v.kind != A.UNKN else UNK)
            if cls == "advanced":
                return AV(kind=A.ND)
            return A.view_of(v, UNK)
        if self._tensorish(v):
            tg = dispatch_targets(self.prog, v.types, "__getitem__")
            if tg:
                return self.apply(tg, node, [self.ev_quiet(sl) if not isinstance(sl, (ast.Slice, ast.Tuple)) else A.imm()], [], recv=v)
        if v.kind in A.CONTAINERS:
            if isinstance(sl, ast.Slice):
                return AV(kind=v.kind, elem=v.elem)
            if v.kind == A.DICT and isinstance(sl, ast.Constant) and isinstance(sl.value, str):
                known = v.attr("[" + sl.value + "]")
                if known is not None:
                    return known
            return A.elem_of(v)
        return A.elem_of(v)

    # ------------------------------------------------------------------ calls
    def ev_Call(self, e: ast.Call) -> AV:
        f = e.func
        # --- super().m(...)
        if isinstance(f, ast.Attribute) and isinstance(f.value, ast.Call) and isinstance(f.value.func, ast.Name) and f.value.func.id == "super":
            return self.call_super(e)
        # --- type(self)(...) / self.__class__(...)
        if isinstance(f, ast.Call) and isinstance(f.func, ast.Name) and f.func.id == "type" and len(f.args) == 1:
            inner = self.ev(f.args[0])
            ks = [self.prog.classes[t] for t in inner.types if t in self.prog.classes]
            if ks:
                return self.construct(ks, e, with_subclasses=True)
            if self.fn.cls is not None and isinstance(f.args[0], ast.Name) and f.args[0].id == self.selfname:
                return self.construct([self.fn.cls], e, with_subclasses=True)
            self.eval_args(e)
            return A.fresh()
        if isinstance(f, ast.Attribute) and f.attr == "__class__" and self.fn.cls is not None:
            return self.construct([self.fn.cls], e, with_subclasses=True)
        if isinstance(f, ast.Name):
            return self.call_name(e, f.id)
        if isinstance(f, ast.Attribute):
            return self.call_attr(e)
        self.ev(f)
        self.eval_args(e)
        return A.fresh()

    def eval_args(self, e: ast.Call) -> tuple[list[AV], list[tuple[str | None, AV]]]:
        args = []
        for a in e.args:
            if isinstance(a, ast.Starred):
                args.append(("*", self.ev(a.value)))
            else:
                args.append(("", self.ev(a)))
        kws = [(k.arg, self.ev(k.value)) for k in e.keywords]
        return args, kws

    def call_super(self, e: ast.Call) -> AV:
        f = e.func
        tg: dict[str, FunctionInfo] = {}
        cls = self.fn.cls
        if cls is not None:
            owner = cls
            if f.value.args:
                t = self.prog.resolve_expr_name(self.fn.module, f.value.args[0], self.fn)
                owner = self.prog.classes.get(t, owner)
            for s in self.prog.subclasses(cls):
                m = self.prog.lookup_after(s, owner, f.attr)
                if m is not None:
                    tg[m.qualname] = m
        args, kws = self.eval_args(e)
        recv_name = self.fn.params()[0].arg if self.fn.params() else "self"
        recv = self.env.get(recv_name, A.fresh())
        if not tg:
            return A.fresh(A.OBJ) if f.attr == "__new__" else A.fresh()
        out = self.apply(list(tg.values()), e, args, kws, recv=recv, prepared=True)
        if f.attr in ("__init__",):
            self.merge_self_out(list(tg.values()), e, args, kws, recv_name)
        return out

    def call_name(self, e: ast.Call, name: str) -> AV:
        if name in self.env:
            v = self.env[name]
            args, kws = self.eval_args(e)
            if v.kind == A.FUNC and v.const in self.prog.functions:
                return self.apply([self.prog.functions[v.const]], e, args, kws, prepared=True)
            if v.kind == A.CLS and v.types:
                return self.construct([self.prog.classes[t] for t in v.types], e, with_subclasses=True, evaluated=(args, kws))
            return A.fresh()
        nested = f"{self.fn.qualname}.<locals>.{name}"
        if nested in self.prog.functions:
            args, kws = self.eval_args(e)
            return self.apply([self.prog.functions[nested]], e, args, kws, prepared=True)
        t = self.prog.resolve_name(self.fn.module, name, self.fn)
        if t in self.prog.functions:
            args, kws = self.eval_args(e)
            return self.apply([self.prog.functions[t]], e, args, kws, prepared=True)
        if t in self.prog.classes:
            return self.construct([self.prog.classes[t]], e)
        return self.call_builtin(e, name, t)

    def call_builtin(self, e: ast.Call, name: str, target: str | None) -> AV:
        args, kws = self.eval_args(e)
        vals = [v for _s, v in args]
        if name == "cast" and len(vals) == 2:
            v = vals[1]
            tv = self.engine.te.from_annotation(self.fn.module, e.args[0], self.fn, self.fn.cls)
            if tv.classes:
                v = replace(v, types=tv.classes, kind=A.TENSOR if v.kind == A.UNKN else v.kind)
            return v
        if name in ("list", "tuple", "set", "frozenset", "sorted", "reversed", "iter"):
            if vals:
                self.iter_protocol(vals[0], e)
                kind = {"tuple": A.TUPLE, "set": A.SET, "frozenset": A.SET}.get(name, A.LIST)
                return AV(kind=kind, elem=A.elem_of(vals[0]) if vals[0].kind != A.IMM else None)
            return AV(kind=A.LIST)
        if name == "dict":
            return AV(kind=A.DICT, elem=A.elem_of(vals[0]) if vals else None)
        if name in ("enumerate", "zip", "map", "filter"):
            el = None
            for v in vals:
                if v.kind != A.FUNC:
                    self.iter_protocol(v, e)
                    el = A.join(el, A.elem_of(v))
            return AV(kind=A.LIST, elem=AV(kind=A.TUPLE, elem=el) if name in ("enumerate", "zip") else el)
        if name == "sum":
            if vals:
                el = A.elem_of(vals[0])
                if el.kind == A.IMM:
                    return A.imm()
            return AV(kind=A.ND)
        if name == "next" and vals:
            return A.elem_of(vals[0])
        if name == "getattr":
            return A.fresh()
        if name == "setattr" and len(vals) >= 2:
            tgt = vals[0]
            an = vals[1].const if isinstance(vals[1].const, str) else "*"
            for p in tgt.ident:
                self.effect("attr", p, e, DEF, attr=an)
            return A.NONE_AV
        if name == "super":
            return self.env.get(self.fn.params()[0].arg, A.fresh()) if self.fn.params() else A.fresh()
        if name == "type":
            return AV(kind=A.CLS, types=vals[0].types if vals else frozenset())
        if name in PURE_BUILTINS_IMM:
            return A.imm()
        if target is not None and target.startswith("itertools."):
            el = A.elem_of(vals[0]) if vals else None
            return AV(kind=A.LIST, elem=AV(kind=A.TUPLE, elem=el))
        if target is not None and target.split(".")[0] in IMM_MODULES:
            return A.imm()
        if target is not None and target.startswith("numpy."):
            return self.call_numpy(e, target[len("numpy."):], args, kws)
        if target in ("copy.copy", "copy.deepcopy") and vals:
            return AV(kind=vals[0].kind, types=vals[0].types) if target.endswith("deepcopy") else replace(vals[0], ident=frozenset(), share=vals[0].ident | vals[0].share)
        # unknown external callable: result may alias its array arguments (UNK)
        mem = {}
        for v in vals:
            for p, c in v.mem:
                mem[p] = UNK
        return AV(kind=A.UNKN, mem=frozenset(mem.items()))

    # ---- numpy
    def call_numpy(self, e: ast.Call, name: str, args, kws) -> AV:
        vals = [v for _s, v in args]
        kw = dict((k, v) for k, v in kws if k is not None)
        a0 = vals[0] if vals else A.fresh()
        spec = N.NP_FUNCS.get(name)
        if name.endswith(".at") or name in ("random.shuffle",):
            self.write_mem(a0, e, note=f"np.{name} works in place on its first argument")
            return A.NONE_AV
        out_av = kw.get("out")
        if out_av is not None and out_av.kind != A.NONE:
            targets = A.elem_of(out_av) if out_av.kind in (A.TUPLE, A.LIST) else out_av
            self.write_mem(targets, e, note=f"out= argument of np.{name}")
            return replace(targets, kind=A.ND, ident=frozenset())
        if spec is None:
            mem = {}
            for v in vals + list(kw.values()):
                for p, c in v.mem:
                    mem[p] = UNK
            return AV(kind=A.ND, mem=frozenset(mem.items()))
        if spec == N.FRESH:
            return AV(kind=A.ND)
        if spec == N.IMM:
            return A.imm()
        if spec == N.FUNC:
            return AV(kind=A.FUNC)
        if spec == N.TUPLE_FRESH:
            return AV(kind=A.TUPLE, elem=AV(kind=A.ND))
        if spec == N.VIEW0:
            src = a0 if not (args and args[0][0] == "*") else a0
            return A.view_of(src, DEF)
        if spec == N.ALIAS0:
            return A.view_of(a0, SOME)
        if spec == N.VIEWS:
            el = None
            for v in vals:
                el = A.join(el, A.view_of(v, DEF))
            return AV(kind=A.LIST, elem=el)
        if spec == N.ARRAY:
            flag = self.copy_flag_of_call(e, kw)
            if flag == "F":
                return A.view_of(a0, SOME)
            if flag == "U":
                return A.view_of(a0, UNK)
            return AV(kind=A.ND)
        if spec == N.EINSUM:
            arrs = [v for v in vals if v.mem]
            if any(s == "*" for s, _ in args):
                mem = {}
                for v in vals:
                    ev = A.elem_of(v) if v.kind in A.CONTAINERS else v
                    for p, c in ev.mem:
                        mem[p] = UNK
                return AV(kind=A.ND, mem=frozenset(mem.items()))
            n_arr = sum(1 for v in vals if v.kind in (A.ND, A.ALIKE, A.UNKN, A.TENSOR))
            if n_arr <= 1 and arrs:
                return A.view_of(arrs[0], DEF)
            return AV(kind=A.ND)
        if spec == N.INPLACE0:
            self.write_mem(a0, e, note=f"np.{name} writes into its first argument")
            return A.NONE_AV
        return AV(kind=A.ND)

    def copy_flag_of_call(self, e: ast.Call, kw: dict) -> str:
        """'A' absent, 'F' False, 'T' True, 'U' unknown - for the `copy` keyword of this call."""
        for k in e.keywords:
            if k.arg == "copy":
                v = kw.get("copy")
                if v is not None and v.kind == A.IMM and isinstance(v.const, bool):
                    return "F" if v.const is False else "T"
                return "U"
        for k in e.keywords:
            if k.arg is None:
                if isinstance(k.value, ast.Name) and k.value.id == self.kwname:
                    return self.env.get("$copy", A.imm("A")).const or "U"
                return "U"
        return "A"

    # ---- attribute calls
    def call_attr(self, e: ast.Call) -> AV:
        f = e.func
        t = self.prog.resolve_expr_name(self.fn.module, f, self.fn) if not self._is_local_root(f) else None
        if t is not None:
            if t.startswith("numpy."):
                args, kws = self.eval_args(e)
                return self.call_numpy(e, t[len("numpy."):], args, kws)
            if t in self.prog.functions:
                fn2 = self.prog.functions[t]
                args, kws = self.eval_args(e)
                if fn2.cls is not None and not fn2.is_staticmethod:
                    base_t = self.prog.resolve_expr_name(self.fn.module, f.value, self.fn)
                    kcls = self.prog.classes.get(base_t)
                    if fn2.is_classmethod and kcls is not None:
                        return self.apply([fn2], e, args, kws, cls_av=AV(kind=A.CLS, types=frozenset({kcls.qualname}), const=kcls.qualname), prepared=True)
                    # unbound call K.m(obj, ...)
                    if args:
                        return self.apply([fn2], e, args[1:], kws, recv=args[0][1], prepared=True)
                return self.apply([fn2], e, args, kws, prepared=True)
            if t.split(".")[0] in IMM_MODULES:
                self.eval_args(e)
                return A.imm()
            base_t = self.prog.resolve_expr_name(self.fn.module, f.value, self.fn)
            if base_t in self.prog.classes:
                kcls = self.prog.classes[base_t]
                m = self.prog.lookup(kcls, f.attr)
                if m is not None:
                    args, kws = self.eval_args(e)
                    if m.is_classmethod:
                        return self.apply([m], e, args, kws, cls_av=AV(kind=A.CLS, types=frozenset({kcls.qualname}), const=kcls.qualname), prepared=True)
                    if m.is_staticmethod:
                        return self.apply([m], e, args, kws, prepared=True)
                    if args:
                        return self.apply([m], e, args[1:], kws, recv=args[0][1], prepared=True)
            if not t.startswith("geometer"):
                args, kws = self.eval_args(e)
                return self.call_builtin(e, f.attr, t)
        recv = self.ev(f.value)
        return self.call_method(e, recv, f.attr)

    def call_method(self, e: ast.Call, recv: AV, name: str) -> AV:
        args, kws = self.eval_args(e)
        vals = [v for _s, v in args]
        kw = dict((k, v) for k, v in kws if k is not None)
        # class-valued receiver: cls.__new__(cls), cls.from_array(...)
        if recv.kind == A.CLS:
            if name == "__new__":
                types = vals[0].types if vals else recv.types
                return AV(kind=A.TENSOR, types=types)
            tg = dispatch_targets(self.prog, recv.types, name) if recv.types else []
            if tg:
                cm = [m for m in tg if m.is_classmethod or m.is_staticmethod]
                if cm:
                    return self.apply(cm, e, args, kws, cls_av=recv, prepared=True)
                if args:
                    return self.apply(tg, e, args[1:], kws, recv=args[0][1], prepared=True)
            return A.fresh()
        if recv.kind in (A.ND, A.ALIKE):
            return self.nd_method(e, recv, name, vals, kw, DEF)
        if recv.kind in (A.LIST, A.DICT, A.SET, A.TUPLE):
            return self.container_method(e, recv, name, vals)
        if recv.kind in (A.IMM, A.NONE, A.FUNC):
            return A.imm()
        if name == "update" and isinstance(e.func.value, ast.Attribute) and e.func.value.attr == "__dict__":
            return A.NONE_AV  # handled by the statement layer
        if recv.types:
            tg = dispatch_targets(self.prog, recv.types, name)
            if tg:
                return self.apply(tg, e, args, kws, recv=recv, prepared=True)
        in_pkg = methods_named(self.prog, name)
        np_known = name in N.ND_VIEW | N.ND_ALIAS | N.ND_FRESH | N.ND_IMM | N.ND_INPLACE or name == "astype"
        if np_known and (not in_pkg or name in ("copy", "transpose", "dot")) and not recv.types:
            # receiver of unknown kind used like an ndarray: effects are certain only up to UNK
            return self.nd_method(e, recv, name, vals, kw, UNK if recv.kind != A.TENSOR else DEF)
        if name in N.CONTAINER_MUTATORS and not in_pkg:
            return self.container_method(e, recv, name, vals)
        if in_pkg and not recv.types:
            return self.apply(in_pkg, e, args, kws, recv=recv, prepared=True, cha=True)
        return AV(kind=A.UNKN, mem=frozenset((p, UNK) for p, _c in recv.mem))

    def nd_method(self, e, recv: AV, name: str, vals, kw, cap: int) -> AV:
        if name in N.ND_INPLACE:
            self.write_mem(recv, e, cap, note=f"ndarray.{name}() works in place")
            return A.NONE_AV
        out_av = kw.get("out")
        if out_av is not None and out_av.kind != A.NONE:
            self.write_mem(out_av, e, note="out= argument")
            return A.view_of(out_av, DEF)
        if name in N.ND_VIEW:
            return A.view_of(recv, min(DEF, cap))
        if name in N.ND_ALIAS:
            return A.view_of(recv, min(SOME, cap))
        if name == "astype":
            c = kw.get("copy")
            if c is not None and c.kind == A.IMM and c.const is False:
                return A.view_of(recv, min(SOME, cap))
            if c is not None and not (c.kind == A.IMM and c.const is True):
                return A.view_of(recv, UNK)
            return AV(kind=A.ND)
        if name in N.ND_FRESH:
            return AV(kind=A.ND)
        if name in N.ND_IMM:
            return AV(kind=A.LIST) if name == "tolist" else A.imm()
        return A.view_of(recv, UNK)

    def container_method(self, e, recv: AV, name: str, vals) -> AV:
        # kwargs.setdefault("copy", <bool>) / kwargs.pop("copy", ...) / kwargs.update(copy=...) on the **kwargs of this function
        if isinstance(e, ast.Call) and isinstance(e.func, ast.Attribute) and isinstance(e.func.value, ast.Name) and e.func.value.id == getattr(self, "kwname", None):
            first = e.args[0].value if e.args and isinstance(e.args[0], ast.Constant) else None
            cur = self.env.get("$copy", A.imm("A")).const or "U"
            if name == "setdefault" and first == "copy" and len(e.args) == 2:
                if cur == "A":
                    v = vals[-1] if vals else None
                    self.env["$copy"] = A.imm({False: "F", True: "T"}.get(v.const, "U") if v is not None and v.kind == A.IMM and isinstance(v.const, bool) else "U")
                elif cur == "U":
                    pass
            elif name == "pop" and first == "copy":
                self.env["$copy"] = A.imm("A")
            elif name == "update":
                for k in e.keywords:
                    if k.arg == "copy":
                        self.env["$copy"] = A.imm({False: "F", True: "T"}.get(k.value.value, "U") if isinstance(k.value, ast.Constant) else "U")
                    elif k.arg is None:
                        self.env["$copy"] = A.imm("U")
                if e.args:
                    self.env["$copy"] = A.imm("U")
        if name in N.CONTAINER_MUTATORS:
            val = A.join_all(vals) if vals else None
            self.mutate_container(recv, e, val, note=f".{name}() mutates the container")
            # the stored value is now reachable from the container
            if name in ("append", "add", "insert", "extend", "update", "setdefault") and recv.ident and vals:
                self.note_stored(e, recv, vals[-1], e.args[-1] if e.args else None)
            if name in ("pop", "popitem", "setdefault"):
                return A.elem_of(recv)
            if name in ("append", "add", "insert") and isinstance(e.func, ast.Attribute) and isinstance(e.func.value, ast.Name) and vals:
                nm = e.func.value.id
                if nm in self.env and not recv.ident:
                    self.env[nm] = replace(self.env[nm], elem=A.join(self.env[nm].elem, vals[-1]))
            if name == "extend" and isinstance(e.func, ast.Attribute) and isinstance(e.func.value, ast.Name) and vals:
                nm = e.func.value.id
                if nm in self.env and not recv.ident:
                    self.env[nm] = replace(self.env[nm], elem=A.join(self.env[nm].elem, A.elem_of(vals[-1])))
            return A.NONE_AV
        if name == "copy":
            return AV(kind=recv.kind, elem=recv.elem)
        if name in ("get", "pop"):
            return A.elem_of(recv)
        if name in ("keys", "values", "items"):
            return AV(kind=A.LIST, elem=A.elem_of(recv))
        if name in ("index", "count", "join"):
            return A.imm()
        return AV(kind=recv.kind, elem=recv.elem)

    def note_stored(self, node, container: AV, value: AV, raw: ast.AST | None) -> None:
        """After `container[...] = value` on a protected container the local name now aliases the stored element."""
        if isinstance(raw, ast.Name) and raw.id in self.env and container.ident:
            v = self.env[raw.id]
            extra = frozenset((A.sub_path(p, "[]"), DEF) for p in container.ident if A.is_protected(p))
            if extra and v.kind in (A.ND, A.ALIKE, A.UNKN, A.TENSOR):
                self.env[raw.id] = replace(v, mem=v.mem | extra)

    def iter_protocol(self, v: AV, node: ast.AST) -> None:
        if self._tensorish(v):
            tg = dispatch_targets(self.prog, v.types, "__iter__")
            if tg:
                self.apply(tg, node, [], [], recv=v)


def norm_stmt_of(an, node: ast.AST) -> str:
    from geolint.model import norm_stmt

    st = getattr(an, "cur_stmt", None)
    return norm_stmt(st if st is not None else node)
