"""E9 - kind-dispatch analysis of functions that select a formula by isinstance tests on two parameters (dist).

The ordered decision list is evaluated over every ordered pair of concrete kinds of the package using the static class
hierarchy; recursive calls are followed through the static types of their arguments.
"""

from __future__ import annotations

import ast
from typing import Iterator

from geolint.model import ClassInfo, FunctionInfo, Program, norm_stmt, walk_no_nested
from geolint.report import INFO, PROVEN, UNDECIDED, VIOLATION, Run
from geolint.typeval import EMPTY, TypeEval, TypeVal

T, F, U = "T", "F", "U"


def _and(a, b):
    if a == F or b == F:
        return F
    if a == T and b == T:
        return T
    return U


def _or(a, b):
    if a == T or b == T:
        return T
    if a == F and b == F:
        return F
    return U


def _not(a):
    return {T: F, F: T, U: U}[a]


class Dispatch:
    def __init__(self, prog: Program, fn: FunctionInfo) -> None:
        self.prog = prog
        self.fn = fn
        self.te = TypeEval(prog)
        ps = fn.params()
        self.p, self.q = ps[0].arg, ps[1].arg
        self.branches: list[tuple[ast.AST, list[ast.stmt], ast.stmt]] = []  # (test or None, body, stmt)
        for st in fn.node.body:
            if isinstance(st, ast.If):
                cur = st
                while True:
                    self.branches.append((cur.test, cur.body, cur))
                    if len(cur.orelse) == 1 and isinstance(cur.orelse[0], ast.If):
                        cur = cur.orelse[0]
                        continue
                    if cur.orelse:
                        self.branches.append((None, cur.orelse, cur.orelse[0]))
                    break
            elif isinstance(st, (ast.Raise, ast.Return)):
                self.branches.append((None, [st], st))
        base_ann = self.te.param_types(fn)
        kinds: dict[str, ClassInfo] = {}
        for name in (self.p, self.q):
            for qn in base_ann.get(name, EMPTY).classes:
                for c in prog.concrete_subclasses(prog.classes[qn]):
                    kinds[c.qualname] = c
        self.kinds = [kinds[k] for k in sorted(kinds)]

    # ------------------------------------------------------------------ conditions
    def _cls_of(self, e: ast.AST) -> list[ClassInfo] | None:
        if isinstance(e, ast.Tuple):
            out = []
            for x in e.elts:
                r = self._cls_of(x)
                if r is None:
                    return None
                out += r
            return out
        t = self.prog.resolve_expr_name(self.fn.module, e, self.fn)
        if t in self.prog.classes:
            return [self.prog.classes[t]]
        return None

    def is_eq_shortcut(self, test: ast.AST) -> bool:
        for n in ast.walk(test):
            if isinstance(n, ast.Compare) and len(n.ops) == 1 and isinstance(n.ops[0], ast.Eq):
                names = {getattr(n.left, "id", None), getattr(n.comparators[0], "id", None)}
                if names == {self.p, self.q}:
                    return True
        return False

    def cond(self, e: ast.AST, P: ClassInfo, Q: ClassInfo) -> str:
        kind = {self.p: P, self.q: Q}
        if isinstance(e, ast.BoolOp):
            vals = [self.cond(v, P, Q) for v in e.values]
            out = vals[0]
            for v in vals[1:]:
                out = _and(out, v) if isinstance(e.op, ast.And) else _or(out, v)
            return out
        if isinstance(e, ast.UnaryOp) and isinstance(e.op, ast.Not):
            return _not(self.cond(e.operand, P, Q))
        if isinstance(e, ast.Call) and isinstance(e.func, ast.Name) and e.func.id == "isinstance" and len(e.args) == 2:
            x, k = e.args
            if isinstance(x, ast.Name) and x.id in kind:
                # isinstance(p, type(q))
                if isinstance(k, ast.Call) and isinstance(k.func, ast.Name) and k.func.id == "type" and len(k.args) == 1 \
                        and isinstance(k.args[0], ast.Name) and k.args[0].id in kind:
                    return T if self.prog.is_subclass(kind[x.id], kind[k.args[0].id]) else F
                ks = self._cls_of(k)
                if ks is None:
                    return U
                return T if any(self.prog.is_subclass(kind[x.id], c) for c in ks) else F
            return U
        if isinstance(e, ast.Compare) and len(e.ops) == 1 and isinstance(e.ops[0], (ast.Is, ast.IsNot)):
            def ty(x):
                if isinstance(x, ast.Call) and isinstance(x.func, ast.Name) and x.func.id == "type" and len(x.args) == 1 \
                        and isinstance(x.args[0], ast.Name) and x.args[0].id in kind:
                    return kind[x.args[0].id]
                return None

            a, b = ty(e.left), ty(e.comparators[0])
            if a is not None and b is not None:
                r = T if a is b else F
                return r if isinstance(e.ops[0], ast.Is) else _not(r)
        return U

    # ------------------------------------------------------------------ actions
    def _calls_with_env(self, e: ast.AST, env: dict[str, TypeVal]) -> Iterator[tuple[ast.Call, dict[str, TypeVal]]]:
        if isinstance(e, (ast.ListComp, ast.GeneratorExp, ast.SetComp)):
            env2 = dict(env)
            for g in e.generators:
                yield from self._calls_with_env(g.iter, env2)
                self.te.bind(g.target, self.te.iter_elem(self.te.eval(self.fn, g.iter, env2)), env2)
                for c in g.ifs:
                    yield from self._calls_with_env(c, env2)
            yield from self._calls_with_env(e.elt, env2)
            return
        if isinstance(e, ast.Call):
            tgt = self.prog.resolve_expr_name(self.fn.module, e.func, self.fn)
            if tgt == self.fn.qualname or (tgt in self.prog.functions and self.prog.body_of(self.prog.functions[tgt]) is self.fn):
                yield e, env
        for ch in ast.iter_child_nodes(e):
            if isinstance(ch, (ast.FunctionDef, ast.Lambda, ast.ClassDef)):
                continue
            yield from self._calls_with_env(ch, env)

    def action(self, body: list[ast.stmt], P: ClassInfo, Q: ClassInfo):
        """('raise'|'base'|'reduce'|'undecided', successors)"""
        env = {self.p: TypeVal(frozenset({P.qualname})), self.q: TypeVal(frozenset({Q.qualname}))}
        succ: list[tuple[ClassInfo, ClassInfo]] = []
        state = {"unknown": False, "ret": False, "raise_only": True}

        def expr(ex: ast.AST) -> None:
            for call, cenv in self._calls_with_env(ex, env):
                if len(call.args) < 2:
                    state["unknown"] = True
                    continue
                ta = self.te.eval(self.fn, call.args[0], cenv)
                tb = self.te.eval(self.fn, call.args[1], cenv)
                broad = {"Tensor", "ProjectiveTensor", "BoundTensor", "TensorCollection"}
                if not ta.classes or not tb.classes or any(self.prog.classes[q].name in broad for q in ta.classes | tb.classes):
                    state["unknown"] = True
                    continue
                for a in ta.classes:
                    for b in tb.classes:
                        for ca in self.prog.concrete_subclasses(self.prog.classes[a]):
                            for cb in self.prog.concrete_subclasses(self.prog.classes[b]):
                                succ.append((ca, cb))

        def block(stmts: list[ast.stmt]) -> None:
            for st in stmts:
                if isinstance(st, ast.Raise):
                    continue
                state["raise_only"] = False
                if isinstance(st, ast.Assign):
                    expr(st.value)
                    if len(st.targets) == 1:
                        self.te.bind(st.targets[0], self.te.eval(self.fn, st.value, env), env)
                elif isinstance(st, ast.Return):
                    state["ret"] = True
                    if st.value is not None:
                        expr(st.value)
                elif isinstance(st, ast.Expr):
                    expr(st.value)
                elif isinstance(st, ast.If):
                    expr(st.test)
                    block(st.body)
                    block(st.orelse)
                elif isinstance(st, (ast.For, ast.While)):
                    if isinstance(st, ast.For):
                        expr(st.iter)
                        self.te.bind(st.target, self.te.iter_elem(self.te.eval(self.fn, st.iter, env)), env)
                    block(st.body)
                    block(st.orelse)
                elif isinstance(st, ast.With):
                    block(st.body)
                elif isinstance(st, ast.Try):
                    block(st.body)
                    for h in st.handlers:
                        block(h.body)
                    block(st.orelse)
                    block(st.finalbody)

        block(body)
        if state["raise_only"] and any(isinstance(st, ast.Raise) for st in body):
            return ("raise", [])
        if state["unknown"]:
            return ("undecided", succ)
        if succ:
            return ("reduce", succ)
        if state["ret"]:
            return ("base", [])
        return ("undecided", [])

    def evaluate(self, P: ClassInfo, Q: ClassInfo):
        """Interprets the body as a decision tree for the kind pair: (kind, successors, deciding statement).
        kind in 'base' | 'reduce' | 'raise' | 'undecided' | 'fallthrough'."""
        env = {self.p: TypeVal(frozenset({P.qualname})), self.q: TypeVal(frozenset({Q.qualname}))}
        succ: list[tuple[ClassInfo, ClassInfo]] = []
        state = {"unknown": False}

        def expr(ex: ast.AST) -> None:
            for call, cenv in self._calls_with_env(ex, env):
                if len(call.args) < 2:
                    state["unknown"] = True
                    continue
                ta = self.te.eval(self.fn, call.args[0], cenv)
                tb = self.te.eval(self.fn, call.args[1], cenv)
                broad = {"Tensor", "ProjectiveTensor", "BoundTensor", "TensorCollection"}
                if not ta.classes or not tb.classes or any(self.prog.classes[q].name in broad for q in ta.classes | tb.classes):
                    state["unknown"] = True
                    continue
                for a in ta.classes:
                    for b in tb.classes:
                        for ca in self.prog.concrete_subclasses(self.prog.classes[a]):
                            for cb in self.prog.concrete_subclasses(self.prog.classes[b]):
                                succ.append((ca, cb))

        def finish(st, is_raise=False):
            if is_raise:
                return ("raise", [], st)
            if state["unknown"]:
                return ("undecided", list(succ), st)
            if succ:
                return ("reduce", list(succ), st)
            return ("base", [], st)

        def block(stmts, owner):
            for st in stmts:
                if isinstance(st, ast.If):
                    c = self.cond(st.test, P, Q)
                    if c == T:
                        r = block(st.body, st)
                        if r is not None:
                            return r
                    elif c == F:
                        r = block(st.orelse, st)
                        if r is not None:
                            return r
                    elif self.is_eq_shortcut(st.test):
                        continue  # value dependent short-cut: may be taken, does not change which formula is reached otherwise
                    else:
                        # an undecidable condition that guards only value-level variations (p.dim > 2 ...): follow both arms
                        expr(st.test)
                        saved = (list(succ), dict(env), dict(state))
                        r1 = block(st.body, st)
                        s1 = list(succ)
                        succ[:] = saved[0]
                        r2 = block(st.orelse, st)
                        succ[:] = list({(a.qualname, b.qualname): (a, b) for a, b in s1 + succ}.values())
                        if r1 is not None and r2 is not None:
                            order = {"raise": 3, "undecided": 2, "reduce": 1, "base": 0}
                            worst = r1 if order[r1[0]] >= order[r2[0]] else r2
                            if worst[0] in ("reduce", "base") and succ:
                                return ("reduce", list(succ), worst[2])
                            return (worst[0], list(succ), worst[2])
                        if r1 is not None or r2 is not None:
                            # one arm returns, the other falls through: keep collecting successors of the fall-through path
                            pending = r1 or r2
                            rest = stmts[stmts.index(st) + 1:]
                            r3 = block(rest, owner)
                            if r3 is None:
                                return pending
                            order = {"raise": 3, "undecided": 2, "reduce": 1, "base": 0}
                            worst = pending if order[pending[0]] >= order[r3[0]] else r3
                            if worst[0] in ("reduce", "base") and succ:
                                return ("reduce", list(succ), worst[2])
                            return (worst[0], list(succ), worst[2])
                elif isinstance(st, ast.Return):
                    if st.value is not None:
                        expr(st.value)
                    return finish(owner if owner is not None else st)
                elif isinstance(st, ast.Raise):
                    return finish(owner if owner is not None else st, is_raise=True)
                elif isinstance(st, ast.Assign):
                    expr(st.value)
                    if len(st.targets) == 1:
                        self.te.bind(st.targets[0], self.te.eval(self.fn, st.value, env), env)
                elif isinstance(st, ast.Expr):
                    expr(st.value)
                elif isinstance(st, (ast.For, ast.While)):
                    if isinstance(st, ast.For):
                        expr(st.iter)
                        self.te.bind(st.target, self.te.iter_elem(self.te.eval(self.fn, st.iter, env)), env)
                    r = block(st.body, owner)
                    if r is not None:
                        return r
                elif isinstance(st, (ast.With, ast.Try)):
                    r = block(st.body, owner)
                    if r is not None:
                        return r
            return None

        r = block(self.fn.node.body, None)
        return r if r is not None else ("fallthrough", [], self.fn.node)

    def enclosing_ifs(self, target: ast.AST) -> list[tuple[ast.If, bool]]:
        """[(enclosing if statement, target lies in its body (True) / its else arm (False))], outermost first"""
        def find(stmts, trail):
            for st in stmts:
                if st is target:
                    return trail
                if isinstance(st, ast.If):
                    r = find(st.body, trail + [(st, True)])
                    if r is None:
                        r = find(st.orelse, trail + [(st, False)])
                    if r is not None:
                        return r
                else:
                    for f in ("body", "orelse", "finalbody"):
                        sub = getattr(st, f, None)
                        if isinstance(sub, list) and sub and isinstance(sub[0], ast.stmt):
                            r = find(sub, trail)
                            if r is not None:
                                return r
            return None

        return find(self.fn.node.body, []) or []

    def static_isinstance_only(self, test: ast.AST) -> bool:
        """the test consists of isinstance checks on the two parameters only (so 'never selected' is meaningful)"""
        for n in ast.walk(test):
            if isinstance(n, ast.Call) and not (isinstance(n.func, ast.Name) and n.func.id in ("isinstance", "type")):
                return False
            if isinstance(n, ast.Compare):
                return False
        return True

    def decision_ifs(self) -> list[ast.If]:
        """If statements whose body returns or raises directly: the branches of the dispatch."""
        out = []
        for n in ast.walk(self.fn.node):
            if isinstance(n, ast.If) and any(isinstance(x, (ast.Return, ast.Raise)) for x in n.body):
                out.append(n)
        return out

    def select(self, P: ClassInfo, Q: ClassInfo) -> tuple[int | None, str]:
        for i, (test, _body, _st) in enumerate(self.branches):
            if test is None:
                return i, T
            c = self.cond(test, P, Q)
            if c == T:
                return i, T
            if c == U:
                if self.is_eq_shortcut(test):
                    continue  # value dependent short-cut: may be taken, does not change which formula is reached otherwise
                return i, U
        return None, F


def analyse(run: Run, prog: Program, fn: FunctionInfo, documented: list[tuple[str, str]]) -> int:
    d = Dispatch(prog, fn)
    rel = fn.module.rel
    n = 0
    # ---- evaluate every ordered pair once (decision tree, nested branches included)
    table: dict[tuple[str, str], tuple[object, str, str, list]] = {}
    for P in d.kinds:
        for Q in d.kinds:
            kind, succ, st = d.evaluate(P, Q)
            if kind == "fallthrough":
                table[(P.qualname, Q.qualname)] = (None, "fallthrough", "undecided", [])
            else:
                table[(P.qualname, Q.qualname)] = (id(st), "selected", kind, [(a.qualname, b.qualname) for a, b in succ])
    n = len(table)
    branch_nodes = d.decision_ifs()
    run.stats["dispatch_kinds"] = len(d.kinds)
    run.stats["dispatch_pairs"] = n
    run.stats["dispatch_branches"] = len(branch_nodes)

    # ---- outcome of a pair: follow reductions
    memo: dict[tuple[str, str], tuple[str, tuple | None]] = {}

    def outcome(pair, stack) -> tuple[str, tuple | None]:
        """('base'|'raise'|'cycle'|'undecided', witness pair)"""
        if pair in memo:
            return memo[pair]
        if pair in stack:
            return ("cycle", pair)
        ent = table.get(pair)
        if ent is None:
            return ("undecided", pair)
        idx, _how, kind, succ = ent
        if kind in ("base",):
            r = ("base", None)
        elif kind == "raise":
            r = ("raise", pair)
        elif kind == "undecided":
            r = ("undecided", pair)
        else:
            r = ("base", None)
            order = {"cycle": 3, "raise": 2, "undecided": 1, "base": 0}
            for s in succ:
                o = outcome(s, stack | {pair})
                if order[o[0]] > order[r[0]]:
                    r = o
        if r[0] != "cycle" or not stack:
            memo[pair] = r
        return r

    short = lambda q: q.rsplit(".", 1)[-1]  # noqa: E731

    # ---- (1) termination: cycles anywhere
    run.rule("E9.1", "the reduction graph of the dispatch over ordered kind pairs is acyclic (no infinite recursion)")
    cyc_by_branch: dict[int, list[str]] = {}
    for pair, (idx, _how, kind, succ) in table.items():
        if kind != "reduce":
            continue
        o = outcome(pair, frozenset())
        if o[0] == "cycle":
            cyc_by_branch.setdefault(idx, []).append(f"({short(pair[0])}, {short(pair[1])})")
    for st in branch_nodes:
        loc = f"{rel}:{st.lineno}"
        label = norm_stmt(st)
        if id(st) in cyc_by_branch:
            pairs = sorted(set(cyc_by_branch[id(st)]))
            run.add("E9.1", fn.short, label, VIOLATION,
                    f"{fn.name} recurses without reaching a base case for the kind pairs {', '.join(pairs[:8])}"
                    f"{' ...' if len(pairs) > 8 else ''}: this branch is selected again with the same kinds (infinite recursion)",
                    loc, {"pairs": pairs})
        else:
            sel = sum(1 for v in table.values() if v[0] == id(st) and v[1] == "selected")
            run.add("E9.1", fn.short, label, PROVEN, f"decides {sel} kind pair(s); every reduction from it terminates", loc)
    stray = [k for k in cyc_by_branch if k not in {id(b) for b in branch_nodes}]
    for k in stray:
        pairs = sorted(set(cyc_by_branch[k]))
        run.add("E9.1", fn.short, "recursive call outside a branch", VIOLATION,
                f"{fn.name} recurses without reaching a base case for the kind pairs {', '.join(pairs[:8])}", fn.loc, {"pairs": pairs})

    # ---- (2) dead branches
    run.rule("E9.2", "every branch of the dispatch is selected by some ordered pair of concrete kinds (information only)")
    for st in branch_nodes:
        if d.is_eq_shortcut(st.test):
            continue
        if any(isinstance(x, ast.If) for x in st.body):
            continue  # an outer grouping branch: its inner branches are listed on their own
        sel = sum(1 for v in table.values() if v[0] == id(st))
        if sel == 0 and d.static_isinstance_only(st.test):
            run.add("E9.2", fn.short, norm_stmt(st), INFO, "branch is never selected: shadowed by an earlier branch", f"{rel}:{st.lineno}")

    # ---- (3)/(4) documented pairs reach the base formula in both orders
    run.rule("E9.3", "every kind pair that C09 documents reaches a base formula (no TypeError, no cycle), in both argument orders")
    for a, b in documented:
        ca, cb = prog.find_cls(a), prog.find_cls(b)
        if ca is None or cb is None:
            run.add("E9.3", fn.short, f"({a}, {b})", UNDECIDED, "documented kind no longer exists under this name")
            continue
        for A, B in ((ca, cb), (cb, ca)):
            bad: dict[str, list[str]] = {}
            total = 0
            for P in prog.concrete_subclasses(A):
                for Q in prog.concrete_subclasses(B):
                    if (P.qualname, Q.qualname) not in table:
                        continue
                    total += 1
                    o = outcome((P.qualname, Q.qualname), frozenset())
                    if o[0] != "base":
                        bad.setdefault(o[0], []).append(f"({P.name}, {Q.name})")
            label = f"({A.name}, {B.name})"
            if not total:
                run.add("E9.3", fn.short, label, UNDECIDED, "no concrete pair of these kinds is dispatched")
            elif "raise" in bad:
                run.add("E9.3", fn.short, label, VIOLATION,
                        f"documented pair {label} ends in the TypeError branch for {', '.join(bad['raise'][:6])}", fn.loc, bad)
            elif "cycle" in bad:
                run.add("E9.3", fn.short, label, VIOLATION,
                        f"documented pair {label} never reaches a base formula (cyclic reduction) for {', '.join(bad['cycle'][:6])}", fn.loc, bad)
            elif "undecided" in bad:
                run.add("E9.3", fn.short, label, UNDECIDED, f"not resolved for {', '.join(bad['undecided'][:6])}", fn.loc)
            else:
                run.add("E9.3", fn.short, label, PROVEN, f"all {total} concrete pairs reach a base formula", fn.loc)
            if A is B:
                break

    # ---- (5) kind-blind equality short-cut
    run.rule(
        "E9.5",
        "an `==` between the two dispatch parameters used as a short-cut must be dominated by a same-kind guard when the "
        "resolved __eq__ is kind-blind (compares shapes and coordinates but neither classes nor index types): a point and a "
        "line with equal coordinate vectors are different objects",
    )
    for st in [x for x in ast.walk(fn.node) if isinstance(x, ast.If)]:
        test = st.test
        if not d.is_eq_shortcut(test):
            continue
        idx = st.lineno
        loc = f"{rel}:{st.lineno}"
        label = norm_stmt(st)
        blind = eq_is_kind_blind(prog)
        if blind is None:
            run.add("E9.5", fn.short, label, UNDECIDED, "__eq__ of the projective classes not resolved", loc)
            continue
        if not blind:
            run.add("E9.5", fn.short, label, PROVEN, "the resolved __eq__ compares kinds itself", loc)
            continue
        # is the == conjunct guarded by a same-kind test that is False for some cross-kind pair with Unknown otherwise?
        guarded = True
        witness = None
        for P in d.kinds:
            for Q in d.kinds:
                if prog.is_subclass(P, Q) or prog.is_subclass(Q, P):
                    continue
                fam_p, fam_q = _family(prog, P), _family(prog, Q)
                if fam_p is fam_q:
                    continue
                outer = T
                for enc, in_body in d.enclosing_ifs(st):
                    c_ = d.cond(enc.test, P, Q)
                    outer = _and(outer, c_ if in_body else _not(c_))
                if outer != F and d.cond(test, P, Q) != F:
                    # only branches that return EARLIER in the text could have caught the pair
                    kind, _succ, dst = d.evaluate(P, Q)
                    if kind != "fallthrough" and getattr(dst, "lineno", 10 ** 9) < st.lineno:
                        continue
                    guarded = False
                    witness = witness or (P.name, Q.name)
        if guarded:
            run.add("E9.5", fn.short, label, PROVEN, "the short-cut is excluded for every cross-kind pair by a same-kind guard", loc)
        else:
            run.add("E9.5", fn.short, label, VIOLATION,
                    f"`{d.p} == {d.q}` short-circuits {fn.name} to 0 for objects of different kinds (e.g. {witness[0]} and {witness[1]}): "
                    f"the resolved ProjectiveTensor.__eq__ is kind-blind, so a point and a line with proportional coordinate vectors "
                    f"compare equal", loc)
    return n


def _family(prog: Program, c: ClassInfo) -> ClassInfo:
    """First abstract ancestor directly below ProjectiveTensor/PointLikeTensor: PointTensor, LineTensor, PlaneTensor, ..."""
    roots = {"ProjectiveTensor", "PointLikeTensor", "SubspaceTensor", "PolytopeTensor", "Tensor", "BoundTensor", "TensorCollection"}
    best = c
    for k in prog.mro(c):
        if k.name in roots:
            break
        if k.name.endswith("Tensor"):
            best = k
    return best


def eq_is_kind_blind(prog: Program) -> bool | None:
    pt = prog.find_cls("ProjectiveTensor")
    if pt is None:
        return None
    eq = prog.lookup(pt, "__eq__")
    if eq is None:
        return None
    src = ast.unparse(eq.node)
    if "type(" in src or "__class__" in src or "tensor_shape" in src or "_covariant_indices ==" in src or "_covariant_indices !=" in src:
        return False
    for n in walk_no_nested(eq.node):
        if isinstance(n, ast.Call) and isinstance(n.func, ast.Name) and n.func.id == "isinstance" and len(n.args) == 2:
            names = [x.id for x in ast.walk(n.args[1]) if isinstance(x, ast.Name)]
            for nm in names:
                if nm not in ("Tensor", "ProjectiveTensor", "Number", "int", "float", "complex"):
                    return False
    return True
