"""E2 - override / operator-pair consistency, E3 - ufunc dispatch tables, E4 V1 - index-set discipline.

All three serve C19 (tensor arithmetic and index bookkeeping).
"""

from __future__ import annotations

import ast

from geolint.model import ClassInfo, FunctionInfo, Program, norm_stmt, walk_no_nested
from geolint.report import INFO, PROVEN, UNDECIDED, VIOLATION, Run

BINARY = {
    "add": ast.Add, "sub": ast.Sub, "mul": ast.Mult, "truediv": ast.Div, "floordiv": ast.FloorDiv,
    "mod": ast.Mod, "pow": ast.Pow, "matmul": ast.MatMult, "and": ast.BitAnd, "or": ast.BitOr,
    "xor": ast.BitXor, "lshift": ast.LShift, "rshift": ast.RShift,
}
COMMUTATIVE = {"add", "mul", "and", "or", "xor"}
UNARY = {"neg": ast.USub, "pos": ast.UAdd, "invert": ast.Invert, "abs": None}
COMPARE = {"eq", "ne", "lt", "le", "gt", "ge"}
OP_TOKEN = {ast.Add: "+", ast.Sub: "-", ast.Mult: "*", ast.Div: "/", ast.FloorDiv: "//", ast.Mod: "%",
            ast.Pow: "**", ast.MatMult: "@", ast.BitAnd: "&", ast.BitOr: "|", ast.BitXor: "^",
            ast.LShift: "<<", ast.RShift: ">>"}


def _dunder_parts(name: str) -> tuple[str, bool] | None:
    """('sub', reflected?) for __sub__/__rsub__/__isub__ style names, None otherwise."""
    if not (name.startswith("__") and name.endswith("__")):
        return None
    core = name[2:-2]
    if core in BINARY or core in UNARY or core in COMPARE:
        return core, False
    if core.startswith("r") and core[1:] in BINARY:
        return core[1:], True
    return None


OPERATOR_FAMILY = (
    {f"__{k}__" for k in BINARY} | {f"__r{k}__" for k in BINARY} | {f"__i{k}__" for k in BINARY}
    | {f"__{k}__" for k in UNARY} | {f"__{k}__" for k in COMPARE}
    | {"__getitem__", "__setitem__", "__apply__", "__iter__", "__len__", "__contains__"}
)


def _is_super_call(e: ast.AST) -> bool:
    return isinstance(e, ast.Call) and isinstance(e.func, ast.Name) and e.func.id == "super"


def _param_forms(fn: FunctionInfo) -> tuple[str | None, str | None]:
    ps = fn.params()
    if fn.is_staticmethod:
        return None, ps[0].arg if ps else None
    self_name = ps[0].arg if ps else None
    other = ps[1].arg if len(ps) > 1 else None
    return self_name, other


def _is_neg_of(e: ast.AST, name: str | None) -> bool:
    return (
        name is not None
        and isinstance(e, ast.UnaryOp)
        and isinstance(e.op, ast.USub)
        and isinstance(e.operand, ast.Name)
        and e.operand.id == name
    )


def _is_recip_of(e: ast.AST, name: str | None) -> bool:
    return (
        name is not None
        and isinstance(e, ast.BinOp)
        and isinstance(e.op, ast.Div)
        and isinstance(e.left, ast.Constant)
        and e.left.value in (1, 1.0)
        and isinstance(e.right, ast.Name)
        and e.right.id == name
    )


def rule_S1(run: Run, prog: Program) -> int:
    """super-delegation agreement."""
    run.rule(
        "E2.S1",
        "in method m, super().x(...) must have x == m; for operator dunders a different x is a violation unless it is an "
        "algebraically valid cross-delegation (__sub__ -> __add__(-other), __truediv__ -> __mul__(1/other), __radd__ -> __add__(other))",
    )
    n = 0
    for fn in prog.package_functions():
        if fn.cls is None or fn.parent is not None:
            continue
        for node in walk_no_nested(fn.node):
            if not (isinstance(node, ast.Call) and isinstance(node.func, ast.Attribute) and _is_super_call(node.func.value)):
                continue
            n += 1
            x = node.func.attr
            m = fn.name
            stmt = norm_stmt(node)
            loc = f"{fn.module.rel}:{node.lineno}"
            if x == m:
                run.add("E2.S1", fn.short, stmt, PROVEN, f"delegates to the same method of the next class ({x})", loc)
                continue
            if m in OPERATOR_FAMILY and x in OPERATOR_FAMILY:
                _s, other = _param_forms(fn)
                arg0 = node.args[0] if node.args else None
                ok = False
                if (m, x) == ("__sub__", "__add__") and _is_neg_of(arg0, other):
                    ok = True
                elif (m, x) == ("__truediv__", "__mul__") and _is_recip_of(arg0, other):
                    ok = True
                elif (m, x) in {("__radd__", "__add__"), ("__iadd__", "__add__"), ("__isub__", "__sub__"),
                                ("__imul__", "__mul__"), ("__itruediv__", "__truediv__")} and isinstance(arg0, ast.Name) and arg0.id == other:
                    ok = True
                elif (m, x) == ("__rmul__", "__mul__"):
                    run.add("E2.S1", fn.short, stmt, UNDECIDED, "__rmul__ -> __mul__ is valid for scalars only; not decided", loc)
                    continue
                if ok:
                    run.add("E2.S1", fn.short, stmt, PROVEN, f"valid cross-delegation {m} -> {x}", loc)
                else:
                    run.add(
                        "E2.S1", fn.short, stmt, VIOLATION,
                        f"{fn.short} falls through to super().{x}(...): the operator {m} is computed as {x} "
                        f"for every operand that reaches this branch",
                        loc,
                    )
            else:
                run.add("E2.S1", fn.short, stmt, INFO, f"{m} calls super().{x}: not an operator pair, not judged", loc)
    return n


def _returns(fn: FunctionInfo) -> list[ast.Return]:
    return [n for n in walk_no_nested(fn.node) if isinstance(n, ast.Return) and n.value is not None]


def rule_S2(run: Run, prog: Program) -> int:
    """direct operator form in dunders: `return self OP other`."""
    run.rule(
        "E2.S2",
        "a dunder __X__ returning `self OP other` must use OP == X; a reflected __rX__ of a non-commutative X must not "
        "return `self X other` / self.__X__(other) (operands swapped)",
    )
    n = 0
    for fn in prog.package_functions():
        if fn.cls is None or fn.parent is not None:
            continue
        parts = _dunder_parts(fn.name)
        if parts is None or parts[0] not in BINARY:
            continue
        core, reflected = parts
        self_name, other = _param_forms(fn)
        for r in _returns(fn):
            v = r.value
            loc = f"{fn.module.rel}:{r.lineno}"
            stmt = norm_stmt(r)
            if isinstance(v, ast.BinOp) and isinstance(v.left, ast.Name) and isinstance(v.right, ast.Name):
                names = (v.left.id, v.right.id)
                if set(names) != {self_name, other}:
                    continue
                n += 1
                op_ok = isinstance(v.op, BINARY[core])
                tok = OP_TOKEN.get(type(v.op), "?")
                if not op_ok:
                    run.add("E2.S2", fn.short, stmt, VIOLATION,
                            f"{fn.name} returns `{names[0]} {tok} {names[1]}`: a different operator than the one it implements", loc)
                elif reflected and core not in COMMUTATIVE and names == (self_name, other):
                    run.add("E2.S2", fn.short, stmt, VIOLATION,
                            f"{fn.name} (reflected, non-commutative) returns `self {tok} other`: operands are not swapped", loc)
                elif not reflected and core not in COMMUTATIVE and names == (other, self_name):
                    run.add("E2.S2", fn.short, stmt, VIOLATION,
                            f"{fn.name} returns `other {tok} self`: operands swapped for a non-commutative operator", loc)
                else:
                    run.add("E2.S2", fn.short, stmt, PROVEN, "operator and operand order agree with the dunder", loc)
            elif (
                isinstance(v, ast.Call) and isinstance(v.func, ast.Attribute) and isinstance(v.func.value, ast.Name)
                and v.func.value.id == self_name and _dunder_parts(v.func.attr) is not None and len(v.args) == 1
                and isinstance(v.args[0], ast.Name) and v.args[0].id == other
            ):
                n += 1
                core2, refl2 = _dunder_parts(v.func.attr)
                if core2 != core and core2 in BINARY:
                    run.add("E2.S2", fn.short, stmt, VIOLATION, f"{fn.name} returns self.{v.func.attr}(other): a different operator", loc)
                elif core2 == core and reflected and not refl2 and core not in COMMUTATIVE:
                    run.add("E2.S2", fn.short, stmt, VIOLATION, f"{fn.name} returns self.{v.func.attr}(other): operands are not swapped", loc)
                else:
                    run.add("E2.S2", fn.short, stmt, PROVEN, "explicit dunder call agrees", loc)
    return n


C19_OPERATORS = ["__add__", "__radd__", "__sub__", "__rsub__", "__mul__", "__rmul__", "__truediv__", "__neg__",
                 "__getitem__", "__array_ufunc__"]


def rule_S3(run: Run, prog: Program) -> int:
    run.rule("E2.S3", "every operator named by C19 resolves, for every concrete tensor class, to a method defined in the package")
    tensor = prog.cls("Tensor")
    n = 0
    for c in prog.concrete_subclasses(tensor):
        for op in C19_OPERATORS:
            n += 1
            f = prog.lookup(c, op)
            if f is None and prog.class_attr(c, op) is not None:
                owner, val = prog.class_attr(c, op)
                run.add("E2.S3", c.name, op, PROVEN, f"bound in the class body of {owner.name} (`{op} = {ast.unparse(val)[:30]}`)", owner.loc)
                continue
            if f is None:
                run.add("E2.S3", c.name, op, VIOLATION,
                        f"{c.name} has no {op}: with __array_ufunc__ in place the operator raises TypeError / falls back to ndarray semantics",
                        c.loc)
            else:
                run.add("E2.S3", c.name, op, PROVEN, f"resolves to {f.short}", f.loc)
    return n


# ---------------------------------------------------------------------------------------------- S4
RAW_ARRAY_ATTRS = {"array", "normalized_array"}
SCALAR_PREDICATES = {"is_numerical_scalar", "isscalar"}


def _terminates(stmts: list[ast.stmt]) -> bool:
    return bool(stmts) and isinstance(stmts[-1], (ast.Return, ast.Raise, ast.Continue, ast.Break))


def rule_S4(run: Run, prog: Program) -> int:
    """Raw ndarray arithmetic never receives a Tensor operand."""
    run.rule(
        "E2.S4",
        "in `<x>.array OP p` the other operand p is never a Tensor: a parameter annotated with a tensor class is unwrapped "
        "(p = p.array), excluded by an isinstance/scalar guard, or the operation is left to the tensor operators. (ndarray OP "
        "Tensor is handed by numpy to the TENSOR's reflected operator through __array_ufunc__, so the result would be a Tensor "
        "typed by the other operand instead of an array for the receiver's index types)",
    )
    tensor = prog.cls("Tensor")
    n = 0
    MAY, NO = "may be a Tensor", "not a Tensor"

    for fn in prog.package_functions():
        tracked: dict[str, str] = {}
        for prm in fn.params():
            if prm.annotation is None:
                continue
            ks = prog.annotation_classes(fn.module, prm.annotation)
            if ks and any(prog.is_subclass(k, tensor) for k in ks):
                tracked[prm.arg] = MAY
        if not tracked:
            continue

        def narrow(test: ast.AST, st: dict[str, str]) -> tuple[dict[str, str], dict[str, str]]:
            t, f = dict(st), dict(st)
            if isinstance(test, ast.UnaryOp) and isinstance(test.op, ast.Not):
                a, b = narrow(test.operand, st)
                return b, a
            if isinstance(test, ast.BoolOp) and isinstance(test.op, ast.And):
                for v in test.values:
                    t, _ = narrow(v, t)
                return t, f
            if isinstance(test, ast.BoolOp) and isinstance(test.op, ast.Or):
                for v in test.values:
                    _, f = narrow(v, f)
                return t, f
            if isinstance(test, ast.Call) and test.args and isinstance(test.args[0], ast.Name) and test.args[0].id in st:
                name = test.args[0].id
                fx = test.func
                fname = fx.attr if isinstance(fx, ast.Attribute) else getattr(fx, "id", "")
                if fname in SCALAR_PREDICATES:
                    t[name] = NO
                elif fname == "isinstance" and len(test.args) == 2:
                    ks = [prog.classes.get(prog.resolve_expr_name(fn.module, e, fn) or "") for e in
                          (test.args[1].elts if isinstance(test.args[1], ast.Tuple) else [test.args[1]])]
                    if ks and all(k is not None and prog.is_subclass(k, tensor) for k in ks):
                        if any(k is tensor for k in ks):
                            f[name] = NO
                    elif ks and all(k is None for k in ks):
                        t[name] = NO  # isinstance(p, (int, float, np.ndarray ...)): not one of the package's classes
            return t, f

        found: list[tuple[ast.BinOp, str, str]] = []

        def scan(e: ast.AST, st: dict[str, str]) -> None:
            for x in ast.walk(e):
                if isinstance(x, ast.BinOp) and isinstance(x.op, (ast.Add, ast.Sub, ast.Mult, ast.Div, ast.FloorDiv, ast.Mod, ast.Pow)):
                    for a, b in ((x.left, x.right), (x.right, x.left)):
                        if isinstance(a, ast.Attribute) and a.attr in RAW_ARRAY_ATTRS and isinstance(b, ast.Name) and b.id in st:
                            found.append((x, b.id, st[b.id]))

        def block(stmts: list[ast.stmt], st: dict[str, str]) -> dict[str, str] | None:
            """state after the block, None when every path through it leaves the function / loop"""
            for s_ in stmts:
                if isinstance(s_, ast.If):
                    scan(s_.test, st)
                    t, f = narrow(s_.test, st)
                    a = block(s_.body, t)
                    b = block(s_.orelse, f)
                    if a is None and b is None:
                        return None
                    if a is None:
                        st = b
                    elif b is None:
                        st = a
                    else:
                        st = {k: (MAY if MAY in (a.get(k), b.get(k)) else NO) for k in st}
                    continue
                if isinstance(s_, (ast.Return, ast.Raise)):
                    for ch in ast.iter_child_nodes(s_):
                        scan(ch, st)
                    return None
                if isinstance(s_, (ast.Assign, ast.AnnAssign, ast.AugAssign)):
                    val = s_.value
                    if val is not None:
                        scan(val, st)
                    tg = s_.targets if isinstance(s_, ast.Assign) else [s_.target]
                    for t_ in tg:
                        if isinstance(t_, ast.Name) and t_.id in st and not isinstance(s_, ast.AugAssign):
                            k = None
                            if isinstance(val, ast.Call):
                                fx = val.func
                                if isinstance(fx, ast.Attribute) and fx.attr in ("from_tensor", "from_array"):
                                    fx = fx.value
                                k = prog.classes.get(prog.resolve_expr_name(fn.module, fx, fn) or "")
                            st = dict(st)
                            st[t_.id] = MAY if (k is not None and prog.is_subclass(k, tensor)) else NO
                    continue
                if isinstance(s_, (ast.For, ast.While, ast.With, ast.Try)):
                    for ch in ast.iter_child_nodes(s_):
                        if isinstance(ch, ast.expr):
                            scan(ch, st)
                    inner = list(getattr(s_, "body", []))
                    r = block(inner, dict(st))
                    for extra in (getattr(s_, "orelse", []), getattr(s_, "finalbody", [])):
                        if extra:
                            block(list(extra), dict(st))
                    for h in getattr(s_, "handlers", []):
                        block(h.body, dict(st))
                    if r is not None:
                        st = {k: (MAY if MAY in (st.get(k), r.get(k)) else NO) for k in st}
                    continue
                if isinstance(s_, (ast.FunctionDef, ast.AsyncFunctionDef, ast.ClassDef)):
                    continue
                for ch in ast.iter_child_nodes(s_):
                    if isinstance(ch, ast.expr):
                        scan(ch, st)
            return st

        block(fn.node.body, tracked)
        for x, name, state in found:
            n += 1
            loc = f"{fn.module.rel}:{x.lineno}"
            if state == MAY:
                run.add("E2.S4", fn.short, ast.unparse(x)[:70], VIOLATION,
                        f"`{name}` may still be a Tensor here (annotated `{ast.unparse(next(p for p in fn.params() if p.arg == name).annotation)[:40]}`, "
                        f"not unwrapped or excluded on this path): numpy hands ndarray OP Tensor to the Tensor's reflected operator, so the "
                        f"value is a Tensor carrying the index types of `{name}` rather than an array combined under the receiver's index types", loc)
            else:
                run.add("E2.S4", fn.short, ast.unparse(x)[:70], PROVEN, f"`{name}` is unwrapped / guarded to a non-Tensor on every path to this operation", loc)
    return n


# ---------------------------------------------------------------------------------------------- E3
UFUNC_ORACLE = {
    "add": "add", "subtract": "sub", "multiply": "mul", "matmul": "matmul", "divide": "truediv",
    "true_divide": "truediv", "floor_divide": "floordiv", "remainder": "mod", "mod": "mod", "power": "pow",
    "float_power": "pow", "divmod": "divmod", "negative": "neg", "positive": "pos", "absolute": "abs",
    "equal": "eq", "not_equal": "ne", "less": "lt", "less_equal": "le", "greater": "gt", "greater_equal": "ge",
    "bitwise_or": "or", "bitwise_and": "and", "bitwise_xor": "xor", "invert": "invert", "left_shift": "lshift",
    "right_shift": "rshift",
}
# ufunc __name__ values behind the operators named in C19 ( + - * / unary - )
C19_UFUNCS = {"add": "add", "subtract": "sub", "multiply": "mul", "divide": "truediv", "true_divide": "truediv", "negative": "neg"}
REFLECTED_COMPARE = {"lt": "__gt__", "le": "__ge__", "gt": "__lt__", "ge": "__le__", "eq": "__eq__", "ne": "__ne__"}
UNARY_NAMES = {"neg", "pos", "abs", "invert"}


def _const_eval(mod, node, depth: int = 0):
    """Value of a module-level expression built from literals, other module-level names, set/dict unions and set()/dict() calls."""
    if depth > 6:
        raise ValueError("too deep")
    if isinstance(node, ast.Constant):
        return node.value
    if isinstance(node, ast.Name):
        if node.id in mod.globals:
            return _const_eval(mod, mod.globals[node.id], depth + 1)
        raise ValueError(node.id)
    if isinstance(node, (ast.Set, ast.List, ast.Tuple)):
        vals = []
        for x in node.elts:
            if isinstance(x, ast.Starred):
                vals += list(_const_eval(mod, x.value, depth + 1))
            else:
                vals.append(_const_eval(mod, x, depth + 1))
        return set(vals) if isinstance(node, ast.Set) else (list(vals) if isinstance(node, ast.List) else tuple(vals))
    if isinstance(node, ast.Dict):
        out = {}
        for k, v in zip(node.keys, node.values):
            if k is None:
                out.update(_const_eval(mod, v, depth + 1))
            else:
                out[_const_eval(mod, k, depth + 1)] = _const_eval(mod, v, depth + 1)
        return out
    if isinstance(node, ast.BinOp) and isinstance(node.op, (ast.BitOr, ast.Sub, ast.BitAnd)):
        a, b = _const_eval(mod, node.left, depth + 1), _const_eval(mod, node.right, depth + 1)
        if isinstance(a, dict) and isinstance(b, dict) and isinstance(node.op, ast.BitOr):
            return {**a, **b}
        a, b = set(a), set(b)
        return a | b if isinstance(node.op, ast.BitOr) else (a - b if isinstance(node.op, ast.Sub) else a & b)
    if isinstance(node, ast.Call) and isinstance(node.func, ast.Name) and node.func.id in ("set", "frozenset", "dict", "list", "tuple", "sorted"):
        if not node.args:
            return {"set": set(), "frozenset": frozenset(), "dict": {}, "list": [], "tuple": (), "sorted": []}[node.func.id]
        v = _const_eval(mod, node.args[0], depth + 1)
        if node.func.id == "dict":
            d = dict(v)
            for k in node.keywords:
                d[k.arg] = _const_eval(mod, k.value, depth + 1)
            return d
        return {"set": set, "frozenset": frozenset, "list": list, "tuple": tuple, "sorted": sorted}[node.func.id](v)
    if isinstance(node, (ast.SetComp, ast.DictComp, ast.ListComp)):
        raise ValueError("comprehension")
    raise ValueError(type(node).__name__)


def _literal(mod, name):
    node = mod.globals.get(name)
    if node is None:
        return None, None
    try:
        return _const_eval(mod, node), node
    except Exception:
        return None, node


def rule_tables(run: Run, prog: Program) -> int:
    run.rule(
        "E3.T",
        "ufunc dispatch tables agree with the Python data model: aliases map numpy ufunc names to the operator of the "
        "language reference, C19's operators are dispatched, the unary set is exactly the unary operators, no arithmetic "
        "operator is mapped to its forward dunder in the reflected table",
    )
    disp_fn = prog.find_func("maybe_dispatch_ufunc_to_dunder_op")
    if disp_fn is None:
        # no dispatcher: then Tensor.__array_ufunc__ decides (rule_S3 reports its absence)
        run.add("E3.T", "ops_dispatch", "dispatcher", UNDECIDED, "maybe_dispatch_ufunc_to_dunder_op not found; tables not judged")
        return 0
    mod = disp_fn.module
    n = 0
    dispatched, dn = _literal(mod, "DISPATCHED_UFUNCS")
    unary, un = _literal(mod, "UNARY_UFUNCS")
    aliases, an = _literal(mod, "UFUNC_ALIASES")
    reversed_names, rn = _literal(mod, "REVERSED_NAMES")
    if not isinstance(dispatched, (set, frozenset, list, tuple)) or not isinstance(aliases, dict):
        run.add("E3.T", "ops_dispatch", "tables", UNDECIDED, "dispatch tables are no longer plain literals; not judged", disp_fn.loc)
        return 0
    dispatched = set(dispatched)
    unary = set(unary) if isinstance(unary, (set, frozenset, list, tuple)) else None
    rel = mod.rel
    for k, v in sorted(aliases.items()):
        n += 1
        loc = f"{rel}:{an.lineno}"
        if k in UFUNC_ORACLE:
            if v == UFUNC_ORACLE[k]:
                run.add("E3.T", "UFUNC_ALIASES", f"{k!r}: {v!r}", PROVEN, "agrees with the data model", loc)
            else:
                run.add("E3.T", "UFUNC_ALIASES", f"{k!r}: {v!r}", VIOLATION,
                        f"numpy.{k} is the operator '{UFUNC_ORACLE[k]}' but is dispatched to __{v}__ / __r{v}__", loc)
        else:
            run.add("E3.T", "UFUNC_ALIASES", f"{k!r}: {v!r}", INFO, "not a ufunc name of the oracle table", loc)
    for uf, op in sorted(C19_UFUNCS.items()):
        n += 1
        loc = f"{rel}:{dn.lineno}"
        name = aliases.get(uf, uf)
        if name != op:
            # wrong or missing alias: if the raw ufunc name is not the operator name the lookup builds a non-dunder
            if uf in aliases:
                continue  # already reported above
            run.add("E3.T", "UFUNC_ALIASES", f"missing {uf!r}", VIOLATION,
                    f"numpy.{uf} is not aliased to '{op}': __{uf}__ is not a data-model method, the ufunc is not dispatched", loc)
        elif name not in dispatched:
            run.add("E3.T", "DISPATCHED_UFUNCS", f"missing {name!r}", VIOLATION,
                    f"numpy.{uf} (operator '{op}') is not in the dispatched set: the ufunc no longer reaches __{op}__", loc)
        else:
            run.add("E3.T", "DISPATCHED_UFUNCS", f"{uf} -> {name}", PROVEN, "dispatched", loc)
    if unary is not None:
        for name in sorted(dispatched | unary):
            n += 1
            loc = f"{rel}:{un.lineno}"
            should = name in UNARY_NAMES
            if name in unary and not should:
                run.add("E3.T", "UNARY_UFUNCS", name, VIOLATION, f"binary operator '{name}' is listed as unary: the second operand is dropped", loc)
            elif name not in unary and should and name in dispatched:
                run.add("E3.T", "UNARY_UFUNCS", name, VIOLATION, f"unary operator '{name}' is not listed as unary: inputs[1] does not exist", loc)
            else:
                run.add("E3.T", "UNARY_UFUNCS", name, PROVEN, "arity agrees", loc)
    if isinstance(reversed_names, dict):
        for k, v in sorted(reversed_names.items()):
            n += 1
            loc = f"{rel}:{rn.lineno}"
            if k in REFLECTED_COMPARE:
                if v == REFLECTED_COMPARE[k]:
                    run.add("E3.T", "REVERSED_NAMES", f"{k!r}: {v!r}", PROVEN, "reflected comparison agrees with the data model", loc)
                else:
                    run.add("E3.T", "REVERSED_NAMES", f"{k!r}: {v!r}", INFO,
                            f"reflected comparison of '{k}' is {REFLECTED_COMPARE[k]} in the data model (comparisons are outside C19)", loc)
            elif k in BINARY:
                if v != f"__r{k}__":
                    run.add("E3.T", "REVERSED_NAMES", f"{k!r}: {v!r}", VIOLATION,
                            f"arithmetic operator '{k}' with the tensor on the right must reach __r{k}__, not {v}", loc)
                else:
                    run.add("E3.T", "REVERSED_NAMES", f"{k!r}: {v!r}", PROVEN, "same as the default", loc)
            else:
                run.add("E3.T", "REVERSED_NAMES", f"{k!r}: {v!r}", INFO, "unknown operator name", loc)
    return n


def _const_index(e: ast.AST, base: str) -> int | None:
    if (isinstance(e, ast.Subscript) and isinstance(e.value, ast.Name) and e.value.id == base
            and isinstance(e.slice, ast.Constant) and isinstance(e.slice.value, int)):
        return e.slice.value
    return None


def _fstring_shape(e: ast.AST) -> str | None:
    """'fwd' for f"__{x}__", 'rev' for f"__r{x}__"."""
    if isinstance(e, ast.Call) and isinstance(e.func, ast.Attribute) and e.func.attr == "get" and len(e.args) == 2:
        return _fstring_shape(e.args[1])
    if isinstance(e, ast.JoinedStr) and len(e.values) == 3:
        a, b, c = e.values
        if isinstance(a, ast.Constant) and isinstance(b, ast.FormattedValue) and isinstance(c, ast.Constant) and c.value == "__":
            if a.value == "__":
                return "fwd"
            if a.value == "__r":
                return "rev"
    return None


def rule_dispatch_flow(run: Run, prog: Program) -> int:
    run.rule(
        "E3.F",
        "in the ufunc dispatcher, under the guard `inputs[J] is obj` the dunder receives inputs[1-J] and the "
        "forward/reflected name is chosen by J (J=0 forward, J=1 reflected)",
    )
    fn = prog.find_func("maybe_dispatch_ufunc_to_dunder_op")
    if fn is None:
        return 0
    ps = fn.param_names()
    if "inputs" not in ps or not ps:
        run.add("E3.F", fn.short, "signature", UNDECIDED, "parameter `inputs` not found", fn.loc)
        return 0
    obj = ps[0]
    n = 0
    for node in walk_no_nested(fn.node):
        if not isinstance(node, ast.If):
            continue
        t = node.test
        if not (isinstance(t, ast.Compare) and len(t.ops) == 1 and isinstance(t.ops[0], ast.Is)
                and isinstance(t.comparators[0], ast.Name) and t.comparators[0].id == obj):
            continue
        j = _const_index(t.left, "inputs")
        if j not in (0, 1):
            continue
        n += 1
        loc = f"{fn.module.rel}:{node.lineno}"
        stmt = norm_stmt(node)
        # names and method variables assigned in this arm
        name_shape: dict[str, str | None] = {}
        meth_from: dict[str, str] = {}
        calls: list[tuple[str, ast.Call]] = []
        for st in node.body:
            for sub in walk_no_nested(st):
                if isinstance(sub, ast.Assign) and len(sub.targets) == 1 and isinstance(sub.targets[0], ast.Name):
                    tgt = sub.targets[0].id
                    shp = _fstring_shape(sub.value)
                    if shp:
                        name_shape[tgt] = shp
                    v = sub.value
                    if (isinstance(v, ast.Call) and isinstance(v.func, ast.Name) and v.func.id == "getattr"
                            and len(v.args) >= 2 and isinstance(v.args[0], ast.Name) and v.args[0].id == obj
                            and isinstance(v.args[1], ast.Name)):
                        meth_from[tgt] = v.args[1].id
                if isinstance(sub, ast.Call) and isinstance(sub.func, ast.Name) and sub.func.id in meth_from:
                    calls.append((sub.func.id, sub))
        if not calls or not name_shape:
            run.add("E3.F", fn.short, stmt, UNDECIDED, "dunder name / call pattern not recognised in this arm", loc)
            continue
        verdict, msg = PROVEN, f"J={j}: name form and operand agree"
        for mname, call in calls:
            shape = name_shape.get(meth_from[mname])
            if shape is None:
                verdict, msg = UNDECIDED, "dunder name is not an f-string of the recognised form"
                continue
            want = "fwd" if j == 0 else "rev"
            if shape != want:
                verdict, msg = VIOLATION, (
                    f"under `inputs[{j}] is {obj}` the {'forward' if shape == 'fwd' else 'reflected'} dunder name is built: "
                    f"operands are swapped for every non-commutative operator")
                break
            if call.args:
                k = _const_index(call.args[0], "inputs")
                if k is None:
                    verdict, msg = UNDECIDED, "argument of the dunder call is not inputs[<const>]"
                elif k != 1 - j:
                    verdict, msg = VIOLATION, (
                        f"under `inputs[{j}] is {obj}` the dunder is called with inputs[{k}] (the object itself): computes obj (+) obj")
                    break
        run.add("E3.F", fn.short, stmt, verdict, msg, loc)
    # the dispatcher must be reached from Tensor.__array_ufunc__ with obj = self
    tensor = prog.cls("Tensor")
    au = prog.lookup(tensor, "__array_ufunc__")
    if au is not None:
        n += 1
        ok = None
        for node in walk_no_nested(au.node):
            if isinstance(node, ast.Call) and isinstance(node.func, ast.Name) and node.func.id == fn.name:
                a0 = node.args[0] if node.args else None
                selfn = au.params()[0].arg
                starred = [a for a in node.args if isinstance(a, ast.Starred)]
                ok = isinstance(a0, ast.Name) and a0.id == selfn and len(node.args) >= 4 and bool(starred)
        if ok is None:
            run.add("E3.F", au.short, "dispatcher call", UNDECIDED, "__array_ufunc__ does not call the dispatcher directly", au.loc)
        elif ok:
            run.add("E3.F", au.short, "dispatcher call", PROVEN, "dispatcher receives self and *inputs", au.loc)
        else:
            run.add("E3.F", au.short, "dispatcher call", VIOLATION, "dispatcher is not called with (self, ufunc, method, *inputs)", au.loc)
    return n


# ---------------------------------------------------------------------------------------------- E4 V1
def _ctor_is_relative(prog: Program) -> bool:
    """Tensor.__init__ interprets `covariant` relative to the tensor part and defaults tensor_rank to the full rank."""
    init = prog.lookup(prog.cls("Tensor"), "__init__")
    if init is None:
        return False
    src = ast.unparse(init.node)
    need = ["tensor_rank is None", "tensor_rank = self.rank", "n_free_indices = self.rank - tensor_rank",
            "self._covariant_indices.add(n_free_indices + idx)"]
    return all(s in src for s in need)


def _mentions_attr(e: ast.AST, self_name: str, attr: str, env: dict[str, ast.AST], depth: int = 0) -> bool:
    for n in ast.walk(e):
        if isinstance(n, ast.Attribute) and n.attr == attr and isinstance(n.value, ast.Name) and n.value.id == self_name:
            return True
        if isinstance(n, ast.Name) and n.id in env and depth < 3 and _mentions_attr(env[n.id], self_name, attr, env, depth + 1):
            return True
    return False


def _expanded_src(e: ast.AST, env: dict[str, ast.AST], depth: int = 0) -> str:
    """Source text of e followed by the texts of the single-assignment locals it uses (transitively)."""
    out = [ast.unparse(e)]
    if depth < 4:
        for x in ast.walk(e):
            if isinstance(x, ast.Name) and x.id in env:
                out.append(_expanded_src(env[x.id], env, depth + 1))
    return " ; ".join(out)


def _single_assign_env(fn: FunctionInfo) -> dict[str, ast.AST]:
    counts: dict[str, int] = {}
    vals: dict[str, ast.AST] = {}
    for n in walk_no_nested(fn.node):
        if isinstance(n, ast.Assign):
            for t in n.targets:
                for nm in ast.walk(t):
                    if isinstance(nm, ast.Name) and isinstance(nm.ctx, ast.Store):
                        counts[nm.id] = counts.get(nm.id, 0) + 1
                        if isinstance(t, ast.Name):
                            vals[nm.id] = n.value
            for t in n.targets:
                if isinstance(t, (ast.Tuple, ast.List)) and isinstance(n.value, (ast.Tuple, ast.List)) and len(t.elts) == len(n.value.elts):
                    for te, ve in zip(t.elts, n.value.elts):
                        if isinstance(te, ast.Name):
                            vals[te.id] = ve
        elif isinstance(n, ast.AnnAssign) and isinstance(n.target, ast.Name) and n.value is not None:
            counts[n.target.id] = counts.get(n.target.id, 0) + 1
            vals[n.target.id] = n.value
        elif isinstance(n, (ast.AugAssign, ast.AnnAssign)) and isinstance(n.target, ast.Name):
            counts[n.target.id] = counts.get(n.target.id, 0) + 2
        elif isinstance(n, (ast.For, ast.comprehension)):
            for nm in ast.walk(n.target):
                if isinstance(nm, ast.Name):
                    counts[nm.id] = counts.get(nm.id, 0) + 2
    return {k: v for k, v in vals.items() if counts.get(k) == 1}


def _free_guard_before(fn: FunctionInfo, call: ast.Call, self_name: str) -> bool:
    """The call is only reached for tensors without free indices: an `if <self.free_indices ...>: raise/return` precedes it in one of
    the blocks that enclose it, or it sits in the else arm of such a test (or in the body of `if self.free_indices == 0` / `if not ...`)."""
    def mentions(test: ast.AST) -> bool:
        return f"{self_name}.free_indices" in ast.unparse(test)

    def leaves(stmts) -> bool:
        return bool(stmts) and isinstance(stmts[-1], (ast.Raise, ast.Return))

    def zero_test(test: ast.AST) -> bool:
        if isinstance(test, ast.UnaryOp) and isinstance(test.op, ast.Not):
            return mentions(test.operand)
        return isinstance(test, ast.Compare) and len(test.ops) == 1 and isinstance(test.ops[0], ast.Eq) and mentions(test) \
            and any(isinstance(c, ast.Constant) and c.value == 0 for c in [test.left] + test.comparators)

    def contains(st: ast.AST) -> bool:
        return any(x is call for x in ast.walk(st))

    def search(stmts, guarded: bool) -> bool | None:
        for st in stmts:
            if contains(st):
                if guarded:
                    return True
                if isinstance(st, ast.If):
                    in_body = any(contains(x) for x in st.body)
                    if in_body:
                        return search(st.body, zero_test(st.test))
                    if any(contains(x) for x in st.orelse):
                        return search(st.orelse, mentions(st.test) and leaves(st.body) and not zero_test(st.test))
                    return False  # in the test itself
                for f in ("body", "orelse", "finalbody"):
                    sub = getattr(st, f, None)
                    if isinstance(sub, list) and sub and isinstance(sub[0], ast.stmt) and any(contains(x) for x in sub):
                        return search(sub, False)
                for h in getattr(st, "handlers", []):
                    if any(contains(x) for x in h.body):
                        return search(h.body, False)
                return False
            if isinstance(st, ast.If) and not st.orelse and mentions(st.test) and leaves(st.body) and not zero_test(st.test):
                guarded = True
        return None

    return bool(search(fn.node.body, False))


def rule_V1(run: Run, prog: Program) -> int:
    run.rule(
        "E4.V1",
        "Tensor(E, covariant=<self._covariant_indices ...>) passes an ABSOLUTE index set where the constructor expects indices "
        "RELATIVE to the tensor part; without tensor_rank= (or both index sets re-assigned on the result, or a guard that "
        "excludes free indices) every collection axis of the result becomes contravariant",
    )
    relative = _ctor_is_relative(prog)
    tensor = prog.cls("Tensor")
    n = 0
    for fn in prog.package_functions():
        if fn.cls is None or not prog.is_subclass(fn.cls, tensor) or fn.parent is not None or fn.is_staticmethod or fn.is_classmethod:
            continue
        ps = fn.params()
        if not ps:
            continue
        self_name = ps[0].arg
        env = _single_assign_env(fn)
        for node in walk_no_nested(fn.node):
            if not isinstance(node, ast.Call):
                continue
            tgt = prog.resolve_expr_name(fn.module, node.func, fn)
            if tgt != tensor.qualname:
                continue
            kw = {k.arg: k.value for k in node.keywords if k.arg}
            if "covariant" not in kw:
                continue
            if not _mentions_attr(kw["covariant"], self_name, "_covariant_indices", env):
                continue
            n += 1
            loc = f"{fn.module.rel}:{node.lineno}"
            stmt = norm_stmt(node)
            if not relative:
                run.add("E4.V1", fn.short, stmt, UNDECIDED, "Tensor.__init__ no longer has the recognised relative-index form", loc)
                continue
            if "tensor_rank" in kw:
                cov_src = _expanded_src(kw["covariant"], env)
                rank_src = _expanded_src(kw["tensor_rank"], env)
                if "free_indices" in cov_src and "free_indices" in rank_src:
                    run.add("E4.V1", fn.short, stmt, PROVEN, "index set is shifted by the number of free indices and tensor_rank is given", loc)
                else:
                    run.add("E4.V1", fn.short, stmt, UNDECIDED, "tensor_rank given; relation between covariant= and the free indices not recognised", loc)
                continue
            if _free_guard_before(fn, node, self_name):
                run.add("E4.V1", fn.short, stmt, PROVEN, "dominated by a guard that excludes tensors with free indices", loc)
                continue
            inheritors = [c.name for c in prog.concrete_subclasses(fn.cls)
                          if prog.lookup(c, fn.name) is fn or _reaches_by_super(prog, c, fn)]
            coll = [c for c in inheritors if prog.is_subclass(prog.cls(c), prog.cls("TensorCollection"))]
            if not coll:
                run.add("E4.V1", fn.short, stmt, PROVEN, "not reachable from any class with free indices", loc)
                continue
            run.add(
                "E4.V1", fn.short, stmt, VIOLATION,
                f"absolute index set self._covariant_indices passed as relative `covariant=` without tensor_rank: for every "
                f"collection ({', '.join(coll[:4])}...) the collection axes of the result become contravariant indices",
                loc,
            )
    return n


def _reaches_by_super(prog: Program, c: ClassInfo, fn: FunctionInfo) -> bool:
    """fn is reachable from class c through a chain of super().<same name> calls."""
    cur = prog.lookup(c, fn.name)
    seen = set()
    while cur is not None and cur.qualname not in seen:
        if cur is fn:
            return True
        seen.add(cur.qualname)
        nxt = None
        for node in walk_no_nested(cur.node):
            if isinstance(node, ast.Call) and isinstance(node.func, ast.Attribute) and _is_super_call(node.func.value) and node.func.attr == fn.name:
                nxt = prog.lookup_after(c, cur.cls, fn.name)
        cur = nxt
    return False


# ---------------------------------------------------------------------------------------------- E4 V4: permutation direction
def rule_V4(run: Run, prog: Program) -> int:
    run.rule(
        "E4.V4",
        "index types after array.transpose(perm): numpy puts source axis perm[i] at result position i, so the index sets of the "
        "result are the PREIMAGE of the source sets under perm ({i : perm[i] in S}); the image {perm[i] : i in S} is the inverse "
        "permutation and differs for every permutation that is not an involution",
    )
    tensor = prog.cls("Tensor")
    fn = prog.lookup(tensor, "transpose")
    if fn is None:
        return 0
    fn = prog.body_of(fn)
    # the permutation variable: argument of <something>.transpose(...) / np.transpose(..., axes=...)
    perm = None
    for node in walk_no_nested(fn.node):
        if isinstance(node, ast.Call) and isinstance(node.func, ast.Attribute) and node.func.attr == "transpose" and node.args and isinstance(node.args[0], ast.Name):
            if not (isinstance(node.func.value, ast.Name) and node.func.value.id in ("np", "numpy")):
                perm = node.args[0].id
    if perm is None:
        run.add("E4.V4", fn.short, "permutation", UNDECIDED, "no array.transpose(<name>) call found", fn.loc)
        return 0
    n = 0

    def is_set_attr(e: ast.AST) -> bool:
        return any(isinstance(x, ast.Attribute) and x.attr in ("_covariant_indices", "_contravariant_indices") for x in ast.walk(e))

    def judge(kind: str, node: ast.AST, label: str) -> None:
        nonlocal n
        n += 1
        loc = f"{fn.module.rel}:{node.lineno}"
        if kind == "pre":
            run.add("E4.V4", fn.short, label, PROVEN, "result index set is the preimage of the source set under the permutation", loc)
        elif kind == "img":
            run.add("E4.V4", fn.short, label, VIOLATION,
                    f"`{label}` maps the source index set forward through `{perm}` (inverse permutation): for a permutation that is not its own "
                    f"inverse (a 3-cycle, (1, 2, 0)) the covariant/contravariant types end up on the wrong axes while the array is transposed correctly", loc)
        else:
            run.add("E4.V4", fn.short, label, UNDECIDED, "relation between the permutation and the index sets not recognised", loc)

    for node in walk_no_nested(fn.node):
        if isinstance(node, (ast.SetComp, ast.ListComp, ast.GeneratorExp)) and len(node.generators) == 1:
            g = node.generators[0]
            src = ast.unparse(node)
            if perm not in {x.id for x in ast.walk(node) if isinstance(x, ast.Name)}:
                continue
            if isinstance(g.iter, ast.Call) and getattr(g.iter.func, "id", "") == "enumerate" and g.iter.args and getattr(g.iter.args[0], "id", None) == perm \
                    and isinstance(g.target, ast.Tuple) and len(g.target.elts) == 2 and all(isinstance(t, ast.Name) for t in g.target.elts):
                i, j = g.target.elts[0].id, g.target.elts[1].id
                tests = [c for c in g.ifs if isinstance(c, ast.Compare) and len(c.ops) == 1 and isinstance(c.ops[0], ast.In) and is_set_attr(c.comparators[0])]
                if tests and isinstance(node.elt, ast.Name):
                    tv = getattr(tests[0].left, "id", None)
                    if node.elt.id == i and tv == j:
                        judge("pre", node, norm_stmt(node))
                    elif node.elt.id == j and tv == i:
                        judge("img", node, norm_stmt(node))
                    else:
                        judge("?", node, norm_stmt(node))
                continue
            if is_set_attr(g.iter) and isinstance(g.target, ast.Name):
                i = g.target.id
                e = node.elt
                if isinstance(e, ast.Subscript) and getattr(e.value, "id", None) == perm and getattr(e.slice, "id", None) == i:
                    judge("img", node, norm_stmt(node))
                elif isinstance(e, ast.Call) and isinstance(e.func, ast.Attribute) and e.func.attr == "index" and getattr(e.func.value, "id", None) == perm:
                    judge("pre", node, norm_stmt(node))
                else:
                    judge("?", node, norm_stmt(node))
        if isinstance(node, ast.For) and isinstance(node.iter, ast.Call) and getattr(node.iter.func, "id", "") == "enumerate" \
                and node.iter.args and getattr(node.iter.args[0], "id", None) == perm and isinstance(node.target, ast.Tuple) and len(node.target.elts) == 2:
            i, j = (getattr(t, "id", None) for t in node.target.elts)
            for sub in ast.walk(node):
                if isinstance(sub, ast.If) and isinstance(sub.test, ast.Compare) and len(sub.test.ops) == 1 and isinstance(sub.test.ops[0], ast.In) \
                        and is_set_attr(sub.test.comparators[0]):
                    tv = getattr(sub.test.left, "id", None)
                    added = None
                    for c in ast.walk(sub):
                        if isinstance(c, ast.Call) and isinstance(c.func, ast.Attribute) and c.func.attr in ("append", "add") and c.args and isinstance(c.args[0], ast.Name):
                            added = c.args[0].id
                            break
                    label = "if " + ast.unparse(sub.test)
                    if tv == j and added == i:
                        judge("pre", sub, label)
                    elif tv == i and added == j:
                        judge("img", sub, label)
                    else:
                        judge("?", sub, label)
    if n == 0:
        run.add("E4.V4", fn.short, "index sets of the transposed tensor", UNDECIDED, "no construction of the index sets from the permutation recognised", fn.loc)
    return n


def rule_V1b(run: Run, prog: Program) -> int:
    run.rule(
        "E4.V1b",
        "index sets copied VERBATIM (absolute axis positions) from self onto a tensor built from `self.array +/- other`: when the other operand "
        "has more axes, broadcasting prepends axes and the copied positions point at the wrong axes; index sets of such results must be "
        "counted from the end (relative to the tensor part)",
    )
    tensor = prog.cls("Tensor")
    n = 0

    def verbatim_sites(fn: FunctionInfo) -> list[tuple[ast.stmt, str]]:
        """(statement, array-expression-name) where a Tensor built from a name gets self's index sets verbatim"""
        ps = fn.params()
        if not ps:
            return []
        selfn = ps[0].arg
        built: dict[str, ast.AST] = {}
        out = []
        for st in walk_no_nested(fn.node):
            if isinstance(st, ast.Assign) and len(st.targets) == 1 and isinstance(st.targets[0], ast.Name) and isinstance(st.value, ast.Call):
                t = prog.resolve_expr_name(fn.module, st.value.func, fn)
                if t == tensor.qualname and st.value.args:
                    built[st.targets[0].id] = st.value.args[0]
        for st in walk_no_nested(fn.node):
            if isinstance(st, ast.Assign):
                for t in st.targets:
                    if isinstance(t, ast.Attribute) and t.attr in ("_covariant_indices", "_contravariant_indices") and isinstance(t.value, ast.Name) \
                            and t.value.id in built:
                        v = st.value
                        if isinstance(v, ast.Call) and getattr(v.func, "id", "") in ("set", "frozenset", "copy") and len(v.args) == 1:
                            v = v.args[0]
                        if isinstance(v, ast.Call) and isinstance(v.func, ast.Attribute) and v.func.attr == "copy":
                            v = v.func.value
                        if isinstance(v, ast.Attribute) and v.attr == t.attr and isinstance(v.value, ast.Name) and v.value.id == selfn:
                            out.append((st, built[t.value.id]))
        return out

    def is_broadcast_expr(e: ast.AST, fn: FunctionInfo) -> bool:
        ps = fn.params()
        selfn = ps[0].arg if ps else "self"
        return (isinstance(e, ast.BinOp) and isinstance(e.op, (ast.Add, ast.Sub)) and any(
            isinstance(x, ast.Attribute) and x.attr == "array" and isinstance(x.value, ast.Name) and x.value.id == selfn for x in ast.walk(e)))

    for fn in prog.package_functions():
        if fn.cls is None or not prog.is_subclass(fn.cls, tensor) or fn.parent is not None:
            continue
        for st, arr in verbatim_sites(fn):
            n += 1
            loc = f"{fn.module.rel}:{st.lineno}"
            label = norm_stmt(st)
            hit = None
            if is_broadcast_expr(arr, fn):
                hit = fn
            elif isinstance(arr, ast.Name) and arr.id in fn.param_names():
                # helper: who calls it with self.array +/- other ?
                for caller in prog.package_functions():
                    if caller.cls is None or not prog.is_subclass(caller.cls, tensor):
                        continue
                    for c in walk_no_nested(caller.node):
                        if isinstance(c, ast.Call) and isinstance(c.func, ast.Attribute) and c.func.attr == fn.name and c.args and is_broadcast_expr(c.args[0], caller):
                            hit = caller
            if hit is not None:
                run.add("E4.V1b", fn.short, label, VIOLATION,
                        f"`{label}` copies absolute axis positions onto the result of `self.array +/- other` (reached from {hit.short}): if `other` has "
                        f"more axes than the tensor, broadcasting prepends axes and the covariant/contravariant types land on the wrong axes", loc)
            else:
                run.add("E4.V1b", fn.short, label, PROVEN, "result has the same axes as self (no broadcasting operand)", loc)
    return n
