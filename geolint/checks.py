"""Property registry: which rules decide which clause of which property."""

from __future__ import annotations

import json
import os
from typing import Callable

from geolint.model import AnalysisError, Program
from geolint.report import PROVEN, UNDECIDED, VIOLATION, VERIF_DIR, Run

FIXTURES = os.path.join(VERIF_DIR, "fixtures")

REGISTRY: dict[str, Callable[[Run, Program], None]] = {}
CONTROLS: dict[str, list[tuple[str, Callable[[Run, Program], object], list[tuple[str, str]]]]] = {}
NOT_APPLICABLE = {"C01", "C10", "C13", "C15", "C16", "C20"}


def prop(pid: str):
    def deco(f):
        REGISTRY[pid] = f
        return f

    return deco


def control(pid: str, fixture: str, rule_fn, expect: list[tuple[str, str]]):
    """Register a fixture package: ``expect`` lists (rule, construct) pairs that must be VIOLATION there; an empty
    list means the fixture is a passing twin on which the rule function must raise nothing."""
    CONTROLS.setdefault(pid, []).append((fixture, rule_fn, expect))


def run_controls(run: Run) -> None:
    for fixture, rule_fn, expect in CONTROLS.get(run.prop, []):
        root = os.path.join(FIXTURES, fixture)
        scratch = Run(prop=run.prop, quiet=True, write_evidence=False)
        try:
            p = Program(root=root)
            rule_fn(scratch, p)
        except Exception as e:  # noqa: BLE001
            run.control(fixture, "analysed", f"crashed: {type(e).__name__}: {e}")
            continue
        got = {(o.rule, o.construct) for o in scratch.violations()}
        if expect:
            missing = [e for e in expect if e not in got]
            run.control(fixture, "VIOLATION " + ", ".join(f"{r}@{c}" for r, c in expect),
                        "VIOLATION " + ", ".join(f"{r}@{c}" for r, c in expect) if not missing else f"missed {missing}; got {sorted(got)}")
        else:
            run.control(fixture, "silent", "silent" if not got else f"flagged {sorted(got)}")


def run_property(pid: str, tier: str = "quick", seed: int = 0, write_evidence: bool = True,
                 replay: str | None = None, controls: bool = True) -> int:
    if pid in NOT_APPLICABLE:
        print(f"{pid}: not applicable to static analysis (see DESIGN.md section 5); no check is registered")
        return 2
    if pid not in REGISTRY:
        raise AnalysisError(f"no check registered for {pid}")
    run = Run(prop=pid, tier=tier, seed=seed, write_evidence=write_evidence and replay is None)
    run.assumptions = [
        "source text under <repo>/geometer is what is imported at run time (no monkey patching, no generated code)",
        "Python 3 data model and numpy 1.26 semantics as tabulated in the engines",
        "annotations in the package are truthful (the package is written for mypy --strict); they are used only to resolve receivers",
    ]
    prog = Program()
    run.stats["modules"] = len(prog.modules)
    run.stats["classes"] = len(prog.classes)
    run.stats["functions"] = len(prog.functions)
    if controls:
        run_controls(run)
    REGISTRY[pid](run, prog)
    if tier == "thorough":
        from geolint import selftest

        selftest.run(run, prog, seed)
    if replay:
        with open(replay, encoding="utf-8") as fh:
            r = json.load(fh)
        key = (r["rule"], r["construct"], r["stmt_key"])
        hit = [o for o in run.violations() if (o.rule, o.construct, o.stmt) == key]
        run.quiet = True
        if hit:
            o = hit[0]
            print(f"{o.loc}: [{o.rule}] {o.construct}: {o.stmt}\n    {o.message}")
            print(f"VIOLATION property={pid} replay={replay}")
            return 1
        print(f"replay {replay}: the recorded finding is no longer reported on the current tree")
        return 0
    return run.finish()


# ================================================================================================ C19
@prop("C19")
def check_c19(run: Run, prog: Program) -> None:
    from geolint import dunder

    run.title = "Tensor arithmetic and index bookkeeping follow the array semantics"
    run.clause = (
        "decides structural clauses only: (S1) every arithmetic dunder falls through to the SAME operator of its base class, "
        "(S2) reflected dunders swap operands, (S3) every operator named by C19 exists for every concrete tensor class, "
        "(E3) the ufunc->dunder tables and the dispatcher agree with the Python data model, (V1) arithmetic results are built "
        "with index sets the constructor interprets correctly for collections. NOT decided: the numbers returned, and "
        "_get_index_mapping for arbitrary numpy indices (runtime values)."
    )
    run.trusted += ["Python language reference 3.3.8 (operator <-> dunder names)", "numpy ufunc __name__ values (numpy 1.26)"]
    n1 = dunder.rule_S1(run, prog)
    n2 = dunder.rule_S2(run, prog)
    n3 = dunder.rule_S3(run, prog)
    n4 = dunder.rule_tables(run, prog)
    n5 = dunder.rule_dispatch_flow(run, prog)
    n6 = dunder.rule_V1(run, prog)
    run.floor("super() call sites", n1, 30)
    run.floor("operator presence obligations", n3, 50)
    run.floor("dispatch table entries", n4, 20)
    run.stats.update({"super_sites": n1, "direct_operator_returns": n2, "presence": n3, "table_entries": n4,
                      "dispatch_arms": n5, "index_set_constructions": n6})
