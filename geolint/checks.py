"""Property registry: which rules decide which clause of which property."""

from __future__ import annotations

import json
import os
from typing import Callable

from geolint.model import AnalysisError, Program
from geolint.report import PROVEN, UNDECIDED, VIOLATION, VERIF_DIR, Run

FIXTURES = os.path.join(VERIF_DIR, "fixtures")

REGISTRY: dict[str, Callable[[Run, Program], None]] = {}
CONTROLS: dict[str, list[tuple[str, Callable[[Run, Program], object], list[tuple[str, str]]]]] = {}
NOT_APPLICABLE: set = set()


def prop(pid: str):
    def deco(f):
        REGISTRY[pid] = f
        return f

    return deco


def control(pid: str, fixture: str, rule_fn, expect: list[tuple[str, str]]):
    """Register a fixture package: ``expect`` lists (rule, construct) pairs that must be VIOLATION there; an empty
    list means the fixture is a passing twin on which the rule function must raise nothing."""
    CONTROLS.setdefault(pid, []).append((fixture, rule_fn, expect))


def run_controls(run: Run) -> None:
    for fixture, rule_fn, expect in CONTROLS.get(run.prop, []):
        root = os.path.join(FIXTURES, fixture)
        scratch = Run(prop=run.prop, quiet=True, write_evidence=False)
        try:
            p = Program(root=root)
            rule_fn(scratch, p)
        except Exception as e:  # noqa: BLE001
            run.control(fixture, "analysed", f"crashed: {type(e).__name__}: {e}")
            continue
        got = {(o.rule, o.construct) for o in scratch.violations()}
        if expect:
            missing = [e for e in expect if e not in got]
            run.control(fixture, "VIOLATION " + ", ".join(f"{r}@{c}" for r, c in expect),
                        "VIOLATION " + ", ".join(f"{r}@{c}" for r, c in expect) if not missing else f"missed {missing}; got {sorted(got)}")
        else:
            run.control(fixture, "silent", "silent" if not got else f"flagged {sorted(got)}")


def run_property(pid: str, tier: str = "quick", seed: int = 0, write_evidence: bool = True,
                 replay: str | None = None, controls: bool = True) -> int:
    if pid in NOT_APPLICABLE:
        print(f"{pid}: not applicable to static analysis (see DESIGN.md section 5); no check is registered")
        return 2
    if pid not in REGISTRY:
        raise AnalysisError(f"no check registered for {pid}")
    run = Run(prop=pid, tier=tier, seed=seed, write_evidence=write_evidence and replay is None)
    run.assumptions = [
        "source text under <repo>/geometer is what is imported at run time (no monkey patching, no generated code)",
        "Python 3 data model and numpy 1.26 semantics as tabulated in the engines",
        "annotations in the package are truthful (the package is written for mypy --strict); they are used only to resolve receivers",
    ]
    prog = Program()
    run.stats["modules"] = len(prog.modules)
    run.stats["classes"] = len(prog.classes)
    run.stats["functions"] = len(prog.functions)
    if controls:
        run_controls(run)
    REGISTRY[pid](run, prog)
    from geolint import selftest

    # quick: the variants marked quick act as positive controls on the real tree; thorough: every variant of the property
    selftest.run(run, prog, seed, quick_only=(tier != "thorough"))
    if tier == "thorough":
        from geolint import sweep

        sweep.run(run, prog, seed)
        sweep.run_metamorphic(run, prog)
    if replay:
        with open(replay, encoding="utf-8") as fh:
            r = json.load(fh)
        key = (r["rule"], r["construct"], r["stmt_key"])
        hit = [o for o in run.violations() if (o.rule, o.construct, o.stmt) == key]
        run.quiet = True
        if hit:
            o = hit[0]
            print(f"{o.loc}: [{o.rule}] {o.construct}: {o.stmt}\n    {o.message}")
            print(f"VIOLATION property={pid} replay={replay}")
            return 1
        print(f"replay {replay}: the recorded finding is no longer reported on the current tree")
        return 0
    return run.finish()


# ================================================================================================ C19
@prop("C19")
def check_c19(run: Run, prog: Program) -> None:
    from geolint import dunder

    run.title = "Tensor arithmetic and index bookkeeping follow the array semantics"
    run.clause = (
        "decides structural clauses only: (S1) every arithmetic dunder falls through to the SAME operator of its base class, "
        "(S2) reflected dunders swap operands, (S3) every operator named by C19 exists for every concrete tensor class, "
        "(E3) the ufunc->dunder tables and the dispatcher agree with the Python data model, (V1) arithmetic results are built "
        "with index sets the constructor interprets correctly for collections. NOT decided: the numbers returned, and "
        "_get_index_mapping for arbitrary numpy indices (runtime values)."
    )
    run.trusted += ["Python language reference 3.3.8 (operator <-> dunder names)", "numpy ufunc __name__ values (numpy 1.26)"]
    n1 = dunder.rule_S1(run, prog)
    n2 = dunder.rule_S2(run, prog)
    n3 = dunder.rule_S3(run, prog)
    n4 = dunder.rule_tables(run, prog)
    n5 = dunder.rule_dispatch_flow(run, prog)
    n6 = dunder.rule_V1(run, prog)
    dunder.rule_V4(run, prog)
    dunder.rule_V1b(run, prog)
    run.floor("E2.S4", dunder.rule_S4(run, prog), 2)
    from geolint import indexing

    focus = getattr(run, "focus", None)
    if focus in (None, "E13"):
        run.stats["index_tuples"] = indexing.rule_E13(run, prog, max_len=4 if run.tier == "thorough" else 3)
    if focus in (None, "E15"):
        run.stats["index_type_cases_total"] = indexing.rule_E15(run, prog)
    run.floor("super() call sites", n1, 30)
    run.floor("operator presence obligations", n3, 50)
    if not any(o.rule == "E3.T" and o.verdict == UNDECIDED for o in run.obligations):
        run.floor("dispatch table entries", n4, 20)
    run.stats.update({"super_sites": n1, "direct_operator_returns": n2, "presence": n3, "table_entries": n4,
                      "dispatch_arms": n5, "index_set_constructions": n6})


# ================================================================================================ C04
@prop("C04")
def check_c04(run: Run, prog: Program) -> None:
    from geolint import kinds

    run.title = "Collections compute element by element what single objects compute"
    run.clause = (
        "decides the structural part of the second sentence of C04 (indexing/iterating a collection yields the element class "
        "with its attributes intact) plus complete initialisation of masked np.empty buffers in the vectorised branches: "
        "(K1) element-class registry, (K2) __getitem__/__iter__ re-wrap into the family and carry constructor-parameter "
        "attributes, (K5) np.empty buffers fully written. NOT decided: equality of vectorised and scalar code paths, einsum "
        "alignment of free indices (numeric)."
    )
    n1 = kinds.rule_K1(run, prog)
    n2 = kinds.rule_K2(run, prog)
    kinds.rule_K2e(run, prog)
    n5 = kinds.rule_K5(run, prog)
    kinds.rule_K6(run, prog)
    run.stats["tolerance_arguments"] = kinds.rule_K8(run, prog)
    run.stats["flattening_calls"] = kinds.rule_K9(run, prog)
    if getattr(run, "focus", None) in (None, "E16"):
        from geolint import indexing

        run.stats["element_class_cases"] = indexing.rule_E16(run, prog)
    run.floor("concrete collection classes", n1, 5)
    run.floor("element access obligations", n2, 5)
    run.stats.update({"collection_classes": n1, "element_access": n2, "empty_buffers": n5})


# ================================================================================================ C14
@prop("C14")
def check_c14(run: Run, prog: Program) -> None:
    from geolint import kinds

    run.title = "Quadric-line intersection, tangents, polars and duals are mutually consistent"
    run.clause = (
        "decides one clause: 'dual ... works for every quadric class' - every reconstruction type(self)(...) in a method of "
        "the quadric family (dual, and through the call graph is_tangent) is accepted by the constructor of every concrete "
        "subclass that inherits the method; plus the error discipline of NotReducible (raised, reachable from components, consumed "
        "only by intersect, raised as soon as one member of a collection is irreducible); and (E19.polar) the tangent / polar / dual clauses as polynomial "
        "identities for a symbolic symmetric matrix Q and symbolic complex points, in the plane and in 3-space: tangent(p).p and the value contains(p) compares with zero "
        "are p^T Q p; polar(p).r = polar(r).p; the value is_tangent compares with zero for the hyperplane Q p is det Q (p^T Q p), with `inv` read as the adjugate; "
        "dual(dual(Q)) ~ Q with the dual flag flipped twice; (E19.isect) intersect(line) for a non-degenerate conic hands `components` the symmetric product of the two "
        "points of the line on the conic, as a quadric of the other kind (what `components` returns for such a matrix is C15's E19.comp). NOT decided: intersect in 3-space "
        "(projection through basis_matrix), the degenerate branch, tangents from an outside point, "
        "collections, the specialised classes' own constructors (C13)."
    )
    quad = prog.cls("QuadricTensor")
    n = kinds.rule_K3(run, prog, family=quad)
    # the degenerate/irreducible split of intersect: NotReducible must be raised per collection as soon as one member is irreducible
    _error_rules(run, prog, "NotReducible", ["QuadricTensor.components"])
    nq = len(prog.concrete_subclasses(quad))
    run.floor("concrete quadric classes", nq, 5)
    dual = prog.lookup(quad, "dual")
    if dual is None:
        run.error("public anchor QuadricTensor.dual not found")
    run.stats.update({"reconstruction_obligations": n, "concrete_quadric_classes": nq})
    if dual is not None and n == 0:
        run.add("E6.K3", dual.short, "reconstruction", UNDECIDED,
                "dual no longer reconstructs through type(self) / a class-valued local; its result class is not judged", dual.loc)
    # the value-level clauses for a symbolic quadric: tangent / polar / dual / is_tangent as polynomial identities
    from geolint import quadforms as _qf

    npol = _qf.rule_quadric_duality(run, prog)
    run.floor("tangent / polar / dual identities (found, decided or not)", npol, 5)
    run.stats["duality_identities"] = npol
    run.stats["conic_line_cuts"] = _qf.rule_conic_line(run, prog)
    # is_tangent inherits the verdict of dual through the call graph: listed for the reader
    it = prog.lookup(quad, "is_tangent")
    if it is not None and dual is not None:
        uses = any(isinstance(x, __import__("ast").Attribute) and x.attr == "dual" for x in __import__("ast").walk(it.node))
        run.stats["is_tangent_uses_dual"] = uses


# ================================================================================================ C06
@prop("C06")
def check_c06(run: Run, prog: Program) -> None:
    from geolint import kinds

    run.title = "Transformations act as a group on every kind of object"
    run.clause = (
        "decides the kind and cache clauses only: (K4) the result of every __apply__ is of the receiver's kind and the cached "
        "supporting line/plane of polytopes is recomputed on the result for every concrete class by MRO; (K3) the "
        "reconstructions in inverse/__pow__ are accepted by every inheriting transformation class; (E19.act) the inverse undoes the action: "
        "TransformationTensor.inverse is interpreted with `inv` read as the adjugate of a symbolic matrix T, and applying it to t*x gives a non-zero polynomial multiple "
        "of x for points, lines and planes of the plane and of 3-space; composition is compatible with the action: (s * t) * x ~ s * (t * x) with s * t interpreted "
        "through TransformationTensor.__apply__ on two symbolic matrices, and the composition divides by nothing but powers of the determinants; "
        "t**k for k = 0, 1, 2, 3, -1, -2 (TransformationTensor.__pow__ and Tensor.__pow__ interpreted) acts like k applications of t resp. undoes them. "
        "NOT decided: collections."
    )
    n4 = kinds.rule_K4(run, prog)
    kinds.rule_K4m(run, prog)
    from geolint import variance

    run.stats["matrix_form_actions"] = variance.rule_V5(run, prog)  # an override that replaces the generic action must still be the group action
    if getattr(run, "focus", None) in (None, "E17"):
        from geolint import diagram

        run.stats["action_cases"] = diagram.rule_action(run, prog)
    n3 = kinds.rule_K3(run, prog, family=prog.cls("TransformationTensor"))
    run.floor("__apply__ implementations and derived caches", n4, 6)
    run.stats.update({"apply_obligations": n4, "reconstruction_obligations": n3})
    from geolint import quadforms as _qf

    run.stats["action_value_identities"] = _qf.rule_action_values(run, prog, part="inverse")


# ================================================================================================ C09
C09_DOCUMENTED = [
    ("PointTensor", "PointTensor"), ("PointTensor", "LineTensor"), ("PointTensor", "PlaneTensor"),
    ("PointTensor", "SegmentTensor"), ("PointTensor", "PolygonTensor"), ("PointTensor", "Polyhedron"),
    ("PlaneTensor", "LineTensor"), ("PlaneTensor", "PlaneTensor"),
]


@prop("C09")
def check_c09(run: Run, prog: Program) -> None:
    from geolint import dispatch

    run.title = "dist and angle equal the Cartesian distance and angle"
    run.clause = (
        "decides the kind-dispatch clauses of dist: (E9.1) the reduction over all ordered pairs of concrete kinds terminates, "
        "(E9.3) every pair C09 documents reaches a base formula in both argument orders, (E9.5) the == short-cut cannot fire "
        "across kinds; and the homogeneity clause (E5.ret): the bracket formula of the point distance and the value returned by angle "
        "have degree 0 in the raw coordinates of every argument; and (E19.dist) the base formula itself in the plane: the square of "
        "4 |sqrt([p,q,I][p,q,J]) / ([p,I,J][q,I,J])|, with I and J read from the module and i^2 = -1, is the squared Euclidean distance of the dehomogenised points "
        "as a polynomial identity in arbitrary representatives - every documented pair of dist reduces to this formula (E9). NOT decided: the reduction of points of "
        "3-space to the plane (orth), the Laguerre formula of angle (complex logarithm), branch cuts, isometry invariance."
    )
    fn = prog.body_of(prog.func("dist"))
    n = dispatch.analyse(run, prog, fn, C09_DOCUMENTED)
    run.floor("ordered kind pairs evaluated", n, 100)
    from geolint import homog

    # homogeneity clause: the base formula of dist and the value of angle have degree 0 in every argument
    names = {"_point_dist", "angle", "dist"}
    impls = {prog.body_of(f).qualname for f in prog.package_functions() if f.cls is None and f.name in names}
    names |= {prog.functions[q].name for q in impls}
    n2 = homog.add_returns(run, prog, lambda f: f.qualname in impls, extra_names=names)
    run.floor("return paths of the distance/angle formulas", n2, 3)
    from geolint import quadforms

    n3 = quadforms.rule_point_dist(run, prog)
    run.floor("closed form of the point distance read", n3, 1)


# ================================================================================================ C18
@prop("C18")
def check_c18(run: Run, prog: Program) -> None:
    from geolint import intersect

    run.title = "Polytope intersections return exactly the common points"
    run.clause = (
        "decides the plumbing of the three intersect implementations on all paths including both exception handlers: (F1) every "
        "bounded operand's membership test is part of the filter, (F2) the dependent_values mask is applied to every collection "
        "operand and only to collections, (F3) points gathered from several facets pass through distinct, (F4) suppressed dependence "
        "checks are compensated by ~is_zero(). NOT decided: geometric correctness of the meets and of contains."
    )
    n = intersect.rule_F(run, prog)
    run.stats["operand_carrier_rebindings"] = intersect.rule_F7(run, prog)
    run.floor("intersect implementations", n, 3)
    run.floor("filter obligations", sum(1 for o in run.obligations if o.rule == "E10.F1"), 2)
    run.stats["intersect_methods"] = n


# ================================================================================================ C02
_CG_CACHE: dict[int, object] = {}


def get_cg(prog: Program):
    from geolint import callgraph

    if getattr(prog, '_cache_cg', None) is None:
        prog._cache_cg = callgraph.build(prog)
    return prog._cache_cg


def _error_rules(run: Run, prog: Program, exc: str, entries: list[str], payload: bool = False, quad: list[str] | None = None):
    from geolint import errors

    cg = get_cg(prog)
    sites = errors.rule_raised_and_reachable(run, prog, cg, exc, entries)
    if sites:
        errors.rule_no_interception(run, prog, cg, exc, entries, sites)
        errors.rule_guard_first(run, prog, sites, exc)
        if payload:
            errors.rule_payload(run, prog, sites)
        if quad:
            errors.rule_predicate_args(run, prog, sites, quad)
        errors.rule_quantifier(run, prog, sites, exc)
    errors.consumers(run, prog, cg, exc)
    return sites


@prop("C02")
def check_c02(run: Run, prog: Program) -> None:
    run.title = "Degenerate join/meet inputs raise the documented error, never a wrong answer"
    run.clause = (
        "decides the structural half: LinearDependenceError and NotCoplanar are raised somewhere reachable from join, meet, "
        "Point.join, Subspace.meet/join, Line(p, q) and Plane(...); the zero test reads the contraction before it is normalised or "
        "returned (validate before use); in the collection case the mask passed is the tested array; nothing inside the entry points' "
        "own call tree intercepts the error; the tolerance of a zero test in that call tree does not depend on a whole-array reduction (which "
        "would make the verdict for one position of a collection depend on the others); and (E14.id) join/meet issue the same contraction whether the "
        "caller passes one object twice or two equal objects (tensor diagrams identify nodes by identity); and (E19.join, degenerate part) the condition itself for symbolic "
        "arguments: _join_meet_duality, interpreted as under C01, raises LinearDependenceError when the contraction vanishes identically - a point or a line with itself, three "
        "collinear points, three planes of one pencil, a line with a point on it - and NotCoplanar for two skew lines of 3-space (meet and join), while arguments in general "
        "position do not raise (C01). NOT decided: the tolerance arithmetic of is_zero (how close to dependent is dependent) and the dependent_values mask of collections."
    )
    entries = ["join", "meet", "PointTensor.join", "SubspaceTensor.meet", "SubspaceTensor.join", "LineTensor.__init__", "PlaneTensor.__init__"]
    s1 = _error_rules(run, prog, "LinearDependenceError", entries, payload=True)
    s2 = _error_rules(run, prog, "NotCoplanar", ["join", "meet", "SubspaceTensor.meet", "SubspaceTensor.join"])
    cg = get_cg(prog)
    run.stats["callgraph"] = cg.stats
    run.stats["raise_sites"] = len(s1) + len(s2)
    run.floor("raise sites of the documented errors", len(s1) + len(s2), 2)
    # 'raised exactly for the dependent positions': the tolerance of the zero test must not couple the positions of a collection
    from geolint import kinds

    reach: set[str] = set()
    for e in entries:
        f = prog.find_func(e)
        if f is not None:
            reach |= cg.reachable(f)
    run.stats["tolerance_arguments"] = kinds.rule_K8(run, prog, only=reach)
    # the most canonical degenerate input, join(p, p) with ONE object, must behave like join(p, <equal copy>)
    from geolint import diagram

    run.stats["operand_identity_scenarios"] = diagram.rule_alias(run, prog)
    # the condition itself, for symbolic arguments: a contraction that vanishes identically raises the documented error, skew lines raise NotCoplanar
    from geolint import quadforms

    nd = quadforms.rule_join_meet(run, prog, part="degenerate")
    run.floor("degenerate configurations read (found, decided or not)", nd, 5)


# ================================================================================================ C11
@prop("C11")
def check_c11(run: Run, prog: Program) -> None:
    run.title = "Cross ratio has its closed-form value, its symmetries and projective invariance"
    run.clause = (
        "decides (i) the error clause: NotCollinear / NotConcurrent are raised, reachable from crossratio, guarded by a predicate over "
        "all four arguments and not intercepted; (ii) balance: the returned quotient has homogeneity degree 0 in each of a, b, c, d "
        "(and from_point) on the decided paths - a necessary condition for being a projective invariant at all; (iii) the closed-form value (E19.cr): for four points "
        "P + x_i Q of one line - in the plane, in the plane seen from a fifth point, in 3-space - the returned quotient of determinants, read as polynomials in P, Q and "
        "the parameters, equals (x1 - x3)(x2 - x4) / ((x1 - x4)(x2 - x3)) after cross-multiplication, so the symmetries of C11 follow from the closed form. The pencil of lines of the plane likewise, "
        "for a finite vertex (slopes x_i) and a vertex at infinity (parallel lines with offsets x_i); the denominator vanishes on no coordinate hyperplane of the "
        "configuration; the same object as the first two arguments gives 1. (E19.harm) harmonic_set(a, b, alpha a + beta b) in the plane, interpreted through its "
        "complete-quadrilateral construction with a free symbolic auxiliary point, returns a multiple of alpha a - beta b. NOT decided: the pencil of planes (basis_matrix), "
        "projective invariance as such, harmonic_set in 3-space (basis_matrix)."
    )
    fn = prog.func("crossratio")
    quad = [p.arg for p in fn.params()[:4]]
    s1 = _error_rules(run, prog, "NotCollinear", ["crossratio"], quad=quad)
    s2 = _error_rules(run, prog, "NotConcurrent", ["crossratio"], quad=quad)
    run.floor("raise sites of the documented errors", len(s1) + len(s2), 2)
    try:
        from geolint import homog
    except ImportError:
        homog = None
    if homog is not None:
        homog.check_crossratio(run, prog)
    from geolint import quadforms

    ncr = quadforms.rule_crossratio(run, prog)
    run.floor("closed-form cases of the cross ratio read", ncr, 3)
    # harmonic_set: the fourth harmonic point of the plane, for every choice of the auxiliary point
    nh = quadforms.rule_metric_constructions(run, prog, part="harmonic")
    run.floor("harmonic-set constructions read (found, decided or not)", nh, 1)


# ================================================================================================ C07
@prop("C07")
def check_c07(run: Run, prog: Program) -> None:
    from geolint import variance

    run.title = "Transformations preserve incidence and commute with join and meet"
    run.clause = (
        "decides the variance clauses only: (V2) the constructors assign the index types C07 names (points covariant, hyperplanes and "
        "quadrics contravariant, dual quadrics covariant, transformations (1,1)) for every concrete class, by constant propagation "
        "along the MRO; (V3) the generic action contracts covariant indices with the matrix and contravariant indices with its inverse, "
        "tensor_shape[0] resp. [1] times. (E19.act) The property itself for the generic action, as polynomial identities in the entries of a symbolic matrix T "
        "(Tensor.__apply__, TransformationTensor.inverse and the duality dispatcher interpreted; `inv` read as the adjugate): (t*h).(t*p) = det T (h.p) for a point and "
        "a hyperplane of the plane and of 3-space, t*join(p, q) ~ join(t*p, t*q), t*meet(l, m) ~ meet(t*l, t*m), and (t*x)^T (t*Q) (t*x) = det T^2 (x^T Q x) for a conic "
        "with a point and for a dual conic with a line; in 3-space t*join(p, q, r) ~ join(t*p, t*q, t*r), and - at an integer point in the quick tier, as identities in the "
        "thorough tier - t*meet(e, f, g) ~ meet(t*e, t*f, t*g) and t*join(p, q) ~ join(t*p, t*q) for the line. NOT decided: polytopes (their __apply__ overrides are covered by the kind rules only), "
        "cross-ratio invariance (follows from the closed form of C11 and the identities above, not checked as such), collections."
    )
    n2 = variance.rule_V2(run, prog)
    n3 = variance.rule_V3(run, prog)
    run.stats["matrix_form_actions"] = variance.rule_V5(run, prog)
    if getattr(run, "focus", None) in (None, "E17"):
        from geolint import diagram

        run.stats["action_cases"] = diagram.rule_action(run, prog)
    from geolint import kinds

    kinds.rule_K4m(run, prog)
    kinds.rule_K4(run, prog)  # derived caches (supporting line/plane, memoised duals) must move with the object
    variance.rule_kind_guards(run, prog)
    run.floor("constructor chains analysed", n2, 15)
    if n3 == 0:
        ap = prog.lookup(prog.cls("Tensor"), "__apply__")
        run.add("E4.V3", ap.short if ap else "Tensor.__apply__", "diagram edges", UNDECIDED,
                "the generic action no longer builds its diagram from (source, target) tuples; the edge discipline is not judged", ap.loc if ap else "")
    run.stats.update({"constructor_chains": n2, "apply_edges": n3})
    from geolint import quadforms as _qf

    run.stats["action_value_identities"] = _qf.rule_action_values(run, prog, part="incidence")


# ================================================================================================ C08
@prop("C08")
def check_c08(run: Run, prog: Program) -> None:
    from geolint import variance

    run.title = "Transformation constructors realise their Euclidean / projective definition"
    run.clause = (
        "decides ONE clause: wherever a map is conjugated by a translation (reflection about a mirror that does not pass through the "
        "origin, and the two other users of the idiom), the outer factors are a translation and its inverse; plus a necessary condition "
        "of the affine embedding: the dtype of every matrix assembled by item assignment depends on all operands stored into it (no silent "
        "truncation of a fractional offset next to an integer matrix); and the constructors write into no process-wide object (module constant, "
        "class cache, result of a memoised function), so a later constructor call cannot change an earlier result. "
        "(E18) The constructors themselves are read as closed forms over their parameters: affine_transform as the block matrix [[matrix, offset], [0, 1]], "
        "translation / scaling by what they hand to it, rotation as [[cos, -sin], [sin, cos]] and as Rodrigues' formula with a unit axis, reflection as "
        "the Householder matrix of the unit normal, and Transformation.from_points as a word over the frame matrices that sends all n+2 sources to their "
        "targets. NOT decided: the numeric content of cos/sin/norm/solve/inv themselves, the sense of rotation about an axis, the point on the mirror used "
        "for the conjugation of reflection, the conic construction inside from_points_and_conics (only the orientation of the pairs it hands on)."
    )
    prog.func("reflection")
    prog.func("translation")
    n = variance.rule_conjugation(run, prog)
    run.stats["conjugation_chains"] = n
    from geolint import kinds

    # affine embedding: the matrix assembled by affine_transform (and every other buffer assembled by item assignment) can hold all its operands
    run.stats["assembled_buffers"] = kinds.rule_K7(run, prog)
    prog.func("affine_transform")
    # a constructed matrix is never normalised by one of its own entries (zero for legitimate maps): expected count zero, the positive example is a quick control
    run.stats["self_divisions"] = kinds.rule_K11(run, prog)
    # a constructor never writes into process-wide state (module constants, class caches, objects handed out by memoised functions):
    # otherwise the NEXT constructor call changes what an earlier result maps points to
    from geolint import purity

    ctors = {"translation", "rotation", "scaling", "reflection", "affine_transform", "identity",
             "Transformation.from_points", "Transformation.from_points_and_conics"}
    present = {f.short for f in prog.package_functions()} & ctors
    if len(present) < 6:
        run.error(f"transformation constructors not found: {sorted(ctors - present)}")
    run.stats["constructor_write_constructs"] = purity.rule_purity(run, prog, only_entries=ctors, shared_only=True)
    from geolint import ctorforms

    run.stats["constructor_paths_read"] = ctorforms.rule_all(run, prog)
    run.floor("constructor closed forms (obligations found, decided or not)", sum(1 for o in run.obligations if o.rule.startswith("E18")), 8)
    refl = prog.func("reflection")
    in_refl = [o for o in run.obligations if o.rule == "E8" and o.construct == refl.short]
    if not in_refl:
        run.add("E8", refl.short, "conjugation", UNDECIDED,
                "reflection no longer uses the translation-conjugation idiom; the clause is not judged", refl.loc)


# ================================================================================================ C12
@prop("C12")
def check_c12(run: Run, prog: Program) -> None:
    from geolint import purity

    run.title = "Queries are pure: no call changes operands, shared constants or later answers"
    run.clause = (
        "decides the property itself as an effect property: whole-program interprocedural alias/effect analysis (object identity, "
        "shallow-copy attribute sharing, ndarray memory) over every function of the package; a write construct is a violation when, "
        "at a public entry point, its target is still an argument, self, a cached attribute, a module constant, a default-argument "
        "object or a class-level cache. Sound up to UNDECIDED sites (listed) and the numpy aliasing table. No value-level content is needed."
    )
    run.trusted += ["numpy 1.26 aliasing table (geolint/npmodel.py), validated with np.shares_memory",
                    "sanctioned mutators: constructors on self, __setitem__, TensorDiagram builder API, `out` parameters, cache fill of the owning constructor"]
    n = purity.rule_purity(run, prog)
    nc = purity.rule_caches(run, prog)
    run.floor("write constructs analysed", n, 60)
    run.floor("cache fills analysed", nc, 1)
    prog.cls("Tensor")
    for name in ("I", "J", "infty", "infty_plane"):
        if prog.global_value(f"geometer.point.{name}") is None:
            run.error(f"public anchor: module constant geometer.point.{name} not found")


# ================================================================================================ C05
@prop("C05")
def check_c05(run: Run, prog: Program) -> None:
    from geolint import purity

    run.title = "Tensor diagrams equal the Einstein sum they denote; epsilon/delta are exact"
    run.clause = (
        "decides (E14) the first sentence over diagram SHAPES: for every diagram of an enumerated domain (node types with up to two collection "
        "axes and three tensor indices, both storage layouts; two nodes with up to three edges incl. repeated and opposite edges; three-node chains, "
        "stars and cycles) the np.einsum call that calculate() issues - recorded by abstract interpretation of __init__/add_node/add_edge/calculate - "
        "pairs the first unused covariant index of each source with the first unused contravariant index of its target, broadcasts collection axes "
        "from the right, orders the result covariant-first in node order and types it so; exhausted indices and mismatching dimensions raise "
        "TensorComputationError. Plus (i) both guards of add_edge exist, are reachable and validate before the indices they test are consumed; "
        "(ii) the epsilon/delta caches are filled only by the owning constructor on the miss path with a fresh array that depends on the cache key "
        "alone, and no array aliasing a cache is ever written. NOT decided: what np.einsum computes, larger diagrams, and that the epsilon/delta "
        "ENTRIES are right."
    )
    from geolint import diagram

    if getattr(run, "focus", None) in (None, "E14"):
        run.stats["diagram_shapes"] = diagram.rule_E14(run, prog)
    from geolint import kinds as _kinds

    run.stats["narrow_accumulations"] = _kinds.rule_K10(run, prog)
    sites = _error_rules(run, prog, "TensorComputationError", ["TensorDiagram.add_edge", "TensorDiagram.__init__"])
    run.floor("TensorComputationError raise sites", len(sites), 2)
    nc = purity.rule_caches(run, prog)
    purity.rule_purity(run, prog, focus_cache_only=True)
    run.floor("cache fills analysed", nc, 1)
    eng = purity.get_engine(prog)
    run.stats["cache_fills"] = sorted(k[0] for k in eng.cache_fills)
    # every constructor call of a cached tensor class hands out the cached array: count them (none may be written)
    n_sites = 0
    import ast as _ast

    for fn in prog.package_functions():
        for node in _ast.walk(fn.node):
            if isinstance(node, _ast.Call) and isinstance(node.func, _ast.Name) and node.func.id in ("LeviCivitaTensor", "KroneckerDelta"):
                n_sites += 1
    run.stats["cached_tensor_constructor_sites"] = n_sites
    run.add("E1.cache", "package", "arrays handed out from the caches", PROVEN if not [o for o in run.violations() if o.rule.startswith("E1")] else INFO_OR_VIOL(run),
            f"{n_sites} constructor sites of LeviCivitaTensor/KroneckerDelta hand out cached arrays; the whole-program effect analysis finds no write into cache memory")


def INFO_OR_VIOL(run: Run) -> str:
    from geolint.report import INFO

    return INFO


# ================================================================================================ C03 / C17 / C09(ii)
@prop("C03")
def check_c03(run: Run, prog: Program) -> None:
    from geolint import homog

    run.title = "Results depend on the projective object, not on its homogeneous representative"
    run.clause = (
        "decides, for real non-zero scale factors and finite polytope vertices, that every sign/order decision, every equality test, "
        "every numeric return of a metric/measure function and every point construction in the package is a function of degree-0 (or "
        "even/absolute-degree, zero-threshold) quantities of each argument's raw coordinates - a dimensional-analysis type system over all "
        "paths; that == of every projective class goes through the scalar-multiple test; and (E6.K7w) that a matrix assembled by item assignment from normalised / "
        "divided coordinates is typed after a value that went through the division too, not after the raw representative (an integer representative would "
        "truncate the fractional coordinates: a different quadric for [1, 1, 1, 2] than for [0.5, 0.5, 0.5, 1]). NOT decided: magnitude effects of the absolute "
        "tolerances, results that go through basis_matrix/null_space of raw data, is_multiple itself, complex scale factors. Package "
        "primitives (join, meet, project, base_point, ...) are assumed to return some representative of a well-defined object."
    )
    run.trusted += ["homogeneity algebra of geolint/hv.py", "primitive table: join/meet/... return a representative of a representative-independent object"]
    n1 = homog.add_sinks(run, prog, {"E5.order", "E5.eq", "E5.object"})
    n2 = homog.add_returns(run, prog, lambda f: True, extra_names={"crossratio", "_point_dist"})
    n3 = homog.rule_eq_dunder(run, prog)
    run.floor("comparison / construction sinks on coordinate data", n1, 30)
    run.floor("numeric return paths", n2, 10)
    run.floor("__eq__ resolutions", n3, 15)
    # the dtype of an assembled matrix: a value that was normalised / divided must not be stored into a buffer typed after the raw representative
    from geolint import kinds
    n4 = kinds.rule_K7w(run, prog)
    run.floor("stores of widened values into assembled buffers", n4, 2)
    run.stats.update({"sinks": n1, "numeric_returns": n2, "eq_resolutions": n3, "widened_stores": n4})
    for name in ("PolygonTensor.contains", "Triangle.contains", "SegmentTensor.contains"):
        prog.func(name)


@prop("C16")
def check_c16(run: Run, prog: Program) -> None:
    from geolint import signdom

    run.title = "Segment, polygon and triangle membership is the closed Cartesian point set"
    run.clause = (
        "decides the part of C16 that lives in comparisons, not in numbers: (E11.T) the barycentric sign test of Triangle.contains, interpreted "
        "exhaustively over the finite domain of sign vectors of its three determinants and both orientations, is True exactly on the closed "
        "triangle (vertices and edges included, independent of the direction of the vertex cycle); (E11.S) the two bounds of the segment test are "
        "closed (non-strict or widened by the tolerance) and conjoined with membership in the supporting line; (E11.P) the crossing-number "
        "result of the polygon test is joined with edge membership of the query point, and the 3D branch requires coplanarity. NOT decided: the "
        "crossing-number special cases (ray through a vertex, collinear edges), the projection of 3D polygons, the determinants themselves "
        "(their representative independence is C03), rays with an end point at infinity."
    )
    run.trusted += ["det(stack([p, b, c])) etc. are the barycentric coordinates up to a common positive factor (row replacement recognised syntactically)"]
    n1 = signdom.rule_triangle(run, prog)
    n2 = signdom.rule_segment(run, prog)
    n3 = signdom.rule_polygon(run, prog)
    run.stats.update({"sign_cases": n1, "segment_obligations": n2, "polygon_obligations": n3})
    run.floor("membership obligations (instances found, decided or not)", sum(1 for o in run.obligations if o.rule.startswith("E11.")), 3)
    # PolygonCollection.contains / a PointCollection query: the per-edge masks must not be mixed across the rows of a collection
    from geolint import kinds

    region: set[str] = set()
    for cname in ("SegmentTensor", "PolygonTensor", "Triangle"):
        c_ = prog.find_cls(cname)
        f_ = prog.lookup(c_, "contains") if c_ is not None else None
        if f_ is not None:
            region |= {g.qualname for g in prog.private_helpers(prog.body_of(f_))}
    run.stats["flattening_calls"] = kinds.rule_K9(run, prog, only=region)


@prop("C17")
def check_c17(run: Run, prog: Program) -> None:
    from geolint import homog

    run.title = "Polytope measures equal closed forms; polytope equality ignores vertex order"
    run.clause = (
        "decides two necessary conditions for the invariance clauses: every measure returned by a polytope class (area, volume, length, "
        "radius, inradius, angles, ...) is computed from dehomogenised (degree-0) coordinates, and every point-valued statistic built "
        "from vertex coordinates (center, centroid) is an affine combination (total weight 1) - otherwise it is not equivariant under "
        "translations. (E19.poly) The formulas of the planar polygon: PolygonTensor.area and Polygon.centroid, interpreted for symbolic vertices (3, 4 and 5 of them), are "
        "1/2 |shoelace sum| and the area centroid as polynomial identities - the invariance under rotation and reversal of the vertex list follows from the closed forms. "
        "(E19.simplex) Simplex.volume is |det| / (n-1)! when there are as many vertices as homogeneous coordinates, and otherwise the Cayley-Menger expression whose radicand "
        "is the squared length (2 vertices) or the squared area of the triangle (3 vertices in 3-space). (E19.eq) PolytopeTensor.__eq__ against every permutation of the vertices of a symbolic "
        "triangle and quadrilateral, each vertex of the other operand with a representative of its own: True exactly for the rotations of the cycle and of its reversal. "
        "(E19.mid) Segment.midpoint in the plane, through the line at infinity and harmonic_set with a free auxiliary point, is b_w a + a_w b up to a scalar "
        "for arbitrary representatives of the end points. (E19.circ) Triangle.circumcenter in the plane - perpendiculars of two supporting lines through the midpoints, "
        "the midpoints by the contract E19.mid proves - lies on the perpendicular bisector of all three edges. "
        "NOT decided: the projection of polygons embedded in 3-space onto their plane, RegularPolygon, Cuboid; == of polyhedra (facets in any order); "
        "midpoints and circumcenters in 3-space."
    )
    poly = prog.cls("PolytopeTensor")

    def in_poly(f) -> bool:
        return f.cls is not None and prog.is_subclass(f.cls, poly)

    poly_names = {c.name for c in prog.subclasses(poly)}
    n1 = homog.add_sinks(run, prog, {"E5.affine"}, only_fn=lambda s: s.split(".")[0] in poly_names)
    n2 = homog.add_returns(run, prog, in_poly)
    run.floor("measure return paths", n2, 4)
    run.floor("point-valued vertex statistics", n1, 1)
    run.stats.update({"affine_sinks": n1, "measure_returns": n2})
    from geolint import quadforms

    n3 = quadforms.rule_polygon_measures(run, prog)
    run.floor("polygon measure formulas read (found, decided or not)", n3, 4)
    n4 = quadforms.rule_simplex_volume(run, prog)
    run.floor("simplex volume cases read (found, decided or not)", n4, 4)
    # "two polytopes are == exactly when they have the same vertex cycle up to rotation / reversal": __eq__ against every permutation of the vertices
    n5 = quadforms.rule_polytope_eq(run, prog)
    run.floor("polygon equality cases read (found, decided or not)", n5, 2)
    run.stats["polygon_equality_cases"] = n5
    # Segment.midpoint: the harmonic conjugate of the point at infinity of the supporting line
    n6 = quadforms.rule_metric_constructions(run, prog, part="midpoint")
    run.floor("midpoint constructions read (found, decided or not)", n6, 1)
    n7 = quadforms.rule_metric_constructions(run, prog, part="circumcenter")
    run.floor("circumcenter constructions read (found, decided or not)", n7, 1)


# ================================================================================================ C01
@prop("C01")
def check_c01(run: Run, prog: Program) -> None:
    from geolint import quadforms

    run.title = "join and meet return exactly the span / the intersection of their arguments"
    run.clause = (
        "decides the all-1-tensor branch of the duality dispatcher as polynomial identities (E19.join): _join_meet_duality is interpreted on points / lines / planes "
        "with symbolic coordinates; the tensor diagram it builds is evaluated as C05 states it (an edge sums the first unused covariant index of its source with the "
        "first unused contravariant index of its target - that the library's bookkeeping does exactly this is what E14 decides under C05) with the Levi-Civita tensor as "
        "the table of permutation signs. join(p, q), meet(l, m) in the plane and join(p, q, r), meet(e, f, g) in 3-space are incident with every argument, do not vanish "
        "identically, and change only by a scalar with the order of the arguments; the round trips meet(join(p, q), join(p, r)) ~ p and join(meet(l, m), meet(l, n)) ~ l "
        "hold; the line join(p, q) of 3-space (a contravariant 2-tensor) cut with a plane gives, in both argument orders, a point of the plane that lies on the line through p and q. The line joined with a third point r is, in both orders (through Tensor.__mul__, interpreted), the plane through p, q and r; and for the coplanar lines join(p, q), join(p, r) - the branch after Blinn, with every one of the 64 pivots its argmax can select - the meet is p and the join is the plane through p, q, r. NOT decided: the power-of-two "
        "normalisation (taken to be a positive scalar), the entries of LeviCivitaTensor, the co-/contravariant switch of 3D lines, and floating-point exactness."
    )
    run.trusted += ["LeviCivitaTensor(n) holds the permutation signs", "_divide_by_power_of_two multiplies by a positive scalar",
                    "TensorDiagram.calculate contracts as C05 states (decided separately by E14)"]
    n = quadforms.rule_join_meet(run, prog)
    run.floor("join / meet identities read (found, decided or not)", n, 6)
    prog.func("join")
    prog.func("meet")


# ================================================================================================ C10
@prop("C10")
def check_c10(run: Run, prog: Program) -> None:
    from geolint import quadforms

    run.title = "Perpendicular/parallel/projection/mirror constructions meet their definitions"
    run.clause = (
        "decides SIX constructions as polynomial identities (E19.metric): SubspaceTensor.parallel and LineTensor.mirror are interpreted on a symbolic line "
        "(a, b, c) and point (x, y, w); their joins and meets go through the interpreted duality dispatcher (as under C01), the line at infinity and the circular points "
        "I, J are read from the module (complex constants a + b i with i^2 = -1). The parallel passes through the point and has the normal of the line - likewise for a plane of 3-space, where the construction runs through the line at infinity of "
        "the plane (a 2-tensor), its contravariant form and Tensor.__mul__, all interpreted; the mirror image "
        "built from the circular points is the Cartesian reflection (x, y) - 2 (a x + b y + c w) / (a^2 + b^2) (a, b) for every representative (the complex factor "
        "cancels). LineTensor.perpendicular in the plane (point off the line: through the mirror image; point of the line: through the normal direction; the mask of a "
        "single object is one truth value and the masked item assignment on the result is interpreted) passes through the point and is orthogonal to the line; "
        "SubspaceTensor.project gives the foot of that perpendicular; PlaneTensor.perpendicular in 3-space is the join of the point with the point at infinity of the normal. "
        "NOT decided: perpendiculars of lines of 3-space (basis_matrix), collections (masks proper), is_perpendicular / is_parallel / is_cocircular / is_coplanar (tolerances), "
        "angle_bisectors, base_point / direction / basis_matrix / general_point (case analysis on vanishing coordinates)."
    )
    run.trusted += ["LeviCivitaTensor(n) holds the permutation signs", "TensorDiagram.calculate contracts as C05 states (decided separately by E14)"]
    n = quadforms.rule_metric_constructions(run, prog)
    run.floor("metric constructions read (found, decided or not)", n, 2)


# ================================================================================================ C15
@prop("C15")
def check_c15(run: Run, prog: Program) -> None:
    from geolint import quadforms

    run.title = "Degenerate quadrics split into their components; conics meet in 4 common points"
    run.clause = (
        "decides, as polynomial identities read off the source (E19.deg, E19.comp): (1) Conic.from_lines and QuadricTensor.from_planes build a multiple of "
        "g h^T + h g^T - the only symmetric matrix whose quadric is exactly the pair g, h - so 'their components are exactly that pair' is possible at all; (2) in "
        "Conic.intersect(conic) the four coefficients handed to roots() are, coefficient by coefficient, det(s A + B) for the member s A + B of the pencil that is then "
        "decomposed: the conic whose components are intersected is degenerate for every root; (3) (E19.comp) QuadricTensor.components itself, interpreted on the matrix "
        "g h^T + h g^T of two symbolic lines / planes for EVERY pivot the two argmax calls can select and for both signs of every square root of a perfect square "
        "(a principal root is an absolute value), returns two coefficient vectors that are multiples of g and h. NOT decided: is_degenerate and the NotReducible test "
        "(tolerances), which root of the cubic is taken, and that every common point of two conics is found."
    )
    n = quadforms.rule_degenerate(run, prog)
    run.floor("degenerate-quadric formulas read (found, decided or not)", n, 3)
    nc = quadforms.rule_components(run, prog)
    run.floor("decompositions read (found, decided or not)", nc, 2)
    run.stats["degenerate_formulas"] = n


# ================================================================================================ C20
@prop("C20")
def check_c20(run: Run, prog: Program) -> None:
    from geolint import polyform

    run.title = "The numeric kernels agree with exact linear algebra on every code path"
    run.clause = (
        "decides ONLY the closed-form branches that the size thresholds select, as algebra and index tables, not as numbers: (E12.det) every "
        "`n == k` closed form of det is the Leibniz polynomial of the k x k determinant; (E12.adj) the 2x2 index table of adjugate is the "
        "adjugate, the minor path transposes once, negates exactly the positions with odd i + j for every n and pairs each minor with its own "
        "row and column; (E12.inv) the closed form of inv is adjugate(A) / det(A) broadcast over the matrix axes after a singularity test; "
        "(E12.hat) the 3D index table of hat_matrix is the Levi-Civita contraction the documentation shows; (E12.roots) the algebraic branches of roots "
        "return roots (the returned expression annihilates the polynomial of its branch, with sqrt(u)^2 = u; the value returned for a triple root "
        "satisfies x^3 = -d/a). NOT decided: which inputs reach which branch (thresholds), the numpy fall-backs, the epsilon-diagram branch of adjugate, "
        "null_space/orth, the trigonometric branches of roots and whether repeated roots are listed with their multiplicity, is_multiple, matmul/matvec/outer."
    )
    polyform.rule_det(run, prog), polyform.rule_adjugate(run, prog), polyform.rule_inv(run, prog), polyform.rule_hat(run, prog), polyform.rule_roots(run, prog), polyform.rule_roots_domain(run, prog)
    n = sum(1 for o in run.obligations if o.rule.startswith("E12."))
    run.stats["closed_form_obligations"] = n
    run.floor("closed-form obligations (instances found, decided or not)", n, 4)


# ================================================================================================ C13
@prop("C13")
def check_c13(run: Run, prog: Program) -> None:
    from geolint import polyform

    run.title = "Quadric constructors produce the quadric of their defining data"
    run.clause = (
        "decides ONE clause of the last sentence ('area and volume return ... the textbook measures'): Circle.area, Sphere.volume and Sphere.area, "
        "normalised as monomials in pi, the radius and the dimension (helpers such as _alpha inlined), equal pi r^2, the volume and the surface of "
        "the n-ball; and every number a quadric class returns (radius, area, volume, angles ...) has homogeneity degree 0 in the matrix and in "
        "every argument (E5) - necessary for 'return the parameters'. (E19) The loci: the matrix that Circle, Ellipse, Sphere (dimension 2 and 3) and Cone (axis parallel to z, "
        "finite height and the cylinder limit) hand to QuadricTensor.__init__, read off the constructor as a table of polynomials in the centre coordinates and radii, "
        "is proportional entry by entry to the matrix of the Cartesian locus; Conic.from_points and Conic.from_crossratio, read the same way, contain their five (four) points as a "
        "polynomial identity p^T M p = 0 and are symmetric. NOT decided: from_tangent, from_foci, that from_crossratio agrees with from_points, the rotation of a cone "
        "whose axis is not parallel to z, center, radius and foci - those are numeric identities between a constructor's matrix and an accessor."
    )
    n = polyform.rule_measures(run, prog)
    run.floor("measure formulas", n, 2)
    from geolint import quadforms

    nq = quadforms.rule_quadrics(run, prog)
    run.floor("parametrised quadric constructors read (cases found, decided or not)", nq, 5)
    nc = quadforms.rule_conics(run, prog)
    run.floor("conic constructors through points read", nc, 2)
    # the accessors and measures of a quadric are functions of the quadric, not of the scale of its matrix (degree 0, E5)
    from geolint import homog

    quadric = prog.cls("QuadricTensor")
    n2 = homog.add_returns(run, prog, lambda f: f.cls is not None and prog.is_subclass(f.cls, quadric))
    run.stats["accessor_return_paths"] = n2
