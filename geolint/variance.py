"""E4 V2/V3 - constructor variance table and action discipline (C07); E8 - conjugation idiom (C08)."""

from __future__ import annotations

import ast

from geolint.dunder import _single_assign_env
from geolint.model import ClassInfo, FunctionInfo, Program, norm_stmt, walk_no_nested
from geolint.report import INFO, PROVEN, UNDECIDED, VIOLATION, Run

ABSENT = "<absent>"
UNKNOWN = "<unknown>"


def _const(e: ast.AST, env: dict):
    if isinstance(e, ast.Constant):
        return e.value
    if isinstance(e, ast.Name):
        return env.get(e.id, UNKNOWN)
    if isinstance(e, ast.UnaryOp) and isinstance(e.op, ast.USub):
        v = _const(e.operand, env)
        return -v if isinstance(v, (int, float)) else UNKNOWN
    if isinstance(e, ast.UnaryOp) and isinstance(e.op, ast.Not):
        v = _const(e.operand, env)
        return (not v) if isinstance(v, bool) else UNKNOWN
    if isinstance(e, (ast.List, ast.Tuple)):
        vals = [_const(x, env) for x in e.elts]
        return UNKNOWN if UNKNOWN in vals else tuple(vals)
    if isinstance(e, ast.Call) and isinstance(e.func, ast.Name) and e.func.id == "bool" and len(e.args) == 1:
        return _const(e.args[0], env)
    if isinstance(e, ast.Compare) and len(e.ops) == 1 and isinstance(e.ops[0], (ast.Is, ast.Eq)):
        a, b = _const(e.left, env), _const(e.comparators[0], env)
        if UNKNOWN not in (a, b) and ABSENT not in (a, b):
            return a is b if isinstance(e.ops[0], ast.Is) else a == b
    return UNKNOWN


class CtorChain:
    """Constant propagation of `covariant` / `tensor_rank` through the super().__init__ chain along the MRO."""

    def __init__(self, prog: Program) -> None:
        self.prog = prog

    def run(self, c: ClassInfo, preset: dict) -> list[dict]:
        """preset: values of named constructor parameters chosen by the caller (e.g. is_dual=True)."""
        mro = self.prog.mro(c)
        return self._enter(mro, 0, {"covariant": ABSENT, "tensor_rank": ABSENT}, dict(preset))

    def _enter(self, mro, i, kwargs: dict, named: dict) -> list[dict]:
        while i < len(mro) and "__init__" not in mro[i].methods:
            i += 1
        if i >= len(mro):
            return [dict(kwargs, **{"_end": "object"})]
        k = mro[i]
        fn = k.methods["__init__"]
        a = fn.node.args
        pos = list(a.posonlyargs) + list(a.args)
        defaults = dict(zip([p.arg for p in pos[len(pos) - len(a.defaults):]], a.defaults)) if a.defaults else {}
        for p, d in zip(a.kwonlyargs, a.kw_defaults):
            if d is not None:
                defaults[p.arg] = d
        env: dict = {}
        all_named = [p.arg for p in pos[1:] + list(a.kwonlyargs)]
        kw = dict(kwargs)
        for nm in all_named:
            if nm in named:
                env[nm] = named[nm]
            elif nm in kw and kw[nm] != ABSENT:
                env[nm] = kw.pop(nm)
            elif nm in defaults:
                env[nm] = _const(defaults[nm], {})
            else:
                env[nm] = UNKNOWN
            if nm in kw and nm in ("covariant", "tensor_rank"):
                kw.pop(nm, None)
        for nm in ("covariant", "tensor_rank"):
            kw.setdefault(nm, ABSENT)
        if k.name == "Tensor" or a.kwarg is None and not any(self._super_calls(fn)):
            return [{"covariant": env.get("covariant", kw.get("covariant")), "tensor_rank": env.get("tensor_rank", kw.get("tensor_rank")), "_end": k.name}]
        kwname = a.kwarg.arg if a.kwarg else None
        return self._block(fn.node.body, mro, i, fn, env, kw, kwname, named)

    def _super_calls(self, fn: FunctionInfo):
        for n in walk_no_nested(fn.node):
            if (isinstance(n, ast.Call) and isinstance(n.func, ast.Attribute) and n.func.attr == "__init__"
                    and isinstance(n.func.value, ast.Call) and getattr(n.func.value.func, "id", "") == "super"):
                yield n

    def _block(self, body, mro, i, fn, env, kw, kwname, named) -> list[dict]:
        results: list[dict] = []
        kw = dict(kw)
        for idx, st in enumerate(body):
            if isinstance(st, ast.If):
                t = _const(st.test, env)
                rest = body[idx + 1:]
                if t is True:
                    return results + self._block(st.body + rest, mro, i, fn, env, kw, kwname, named)
                if t is False:
                    return results + self._block(st.orelse + rest, mro, i, fn, env, kw, kwname, named)
                return (results + self._block(st.body + rest, mro, i, fn, env, kw, kwname, named)
                        + self._block(st.orelse + rest, mro, i, fn, env, kw, kwname, named))
            # kwargs.setdefault("covariant", v) / kwargs["covariant"] = v
            if isinstance(st, ast.Expr) and isinstance(st.value, ast.Call):
                c = st.value
                if (isinstance(c.func, ast.Attribute) and c.func.attr == "setdefault" and isinstance(c.func.value, ast.Name)
                        and c.func.value.id == kwname and len(c.args) == 2 and isinstance(c.args[0], ast.Constant)):
                    key = c.args[0].value
                    if kw.get(key, ABSENT) == ABSENT:
                        kw[key] = _const(c.args[1], env)
            if isinstance(st, ast.Assign) and len(st.targets) == 1:
                t = st.targets[0]
                if (isinstance(t, ast.Subscript) and isinstance(t.value, ast.Name) and t.value.id == kwname
                        and isinstance(t.slice, ast.Constant)):
                    kw[t.slice.value] = _const(st.value, env)
                elif isinstance(t, ast.Name):
                    env = dict(env)
                    env[t.id] = _const(st.value, env)
            for n in walk_no_nested(st):
                if (isinstance(n, ast.Call) and isinstance(n.func, ast.Attribute) and n.func.attr == "__init__"
                        and isinstance(n.func.value, ast.Call) and getattr(n.func.value.func, "id", "") == "super"):
                    nxt = {"covariant": ABSENT, "tensor_rank": ABSENT}
                    forwards = any(k.arg is None and isinstance(k.value, ast.Name) and k.value.id == kwname for k in n.keywords)
                    if forwards:
                        for key, val in kw.items():
                            nxt[key] = val
                    nxt_named = {}
                    for k in n.keywords:
                        if k.arg in ("covariant", "tensor_rank"):
                            nxt[k.arg] = _const(k.value, env)
                        elif k.arg is not None:
                            nxt_named[k.arg] = _const(k.value, env)
                    results += self._enter(mro, i + 1, nxt, nxt_named)
        return results


def variance_of(cov, rank) -> tuple | None:
    """(n_cov, n_con) as far as it is decided by the constants; rank None/-2/ABSENT means 'all tensor indices'."""
    if cov in (ABSENT, True):
        return ("all", 0)
    if cov is False:
        return (0, "all")
    if isinstance(cov, tuple) and all(isinstance(x, int) for x in cov):
        if isinstance(rank, int) and rank > 0:
            return (len(cov), rank - len(cov))
        return (len(cov), "rest")
    return None


def rule_V2(run: Run, prog: Program) -> int:
    run.rule("E4.V2",
             "index types assigned by the constructors (constant propagation of covariant=/tensor_rank= through the super().__init__ "
             "chain along the MRO): points covariant, lines/hyperplanes contravariant, quadrics contravariant, dual quadrics covariant, "
             "transformations one covariant and one contravariant index")
    roles = [("PointLikeTensor", {}, ("all", 0), "points are covariant"),
             ("SubspaceTensor", {}, (0, "all"), "lines and hyperplanes are contravariant"),
             ("QuadricTensor", {"is_dual": False}, (0, "all"), "quadrics are contravariant"),
             ("QuadricTensor", {"is_dual": True}, ("all", 0), "dual quadrics are covariant"),
             ("TransformationTensor", {}, (1, 1), "transformations are (1, 1) tensors")]
    chain = CtorChain(prog)
    n = 0
    for root, preset, want, text in roles:
        rc = prog.cls(root)
        for c in prog.concrete_subclasses(rc):
            n += 1
            label = f"{c.name}({', '.join(f'{k}={v}' for k, v in preset.items())})"
            init = prog.lookup(c, "__init__")
            loc = init.loc if init else c.loc
            pre = dict(preset)
            # a subclass constructor that does not expose is_dual (Circle, Sphere ...) is non-dual by construction
            if "is_dual" in pre and init is not None and "is_dual" not in [p.arg for p in init.params()] and init.node.args.kwarg is not None:
                if pre["is_dual"] is True:
                    n -= 1
                    continue
            try:
                res = chain.run(c, pre)
            except RecursionError:
                res = []
            vs = {variance_of(r.get("covariant"), r.get("tensor_rank")) for r in res if r.get("_end") == "Tensor"}
            if not vs or None in vs or len(vs) > 1:
                run.add("E4.V2", c.name, label, UNDECIDED, f"constructor chain not resolved to constants ({sorted(map(str, vs))})", loc)
                continue
            got = next(iter(vs))
            if got == want:
                run.add("E4.V2", c.name, label, PROVEN, f"{text}: {got}", loc)
            else:
                run.add("E4.V2", c.name, label, VIOLATION,
                        f"{c.name} is constructed with index types {got} but {text} ({want}): Tensor.__apply__ then applies the matrix where "
                        f"the inverse transpose is needed (or vice versa)", loc, {"chain": res})
    return n


INV_MARKERS = ("inverse", "inv")


def _is_inverse_expr(e: ast.AST) -> bool:
    for x in ast.walk(e):
        if isinstance(x, ast.Call):
            f = x.func
            nm = f.attr if isinstance(f, ast.Attribute) else getattr(f, "id", "")
            if nm in INV_MARKERS:
                return True
        if isinstance(x, ast.BinOp) and isinstance(x.op, ast.Pow) and isinstance(x.right, ast.UnaryOp) and isinstance(x.right.op, ast.USub):
            return True
    return False


def rule_V3(run: Run, prog: Program) -> int:
    run.rule("E4.V3",
             "in every __apply__ that builds a tensor diagram: an edge (self, X) contracts a covariant index of self and X must be the "
             "transformation itself; an edge (X, self) contracts a contravariant index and X must be derived from an inverse of the "
             "transformation; the edge counts are tensor_shape[0] and tensor_shape[1] respectively")
    n = 0
    for fn in prog.package_functions():
        if fn.name != "__apply__" or fn.cls is None:
            continue
        fn = prog.body_of(fn)  # the code that runs, when __apply__ only hands its parameters on
        ps = fn.params()
        if len(ps) < 2:
            continue
        selfn, tr = ps[0].arg, ps[1].arg
        env = _single_assign_env(fn)
        inv_names = {k for k, v in env.items() if _is_inverse_expr(v)}
        shape_names = {k for k, v in env.items() if isinstance(v, ast.Attribute) and v.attr == "tensor_shape"}
        for node in walk_no_nested(fn.node):
            if not (isinstance(node, ast.Tuple) and len(node.elts) == 2):
                continue
            a, b = node.elts
            a_self = isinstance(a, ast.Name) and a.id == selfn
            b_self = isinstance(b, ast.Name) and b.id == selfn
            if a_self == b_self:
                continue
            n += 1
            other = b if a_self else a
            names = {x.id for x in ast.walk(other) if isinstance(x, ast.Name)}
            is_inv = _is_inverse_expr(other)
            todo, seen = list(names), set()
            while todo:  # follow single-assignment locals back to the transformation parameter
                nm = todo.pop()
                if nm in seen:
                    continue
                seen.add(nm)
                if nm in env:
                    is_inv = is_inv or _is_inverse_expr(env[nm])
                    todo += [x.id for x in ast.walk(env[nm]) if isinstance(x, ast.Name)]
            from_tr = tr in seen
            loc = f"{fn.module.rel}:{node.lineno}"
            label = norm_stmt(node)
            # find the count: enclosing comprehension / for with range(<shape>[k])
            count_idx = _edge_count_index(fn, node, shape_names, selfn)
            if not from_tr:
                run.add("E4.V3", fn.short, label, UNDECIDED, "edge partner is not visibly derived from the transformation", loc)
                continue
            if a_self:  # covariant contraction
                if is_inv:
                    run.add("E4.V3", fn.short, label, VIOLATION,
                            "covariant indices of the object are contracted with the INVERSE transformation: points move by the inverse map", loc)
                elif count_idx == 1:
                    run.add("E4.V3", fn.short, label, VIOLATION,
                            "the number of covariant edges is taken from tensor_shape[1] (the contravariant count)", loc)
                elif count_idx is None:
                    run.add("E4.V3", fn.short, label, UNDECIDED, "edge count not recognised as tensor_shape[0]", loc)
                else:
                    run.add("E4.V3", fn.short, label, PROVEN, "covariant indices are contracted with the transformation, tensor_shape[0] times", loc)
            else:  # contravariant contraction
                if not is_inv:
                    run.add("E4.V3", fn.short, label, VIOLATION,
                            "contravariant indices of the object are contracted with the transformation itself instead of its inverse: "
                            "lines, planes and quadrics no longer stay incident with the transformed points", loc)
                elif count_idx == 0:
                    run.add("E4.V3", fn.short, label, VIOLATION,
                            "the number of contravariant edges is taken from tensor_shape[0] (the covariant count)", loc)
                elif count_idx is None:
                    run.add("E4.V3", fn.short, label, UNDECIDED, "edge count not recognised as tensor_shape[1]", loc)
                else:
                    run.add("E4.V3", fn.short, label, PROVEN, "contravariant indices are contracted with the inverse, tensor_shape[1] times", loc)
    return n


def _edge_count_index(fn: FunctionInfo, tup: ast.Tuple, shape_names: set[str], selfn: str) -> int | None:
    for node in walk_no_nested(fn.node):
        gens = []
        if isinstance(node, (ast.ListComp, ast.GeneratorExp)) and any(x is tup for x in ast.walk(node.elt)):
            gens = node.generators
        for g in gens:
            it = g.iter
            if isinstance(it, ast.Call) and isinstance(it.func, ast.Name) and it.func.id == "range" and len(it.args) == 1:
                a = it.args[0]
                if isinstance(a, ast.Subscript) and isinstance(a.slice, ast.Constant) and isinstance(a.slice.value, int):
                    base = a.value
                    if isinstance(base, ast.Name) and base.id in shape_names:
                        return a.slice.value
                    if isinstance(base, ast.Attribute) and base.attr == "tensor_shape":
                        return a.slice.value
    return None


def rule_kind_guards(run: Run, prog: Program) -> int:
    run.rule("E7.kind", "the runtime guards that enforce the variance table exist: the constructors of points, hyperplanes, lines and "
                        "transformations raise ValueError when tensor_shape is not the expected type")
    n = 0
    for cname in ("PointLikeTensor", "PlaneTensor", "LineTensor", "TransformationTensor"):
        c = prog.find_cls(cname)
        if c is None:
            continue
        init = c.methods.get("__init__")
        n += 1
        ok = False
        if init is not None:
            for st in walk_no_nested(init.node):
                if isinstance(st, ast.If) and "tensor_shape" in ast.unparse(st.test) and any(isinstance(x, ast.Raise) for x in st.body):
                    ok = True
        if ok:
            run.add("E7.kind", cname, "tensor_shape guard", PROVEN, "constructor rejects tensors of the wrong index type", init.loc)
        else:
            run.add("E7.kind", cname, "tensor_shape guard", INFO, "no tensor_shape guard found in the constructor (defence in depth only)", c.loc)
    return n


# ================================================================================================ E8
def _resolve(e: ast.AST, env: dict[str, ast.AST], depth: int = 0) -> ast.AST:
    while isinstance(e, ast.Name) and e.id in env and depth < 4:
        e = env[e.id]
        depth += 1
    return e


def _translation_arg(prog: Program, fn: FunctionInfo, e: ast.AST, env) -> list[ast.AST] | None:
    e = _resolve(e, env)
    if isinstance(e, ast.Call):
        t = prog.resolve_expr_name(fn.module, e.func, fn)
        if t and t.endswith(".translation") and not e.keywords:
            return list(e.args)
    return None


def _is_negation(a: list[ast.AST], b: list[ast.AST]) -> bool:
    if len(a) != len(b) or not a:
        return False
    for x, y in zip(a, b):
        if isinstance(y, ast.UnaryOp) and isinstance(y.op, ast.USub) and ast.dump(y.operand) == ast.dump(x):
            continue
        if isinstance(x, ast.UnaryOp) and isinstance(x.op, ast.USub) and ast.dump(x.operand) == ast.dump(y):
            continue
        return False
    return True


def rule_conjugation(run: Run, prog: Program) -> int:
    run.rule("E8", "in a product A * M * B whose outer factors are translation(e1) and translation(e2), e2 is the negation of e1 "
                   "(conjugation by a translation and its inverse); X * M * X.inverse() is accepted as well")
    n = 0
    for fn in prog.package_functions():
        env = _single_assign_env(fn)
        for node in walk_no_nested(fn.node):
            if not (isinstance(node, ast.BinOp) and isinstance(node.op, ast.Mult) and isinstance(node.left, ast.BinOp)
                    and isinstance(node.left.op, ast.Mult)):
                continue
            A, B = node.left.left, node.right
            ta, tb = _translation_arg(prog, fn, A, env), _translation_arg(prog, fn, B, env)
            loc = f"{fn.module.rel}:{node.lineno}"
            label = norm_stmt(node)
            if ta is not None and tb is not None:
                n += 1
                if _is_negation(ta, tb):
                    run.add("E8", fn.short, label, PROVEN, "conjugation by a translation and its inverse", loc)
                elif [ast.dump(x) for x in ta] == [ast.dump(x) for x in tb]:
                    run.add("E8", fn.short, label, VIOLATION,
                            f"both outer factors are translation({', '.join(ast.unparse(x) for x in ta)}): the map is not conjugated back, "
                            f"the fixed point/axis is moved by twice the offset (invisible when the offset is the origin)", loc)
                else:
                    run.add("E8", fn.short, label, UNDECIDED, "offsets of the two translations are not syntactic negations of each other", loc)
            elif (ta is not None) != (tb is not None):
                # X * M * X.inverse()
                other = B if ta is not None else A
                o = _resolve(other, env)
                if isinstance(o, ast.Call) and isinstance(o.func, ast.Attribute) and o.func.attr == "inverse":
                    n += 1
                    run.add("E8", fn.short, label, PROVEN, "conjugation by X and X.inverse()", loc)
    return n


# ---------------------------------------------------------------------------------------------- V5: matrix-product form of the action
class _Unreadable(Exception):
    pass


def _worlds(exprs: list[ast.AST], selfn: str) -> list[dict[str, bool]]:
    """truth assignments of the `self.<attr>` tests that conditional expressions in the given expressions depend on"""
    attrs: list[str] = []
    for e in exprs:
        for x in ast.walk(e):
            if isinstance(x, ast.IfExp):
                t = x.test.operand if isinstance(x.test, ast.UnaryOp) and isinstance(x.test.op, ast.Not) else x.test
                if isinstance(t, ast.Attribute) and isinstance(t.value, ast.Name) and t.value.id == selfn and t.attr not in attrs:
                    attrs.append(t.attr)
    out = [{}]
    for a in attrs:
        out = [dict(w, **{a: v}) for w in out for v in (True, False)]
    return out


def rule_V5(run: Run, prog: Program) -> int:
    run.rule("E4.V5",
             "an __apply__ written with matrix products instead of the generic diagram obeys the same law: an index of the receiver that is "
             "contracted with the transformation matrix M meets M's SECOND index (x'_i = M_ik x_k, the index acts covariantly), one contracted "
             "with the inverse meets the inverse's FIRST index (l'_i = Minv_ki l_k, contravariantly), and that role agrees with the index type "
             "the constructor chain assigns in the same case (dual / non-dual)")
    tensor = prog.cls("Tensor")
    trafo = prog.find_cls("TransformationTensor")
    n = 0
    for decl in prog.package_functions():
        if decl.name != "__apply__" or decl.cls is None or not prog.is_subclass(decl.cls, tensor):
            continue
        if trafo is not None and prog.is_subclass(decl.cls, trafo):
            continue  # t * s on transformations is composition, not the action on a geometric object
        fn = prog.body_of(decl)
        ps = fn.params()
        if len(ps) < 2:
            continue
        selfn, tr = ps[0].arg, ps[1].arg
        env = _single_assign_env(fn)

        def leaf(e: ast.AST, world: dict, depth: int = 0):
            """('M'|'MI'|'S', transposed?) or None"""
            if depth > 6:
                return None
            if isinstance(e, ast.IfExp):
                t, neg = (e.test.operand, True) if isinstance(e.test, ast.UnaryOp) and isinstance(e.test.op, ast.Not) else (e.test, False)
                if isinstance(t, ast.Attribute) and isinstance(t.value, ast.Name) and t.value.id == selfn and t.attr in world:
                    v = world[t.attr] != neg
                    return leaf(e.body if v else e.orelse, world, depth + 1)
                return None
            if isinstance(e, ast.Name) and e.id in env:
                return leaf(env[e.id], world, depth + 1)
            src = ast.unparse(e)
            if isinstance(e, ast.Attribute) and e.attr == "array":
                b = e.value
                if isinstance(b, ast.Name) and b.id == selfn:
                    return "S"
                if isinstance(b, ast.Name) and b.id == tr:
                    return "M"
                if isinstance(b, ast.Name) and b.id in env:
                    inner = env[b.id]
                    if _is_inverse_expr(inner) and tr in {x.id for x in ast.walk(inner) if isinstance(x, ast.Name)}:
                        return "MI"
                if _is_inverse_expr(b) and tr in {x.id for x in ast.walk(b) if isinstance(x, ast.Name)}:
                    return "MI"
            if isinstance(e, ast.Call) and _is_inverse_expr(e) and f"{tr}.array" in src:
                return "MI"
            return None

        def mat(e: ast.AST, world: dict, contractions: list, depth: int = 0):
            """(row slot, col slot); slots are (kind, index)"""
            if depth > 10:
                raise _Unreadable("expression too deep")
            if isinstance(e, ast.Name) and e.id in env and leaf(e, world) is None:
                return mat(env[e.id], world, contractions, depth + 1)
            k = leaf(e, world)
            if k is not None:
                return ((k, 0), (k, 1))
            if isinstance(e, ast.Attribute) and e.attr in ("T", "mT"):
                r, c = mat(e.value, world, contractions, depth + 1)
                return (c, r)
            if isinstance(e, ast.BinOp) and isinstance(e.op, ast.MatMult):
                a, b = mat(e.left, world, contractions, depth + 1), mat(e.right, world, contractions, depth + 1)
                contractions.append((a[1], b[0]))
                return (a[0], b[1])
            if isinstance(e, ast.Call):
                f = e.func
                name = f.attr if isinstance(f, ast.Attribute) else getattr(f, "id", "")
                if name in ("swapaxes", "transpose", "matrix_transpose"):
                    base = e.args[0] if (isinstance(f, ast.Name) or (isinstance(f, ast.Attribute) and isinstance(f.value, ast.Name) and f.value.id in ("np", "numpy"))) and e.args \
                        else (f.value if isinstance(f, ast.Attribute) else None)
                    if base is None:
                        raise _Unreadable(ast.unparse(e)[:40])
                    r, c = mat(base, world, contractions, depth + 1)
                    return (c, r)
                if name == "matmul" and len(e.args) >= 2:
                    a, b = mat(e.args[0], world, contractions, depth + 1), mat(e.args[1], world, contractions, depth + 1)
                    flags = {k.arg: (isinstance(k.value, ast.Constant) and k.value.value is True) for k in e.keywords}
                    if any(k.arg in ("transpose_a", "transpose_b") and not isinstance(k.value, ast.Constant) for k in e.keywords):
                        raise _Unreadable("transpose flag is not a constant")
                    if flags.get("transpose_a"):
                        a = (a[1], a[0])
                    if flags.get("transpose_b"):
                        b = (b[1], b[0])
                    contractions.append((a[1], b[0]))
                    return (a[0], b[1])
            raise _Unreadable(f"`{ast.unparse(e)[:40]}` is not a product of the matrix, its inverse and self.array")

        # candidate expressions: values stored into <result>.array or handed to a constructor, that mention both self.array and the transformation
        cands: list[tuple[ast.AST, ast.AST]] = []
        for st in walk_no_nested(fn.node):
            if isinstance(st, ast.Assign) and any(isinstance(t, ast.Attribute) and t.attr == "array" for t in st.targets):
                cands.append((st, st.value))
            elif isinstance(st, ast.Return) and isinstance(st.value, ast.Call) and st.value.args:
                cands.append((st, st.value.args[0]))
        for st, expr in cands:
            names = {x.id for x in ast.walk(expr) if isinstance(x, ast.Name)}
            full = ast.unparse(expr)
            closure = set(names)
            for nm in list(names):
                if nm in env:
                    closure |= {x.id for x in ast.walk(env[nm]) if isinstance(x, ast.Name)}
            if tr not in closure or not any(isinstance(x, (ast.Call, ast.BinOp)) for x in ast.walk(expr)):
                continue
            if "matmul" not in full and "@" not in full:
                continue
            loc = f"{fn.module.rel}:{st.lineno}"
            label = norm_stmt(st)[:90]
            all_exprs = [expr] + [env[nm] for nm in closure if nm in env]
            for world in _worlds(all_exprs, selfn):
                n += 1
                wl = ", ".join(f"{k}={v}" for k, v in world.items()) or "always"
                contractions: list = []
                try:
                    mat(expr, world, contractions)
                except _Unreadable as e:
                    run.add("E4.V5", decl.short, f"{label} [{wl}]", UNDECIDED, f"matrix form not read: {e}", loc)
                    continue
                problems, roles = [], {}
                for a, b in contractions:
                    for s_, o in ((a, b), (b, a)):
                        if s_[0] == "S" and o[0] in ("M", "MI"):
                            if o[0] == "M":
                                roles[s_[1]] = "covariant"
                                if o[1] != 1:
                                    problems.append(f"index {s_[1]} of self.array is contracted with the FIRST index of the matrix: that is the action of the "
                                                    f"transpose (x'_i = M_ki x_k), not of the transformation")
                            else:
                                roles[s_[1]] = "contravariant"
                                if o[1] != 0:
                                    problems.append(f"index {s_[1]} of self.array is contracted with the SECOND index of the inverse: that is the action of the "
                                                    f"inverse itself where its transpose is needed (l'_i = Minv_ki l_k)")
                # declared index types in this world
                declared = None
                try:
                    chain = CtorChain(prog)
                    vs = set()
                    for c in prog.concrete_subclasses(decl.cls):
                        init = prog.lookup(c, "__init__")
                        pre = {k: v for k, v in world.items() if init is not None and k in [p.arg for p in init.params()]}
                        if len(pre) != len(world):
                            continue
                        for r in chain.run(c, pre):
                            if r.get("_end") == "Tensor":
                                vs.add(variance_of(r.get("covariant"), r.get("tensor_rank")))
                    if len(vs) == 1 and None not in vs:
                        declared = next(iter(vs))
                except RecursionError:
                    declared = None
                if declared is not None and roles:
                    want_role = "covariant" if declared[1] == 0 else ("contravariant" if declared[0] == 0 else None)
                    if want_role is not None:
                        for idx, role in sorted(roles.items()):
                            if role != want_role:
                                problems.append(f"index {idx} is transformed {role}ly (with the {'matrix' if role == 'covariant' else 'inverse'}) but the "
                                                f"constructor chain makes the indices {want_role} in the case {wl}")
                if problems:
                    run.add("E4.V5", decl.short, f"{label} [{wl}]", VIOLATION, "; ".join(dict.fromkeys(problems)) +
                            f" - in the case {wl} the transformed object is not the image of the original (t*(s*x) != (t*s)*x, incidence is lost)", loc)
                elif roles:
                    run.add("E4.V5", decl.short, f"{label} [{wl}]", PROVEN,
                            f"indices {sorted(roles)} act {', '.join(sorted(set(roles.values())))}ly with the right index of the matrix" +
                            (f"; agrees with the declared index types {declared}" if declared else ""), loc)
                else:
                    run.add("E4.V5", decl.short, f"{label} [{wl}]", UNDECIDED, "no contraction between self.array and the transformation recognised", loc)
    return n
